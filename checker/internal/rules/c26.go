package rules

import (
	"go/token"
	"sort"
	"strings"

	"golang.org/x/tools/go/ssa"

	"refcheck/internal/eng"
)

func init() { Register("C26", c26) }

func c26(x *Ctx) {
	c := x.C
	c.Explanation = "C26 (transmission delivers each event once to its own destination within limits): decides (1) the HTTP attempt loop of sendBatch has a constant bound of at most 2 attempts; (2) an event joins the outgoing sub-batch only when its encoded size is within the per-event limit and the batch stays within the batch limit; (3) a batch is dispatched when it reaches the configured size, and whenever a batch's event slice is handed to a sender the batch is given a fresh (nil) slice – never a reslice of the same backing array; (4) everything the request takes from the batch's first event (host, key, dataset) is part of the batching key, so all events in a batch share it; (5) Stop waits for the dispatcher, sends every remaining batch and waits for the senders."
	c.NotCovered = "timing (batch timeout), gauge accounting on every error path, HTTP behaviour of the upstream."
	sb := x.Fn("C26.retry-bound", "transmit", "DirectTransmission", "sendBatch")
	// ---- 1 retry bound ------------------------------------------------------------------------------
	const r1 = "C26.retry-bound"
	if sb != nil {
		var do ssa.Instruction
		eng.Instrs(sb, func(in ssa.Instruction) {
			if _, ok := eng.IsCall(in, "(*net/http.Client).Do"); ok {
				do = in
			}
		})
		if do == nil {
			c.Violate(r1, "sendBatch/Do", x.PosOf(sb.Pos()), "sendBatch does not send the request")
		} else if h := loopHeader(do); h == nil {
			c.Hold(r1, "sendBatch/attempts", x.Pos(do), "single attempt")
		} else {
			// header condition: counter < K
			bound := int64(-1)
			if iff, ok := h.Instrs[len(h.Instrs)-1].(*ssa.If); ok {
				if b, ok := iff.Cond.(*ssa.BinOp); ok && (b.Op == token.LSS || b.Op == token.LEQ) {
					if k, ok := eng.ConstInt(b.Y); ok {
						if phi, ok := b.X.(*ssa.Phi); ok {
							start, step := int64(-1), false
							for _, e := range phi.Edges {
								if s, ok := eng.ConstInt(e); ok {
									start = s
								} else if bo, ok := e.(*ssa.BinOp); ok && bo.Op == token.ADD && bo.X == ssa.Value(phi) {
									if one, ok := eng.ConstInt(bo.Y); ok && one == 1 {
										step = true
									}
								}
							}
							if start >= 0 && step {
								bound = k - start
								if b.Op == token.LEQ {
									bound++
								}
							}
						}
					}
				}
			}
			switch {
			case bound < 0:
				c.Undecided(r1, "sendBatch/attempts", x.Pos(do), sprintf("the attempt loop (header block %d) is not a counted loop with a constant bound", h.Index))
			case bound > 2:
				c.Violate(r1, "sendBatch/attempts", x.Pos(do), sprintf("a batch can be sent %d times (documented: one retry)", bound))
			default:
				c.Hold(r1, "sendBatch/attempts", x.Pos(do), sprintf("at most %d attempts", bound))
			}
		}
	}
	c.Min(r1, 1)
	// ---- 2 size limits --------------------------------------------------------------------------------
	const r2 = "C26.size-limits"
	if sb != nil {
		maxEv, okE := lookupIntConst(x, "transmit", "apiMaxEventSize")
		maxB, okB := lookupIntConst(x, "transmit", "apiMaxBatchSize")
		var joins []ssa.Instruction
		eng.Instrs(sb, func(in ssa.Instruction) {
			cl, ok := in.(*ssa.Call)
			if !ok {
				return
			}
			if b, ok := cl.Call.Value.(*ssa.Builtin); ok && b.Name() == "append" && strings.Contains(cl.Type().String(), "types.Event") && loopHeader(in) != nil {
				joins = append(joins, in)
			}
		})
		isNewPacked := func(v ssa.Value) bool {
			return isExtractOf(v, 0, "(*transmit.batchedEvent).MarshalMsg", "(transmit.batchedEvent).MarshalMsg")
		}
		lenOfNew := func(v ssa.Value) bool {
			cl, ok := v.(*ssa.Call)
			if !ok {
				return false
			}
			b, ok := cl.Call.Value.(*ssa.Builtin)
			return ok && b.Name() == "len" && isNewPacked(cl.Call.Args[0])
		}
		isDelta := func(v ssa.Value) bool {
			b, ok := v.(*ssa.BinOp)
			return ok && b.Op == token.SUB && lenOfNew(b.X)
		}
		if !okE || !okB || len(joins) == 0 {
			c.Undecided(r2, "sendBatch/limits", x.PosOf(sb.Pos()), "cannot identify the size constants or the point where an event joins the sub-batch")
		}
		for _, j := range joins {
			for _, sc := range []struct {
				name string
				fact eng.RelFact
				msg  string
			}{
				{"event-size", eng.RelFact{A: isDelta, BConst: &maxEv, Rel: eng.GT}, "an event whose encoding exceeds the per-event limit can still be added to the outgoing batch (the API rejects the whole request)"},
				{"batch-size", eng.RelFact{A: lenOfNew, BConst: &maxB, Rel: eng.GT}, "an event can be added although the batch then exceeds the batch size limit"},
			} {
				as := &eng.Assume{Bool: func(v ssa.Value) eng.Tri { return eng.EvalRel(v, []eng.RelFact{sc.fact}) }, Nil: func(v ssa.Value) eng.Tri {
					if isExtractOf(v, 1, "(*transmit.batchedEvent).MarshalMsg", "(transmit.batchedEvent).MarshalMsg") {
						return eng.True
					}
					return eng.Unknown
				}}
				h := loopHeader(j)
				var start ssa.Instruction
				if b := loopBody(h); b != nil {
					start = b.Instrs[0]
				}
				r := eng.Explore(eng.Query{Fn: sb, Assume: as, Start: start, Classify: func(in ssa.Instruction, _ eng.Facts) eng.Event {
					if in == h.Instrs[0] {
						return eng.EvKill
					}
					if in == j {
						return eng.EvSink
					}
					return eng.EvNone
				}})
				c.Decide(len(r.Hits) == 0, r2, "sendBatch/"+sc.name, x.Pos(j), "guarded by the "+sc.name+" limit", sc.msg)
			}
		}
	}
	c.Min(r2, 2)
	// ---- 3 dispatch and slice hand-over ----------------------------------------------------------------------
	const r3 = "C26.fresh-slice-after-dispatch"
	evF := eng.FieldIs("transmit", "eventBatch", "events")
	tfuncs := x.PkgFuncs("transmit")
	for _, w := range eng.FieldWrites(tfuncs, evF) {
		c.Examined++
		st := w.Instr.(*ssa.Store)
		key := BaseName(w.Fn) + "/events"
		switch v := st.Val.(type) {
		case *ssa.Const:
			c.Decide(v.IsNil(), r3, key, x.Pos(st), "batch gets a nil slice after its events were handed to a sender", "unexpected constant stored into the batch's event slice")
		case *ssa.MakeSlice:
			c.Hold(r3, key, x.Pos(st), "fresh slice")
		case *ssa.Call:
			if b, ok := v.Call.Value.(*ssa.Builtin); ok && b.Name() == "append" && loadsField(v.Call.Args[0], evF) {
				c.Hold(r3, key, x.Pos(st), "append to the batch's own slice")
			} else {
				c.Undecided(r3, key, x.Pos(st), "unrecognised value stored into the batch's event slice")
			}
		case *ssa.Slice:
			c.Violate(r3, key, x.Pos(st), "the batch keeps a reslice of the slice that was just handed to a sender goroutine: the next enqueued event overwrites an event of the batch that is still being sent (lost event, duplicate of the new one)")
		default:
			c.Undecided(r3, key, x.Pos(st), "unrecognised value stored into the batch's event slice")
		}
	}
	c.Min(r3, 4)
	if ee := x.Fn("C26.dispatch-at-size", "transmit", "DirectTransmission", "EnqueueEvent"); ee != nil {
		// with len(events) >= maxBatchSize every path dispatches (sendBatch via the pool) before returning
		maxF := eng.FieldIs("transmit", "DirectTransmission", "maxBatchSize")
		as := &eng.Assume{Bool: func(v ssa.Value) eng.Tri {
			return eng.EvalRel(v, []eng.RelFact{{A: func(u ssa.Value) bool {
				cl, ok := u.(*ssa.Call)
				if !ok {
					return false
				}
				b, ok := cl.Call.Value.(*ssa.Builtin)
				return ok && b.Name() == "len"
			}, B: func(u ssa.Value) bool { return loadsField(u, maxF) }, Rel: eng.GT | eng.EQ}})
		}}
		r := eng.Explore(eng.Query{Fn: ee, Assume: as, Classify: func(in ssa.Instruction, _ eng.Facts) eng.Event {
			if _, ok := eng.IsCall(in, "(*github.com/sourcegraph/conc/pool.Pool).Go"); ok {
				return eng.EvSink
			}
			return eng.EvNone
		}})
		bad := false
		for _, e := range r.Exits {
			if _, isRet := e.Instr.(*ssa.Return); isRet && e.Sinks != 1 {
				bad = true
			}
		}
		c.Decide(!bad, "C26.dispatch-at-size", "EnqueueEvent/full-batch", x.PosOf(ee.Pos()), "a batch that reached MaxBatchSize is dispatched exactly once", "a batch that reached the configured size is not dispatched (or dispatched twice) on some path")
	}
	// ---- 4 key fields --------------------------------------------------------------------------------------
	const r4 = "C26.key-fields"
	if ee, sbf := x.P.Func("transmit", "DirectTransmission", "EnqueueEvent"), sb; ee != nil && sbf != nil {
		keyed := map[string]bool{}
		eng.Instrs(ee, func(in ssa.Instruction) {
			st, ok := in.(*ssa.Store)
			if !ok {
				return
			}
			fr, _, ok := eng.FieldRefOf(st.Addr)
			if !ok || fr.Struct == nil || fr.Struct.Obj().Name() != "transmitKey" {
				return
			}
			if fr2, _, ok := eng.LoadedField(st.Val); ok && fr2.Struct != nil && fr2.Struct.Obj().Name() == "Event" {
				keyed[fr2.Name] = true
			}
		})
		taken := map[string]bool{}
		eng.Instrs(sbf, func(in ssa.Instruction) {
			u, ok := in.(*ssa.UnOp)
			if !ok || u.Op != token.MUL {
				return
			}
			fr, base, ok := eng.FieldRefOf(u.X)
			if !ok || fr.Struct == nil || fr.Struct.Obj().Name() != "Event" {
				return
			}
			// base is *(&wholeBatch[0])
			if ld, ok := base.(*ssa.UnOp); ok {
				if ia, ok := ld.X.(*ssa.IndexAddr); ok {
					if k, ok := eng.ConstInt(ia.Index); ok && k == 0 {
						taken[fr.Name] = true
					}
				}
			}
		})
		var missing []string
		for f := range taken {
			if !keyed[f] {
				missing = append(missing, f)
			}
		}
		sort.Strings(missing)
		c.Info["batch_key_fields"] = keys(keyed)
		c.Info["taken_from_first_event"] = keys(taken)
		c.Decide(len(taken) >= 3 && len(missing) == 0, r4, "EnqueueEvent/transmitKey", x.PosOf(ee.Pos()), "everything the request takes from the first event is part of the batching key",
			"the request built for a batch takes ["+strings.Join(missing, ", ")+"] from the batch's first event, but the batching key does not include it: events with different values share a batch and are all sent with the first event's")
	}
	c.Min(r4, 1)
	// ---- 5 flush on stop -----------------------------------------------------------------------------------------
	const r5 = "C26.flush-on-stop"
	if st := x.Fn(r5, "transmit", "DirectTransmission", "Stop"); st != nil {
		var wgWait, poolWait, rng ssa.Instruction
		sends := false
		eng.Instrs(st, func(in ssa.Instruction) {
			if cl, ok := eng.IsCall(in, "(*sync.WaitGroup).Wait"); ok {
				if fr, _, ok := eng.FieldRefOf(eng.Receiver(cl)); ok && fr.Name == "stopWG" {
					wgWait = in
				}
			}
			if _, ok := eng.IsCall(in, "(*github.com/sourcegraph/conc/pool.Pool).Wait"); ok {
				poolWait = in
			}
			if r, ok := in.(*ssa.Range); ok {
				if _, d := eng.Derives(r.X, func(v ssa.Value) bool {
					return loadsField(v, eng.FieldIs("transmit", "DirectTransmission", "eventBatches"))
				}, eng.FlowOpts{}); d {
					rng = in
				}
			}
		})
		for _, g := range eng.WithAnon(st) {
			eng.Instrs(g, func(in ssa.Instruction) {
				if _, ok := eng.IsCall(in, "(*transmit.DirectTransmission).sendBatch"); ok {
					sends = true
				}
			})
		}
		ok := wgWait != nil && poolWait != nil && rng != nil && sends && eng.Dominates(wgWait, rng) && eng.Dominates(rng, poolWait)
		c.Decide(ok, r5, "Stop", x.PosOf(st.Pos()), "wait for the dispatcher, send every remaining batch, wait for the senders", "Stop does not (in this order) wait for the dispatcher goroutine, send every remaining batch and wait for the sender pool: events still queued at shutdown are lost")
	}
	c.Min(r5, 1)

	// ---- a destination's batch is created at most once: re-check under the write lock -----------------------------
	const r6 = "C26.batch-created-once"
	batchesF := eng.FieldIs("transmit", "DirectTransmission", "eventBatches")
	bmF := eng.FieldIs("transmit", "DirectTransmission", "batchMutex")
	for _, f := range x.PkgFuncs("transmit") {
		eng.Instrs(f, func(in ssa.Instruction) {
			mu, ok := in.(*ssa.MapUpdate)
			if !ok || !loadsField(mu.Map, batchesF) {
				return
			}
			if _, fresh := mu.Value.(*ssa.Alloc); !fresh {
				if _, d := eng.Derives(mu.Value, func(v ssa.Value) bool { _, isA := v.(*ssa.Alloc); return isA }, eng.FlowOpts{}); !d {
					return
				}
			}
			c.Examined++
			// from the write Lock that guards this store, a look-up of the same map comes first
			var locks []ssa.Instruction
			eng.Instrs(f, func(i2 ssa.Instruction) {
				if cl, ok := eng.IsCall(i2, "(*sync.RWMutex).Lock", "(*sync.Mutex).Lock"); ok {
					if fr, _, ok := eng.FieldRefOf(eng.Receiver(cl)); ok && bmF(fr) && eng.MayPrecede(i2, in) {
						locks = append(locks, i2)
					}
				}
			})
			if len(locks) == 0 {
				c.Violate(r6, BaseName(f)+"/eventBatches", x.Pos(in), "a batch is stored in the destination map without the write lock")
				return
			}
			bad := false
			for _, lk := range locks {
				r := eng.Explore(eng.Query{Fn: f, Start: lk, Classify: func(i2 ssa.Instruction, _ eng.Facts) eng.Event {
					if l2, ok := i2.(*ssa.Lookup); ok && loadsField(l2.X, batchesF) {
						return eng.EvKill
					}
					if _, ok := eng.IsCall(i2, "(*sync.RWMutex).Unlock", "(*sync.Mutex).Unlock"); ok {
						return eng.EvKill
					}
					if i2 == in {
						return eng.EvSink
					}
					return eng.EvNone
				}})
				if len(r.Hits) > 0 {
					bad = true
				}
			}
			c.Decide(!bad, r6, BaseName(f)+"/eventBatches", x.Pos(in), "the map is looked up again under the write lock before a new batch is stored",
				"a new batch is stored for a destination under the write lock without looking the destination up again: two goroutines that both missed under the read lock each store a batch, the second store replaces the first, and the events already placed in the first batch are never dispatched or flushed")
		})
	}
	c.Min(r6, 1)

	// ---- stale batches are looked at every quarter of the timeout (or more often) ---------------------------------------
	const r7 = "C26.stale-ticker-period"
	{
		btF := eng.FieldIs("transmit", "DirectTransmission", "batchTimeout")
		n := 0
		for _, ds := range x.PkgFuncs("transmit") {
			eng.Instrs(ds, func(in ssa.Instruction) {
				cl, ok := in.(ssa.CallInstruction)
				if !ok || !strings.HasSuffix(eng.CalleeName(cl), ".NewTicker") {
					return
				}
				a := eng.CallArgs(cl)[0]
				if _, d := eng.Derives(a, func(v ssa.Value) bool { return loadsField(v, btF) }, eng.FlowOpts{}); !d {
					return // another ticker (metrics)
				}
				n++
				c.Examined++
				ok2 := false
				if bo, isB := eng.StripConv(a).(*ssa.BinOp); isB && bo.Op == token.QUO && loadsField(eng.StripConv(bo.X), btF) {
					if k, isK := eng.ConstInt(bo.Y); isK && k >= 4 {
						ok2 = true
					}
				}
				c.Decide(ok2, r7, "dispatchStaleBatches/ticker", x.Pos(in), "period = BatchTimeout / k with k ≥ 4",
					"the stale-batch ticker's period is not BatchTimeout divided by at least 4 (it has a floor, a cap or another formula): a batch whose first event arrives just after a tick is dispatched later than 1.25 × BatchTimeout")
			})
		}
		if n == 0 {
			c.Undecided(r7, "dispatchStaleBatches/ticker", "transmit/direct_transmit.go", "cannot find the ticker derived from BatchTimeout")
		}
	}
}
