package rules

import (
	"go/printer"
	"go/token"
	"strings"
)

type stringsBuilder = strings.Builder

func printerFprint(sb *strings.Builder, fset *token.FileSet, n any) { printer.Fprint(sb, fset, n) }
