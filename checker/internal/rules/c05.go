package rules

import (
	"golang.org/x/tools/go/ssa"

	"refcheck/internal/eng"
)

func init() { Register("C05", c05) }

// spanOfPayloadRecv: the receiver of a Payload.Set call (&sp.Event.Data) belongs to span value sp.
func payloadOf(recv ssa.Value, span ssa.Value) bool {
	_, ok := eng.Derives(recv, func(v ssa.Value) bool { return v == span || eng.SameObject(v, span) }, eng.FlowOpts{})
	return ok
}

func c05(x *Ctx) {
	c := x.C
	c.Explanation = "C05 (dry run forwards everything with the would-be decision): under the assumption that every GetIsDryRun() call returns true, decides that send() queues the trace on every path whatever the decision, dealWithSentTrace enqueues the late span on every path whatever the record says, every forwarding site sets the dry-run marker on the span before the enqueue with a value that derives from the decision, the merge leaves the client's (floored) rate in place, and the dryRun argument of the merge is the configuration's."
	c.NotCovered = "ProcessSpanImmediately is exempt by the property's own wording (stress relief ignores dry run); the numeric value of meta.dryrun.sample_rate."
	dryOn := func(v ssa.Value) eng.Tri {
		if isCallValue(v, nIsDryRun) {
			return eng.True
		}
		return eng.Unknown
	}
	tts := eng.FieldIs("collect", "InMemCollector", "tracesToSend")
	sentF := eng.FieldIs("types", "Trace", "Sent")
	keepF := eng.FieldIs("types", "Trace", "KeepSample")
	const rFw = "C05.dryrun-forwards"
	if sendFn := x.Fn(rFw, "collect", "InMemCollector", "send"); sendFn != nil {
		for _, kv := range []struct {
			n string
			t eng.Tri
		}{{"kept", eng.True}, {"dropped", eng.False}} {
			as := &eng.Assume{Bool: func(v ssa.Value) eng.Tri {
				if loadsField(v, sentF) {
					return eng.False
				}
				if loadsField(v, keepF) {
					return kv.t
				}
				return dryOn(v)
			}}
			r := eng.ReachableSinks(sendFn, as, nil, func(in ssa.Instruction) bool {
				s, ok := in.(*ssa.Send)
				return ok && loadsField(s.Chan, tts)
			})
			c.Examined += r.States
			bad := false
			for _, e := range r.Exits {
				if _, ok := e.Instr.(*ssa.Return); ok && e.Sinks != 1 {
					bad = true
					o := c.Violate(rFw, "send/"+kv.n, x.Pos(e.Instr), sprintf("in dry-run mode a %s trace leaves send() queued %d times instead of once", kv.n, e.Sinks))
					o.Path = eng.DescribePath(x.P.Pos, e.Path)
					break
				}
			}
			if !bad {
				c.Hold(rFw, "send/"+kv.n, x.PosOf(sendFn.Pos()), "dry run ⇒ queued exactly once")
			}
		}
	}
	dryKey, _ := x.constStr(rFw, "config", "DryRunFieldName")
	if dw := x.Fn(rFw, "collect", "InMemCollector", "dealWithSentTrace"); dw != nil {
		for _, kv := range []struct {
			n string
			t eng.Tri
		}{{"kept", eng.True}, {"dropped", eng.False}} {
			as := &eng.Assume{Bool: func(v ssa.Value) eng.Tri {
				if isCallValue(v, "(collect/cache.TraceSentRecord).Kept") {
					return kv.t
				}
				return dryOn(v)
			}}
			r := eng.ReachableSinks(dw, as, nil, isUpstreamEnqueue)
			c.Examined += r.States
			bad := false
			for _, e := range r.Exits {
				if _, ok := e.Instr.(*ssa.Return); ok && e.Sinks != 1 {
					bad = true
					o := c.Violate(rFw, "dealWithSentTrace/"+kv.n, x.Pos(e.Instr), sprintf("in dry-run mode a late span of a %s trace is enqueued %d times instead of once", kv.n, e.Sinks))
					o.Path = eng.DescribePath(x.P.Pos, e.Path)
					break
				}
			}
			if !bad {
				c.Hold(rFw, "dealWithSentTrace/"+kv.n, x.PosOf(dw.Pos()), "dry run ⇒ enqueued exactly once")
			}
		}
	}
	c.Min(rFw, 4)

	// marker before enqueue, value from the decision
	const rMark = "C05.marker-from-decision"
	sources := map[string]func(ssa.Value) bool{
		"dealWithSentTrace": func(v ssa.Value) bool { return isCallValue(v, "(collect/cache.TraceSentRecord).Kept") },
		"sendTraces": func(v ssa.Value) bool {
			return loadsField(v, eng.FieldIs("collect", "sendableTrace", "shouldSend")) || func() bool {
				fr, _, ok := eng.FieldRefOf(v)
				return ok && eng.FieldIs("collect", "sendableTrace", "shouldSend")(fr)
			}()
		},
	}
	for _, fname := range []string{"dealWithSentTrace", "sendTraces"} {
		f := x.Fn(rMark, "collect", "InMemCollector", fname)
		if f == nil {
			continue
		}
		as := &eng.Assume{Bool: dryOn}
		var enq []ssa.Instruction
		eng.Instrs(f, func(in ssa.Instruction) {
			if isUpstreamEnqueue(in) {
				enq = append(enq, in)
			}
		})
		for _, e := range enq {
			span := eng.CallArgs(e.(ssa.CallInstruction))[0]
			h := loopHeader(e)
			var start ssa.Instruction
			if h != nil {
				if b := loopBody(h); b != nil {
					start = b.Instrs[0]
				}
			}
			badVal := ""
			r := eng.Explore(eng.Query{Fn: f, Assume: as, Start: start, TrackPhi: func(*ssa.Phi) bool { return true }, Classify: func(in ssa.Instruction, F eng.Facts) eng.Event {
				if h != nil && in == h.Instrs[0] {
					return eng.EvKill
				}
				if k, cl, ok := payloadSetKey(in); ok && k == dryKey && payloadOf(eng.Receiver(cl), span) {
					val := eng.CallArgs(cl)[1]
					if mi, ok := val.(*ssa.MakeInterface); ok {
						val = mi.X
					}
					// the value on this path (phis resolved) must be the decision itself
					if _, ok := eng.Derives(F.Resolve(val), sources[fname], eng.FlowOpts{Stop: func(v ssa.Value) bool { _, isPhi := v.(*ssa.Phi); return isPhi && F.Resolve(v) != v }}); !ok {
						badVal = x.Pos(in)
					}
					return eng.EvKill
				}
				if in == e {
					return eng.EvSink
				}
				return eng.EvNone
			}})
			c.Examined += r.States
			switch {
			case len(r.Hits) > 0:
				o := c.Violate(rMark, fname+"/enqueue", x.Pos(e), "in dry-run mode a span is forwarded without the "+dryKey+" marker: the would-be decision is lost")
				o.Path = eng.DescribePath(x.P.Pos, r.Hits[0].Path)
			case badVal != "":
				c.Violate(rMark, fname+"/enqueue", badVal, "the dry-run marker is not set from the trace's decision")
			default:
				c.Hold(rMark, fname+"/enqueue", x.Pos(e), "marker set from the decision before the enqueue")
			}
		}
	}
	c.Min(rMark, 2)
	// shouldSend carries the sampler's keep
	if md := x.Fn(rMark, "collect", "CollectorWorker", "makeDecision"); md != nil {
		n := 0
		for _, w := range eng.FieldWrites([]*ssa.Function{md}, eng.FieldIs("collect", "sendableTrace", "shouldSend")) {
			n++
			c.Decide(isExtractOf(w.Instr.(*ssa.Store).Val, 1, nSamplerRate), rMark, "makeDecision/shouldSend", x.Pos(w.Instr), "shouldSend = sampler's keep", "sendableTrace.shouldSend is not the sampler's keep result")
		}
		if n == 0 {
			c.Violate(rMark, "makeDecision/shouldSend", x.PosOf(md.Pos()), "makeDecision never sets shouldSend")
		}
	}

	// merge: dry-run flag comes from the configuration; dry-run branch keeps the client rate
	const rMerge = "C05.merge-in-dry-run"
	for _, s := range eng.CallSites(x.PkgFuncs("collect"), func(n string, _ ssa.CallInstruction) bool { return n == nMerge }) {
		a := eng.CallArgs(s.Instr.(ssa.CallInstruction))
		_, ok := eng.Derives(a[2], func(v ssa.Value) bool { return isCallValue(v, nIsDryRun) }, eng.FlowOpts{})
		c.Decide(ok, rMerge, eng.Root(s.Fn).Name()+"/dry-run-argument", x.Pos(s.Instr), "dryRunMode = Config.GetIsDryRun()", "the merge's dry-run flag is not the configuration's IsDryRun")
	}
	if mf := x.Fn(rMerge, "collect", "", "mergeTraceAndSpanSampleRates"); mf != nil && len(mf.Params) == 3 {
		rateF := eng.FieldIs("types", "Event", "SampleRate")
		dry := mf.Params[2]
		ok, n := true, 0
		eng.Explore(eng.Query{Fn: mf, Assume: &eng.Assume{Bool: func(v ssa.Value) eng.Tri {
			if v == ssa.Value(dry) {
				return eng.True
			}
			return eng.Unknown
		}}, Classify: func(in ssa.Instruction, _ eng.Facts) eng.Event {
			if st, isSt := in.(*ssa.Store); isSt {
				if fr, _, isF := eng.FieldRefOf(st.Addr); isF && rateF(fr) {
					n++
					if _, isMul := st.Val.(*ssa.BinOp); isMul || !eng.AtLeastOne(st.Val) {
						ok = false
					}
				}
			}
			return eng.EvNone
		}})
		c.Decide(ok && n > 0, rMerge, "merge/dry-run-branch", x.PosOf(mf.Pos()), "dry run: span keeps max(client rate,1)", "in dry-run mode the span's SampleRate is changed to something other than the floored client rate")
	}
	c.Min(rMerge, 4)

	// the dry-run flag is read per trace, not frozen before a long-lived loop
	const rLive = "C05.dryrun-read-when-used"
	for _, s := range eng.CallSites(x.PkgFuncs("collect"), func(n string, _ ssa.CallInstruction) bool { return n == nIsDryRun }) {
		c.Examined++
		frozen, use := frozenBeforeServiceLoop(s.Instr)
		if frozen {
			c.Violate(rLive, eng.Root(s.Fn).Name()+"/GetIsDryRun", x.Pos(s.Instr), "IsDryRun (reload: true) is read once before the function's long-lived channel loop and used inside it at "+x.Pos(use)+": after a reload the forwarding goroutine keeps the old mode while send()/dealWithSentTrace use the new one")
		} else {
			c.Hold(rLive, eng.Root(s.Fn).Name()+"/GetIsDryRun", x.Pos(s.Instr), "read where it is used")
		}
	}
	c.Min(rLive, 4)
}
