#!/usr/bin/env python3
"""Confirms a seeded change produced by an independent sub-agent and records which checks catch it.
usage: seed_verify.py <out-dir with patch.diff, demo_test.go, NOTES.md> <property id> [--skip-suite]
Steps (all in a scratch worktree under /tmp/vs, removed afterwards):
  1. pristine: demo passes            2. patch applies, repo builds
  3. stable tests pass with the patch (demo absent)   4. demo fails with the patch
  5. ./check all quick against the patched worktree: which properties report
On success copies the seed to /verif/seeded/<name>/ with meta.json."""
import json, os, re, shutil, subprocess, sys
src, pid = sys.argv[1].rstrip("/"), sys.argv[2]
skip_suite = "--skip-suite" in sys.argv
recheck = "--recheck" in sys.argv  # only re-run the checks (seed already confirmed): refresh meta.json
name = os.path.basename(src)
wt = f"/tmp/vs/{name}"
env = dict(os.environ, GOFLAGS="-mod=mod")
def sh(cmd, cwd=None, timeout=1800):
    p = subprocess.run(cmd, shell=True, cwd=cwd, env=env, capture_output=True, text=True, timeout=timeout)
    return p.returncode, (p.stdout + p.stderr)
PKGDIR = {"collect": "collect", "cache": "collect/cache", "sample": "sample", "route": "route", "config": "config", "types": "types",
          "transmit": "transmit", "sharder": "sharder", "peer": "internal/peer", "health": "internal/health", "generics": "generics",
          "metrics": "metrics", "agent": "agent", "app": "app", "main": "cmd/refinery", "pubsub": "pubsub", "configwatcher": "internal/configwatcher", "logger": "logger"}
demos = [f for f in os.listdir(src) if f.endswith("_test.go")]
notes = open(os.path.join(src, "NOTES.md")).read() if os.path.exists(os.path.join(src, "NOTES.md")) else ""
meta = {"seed": name, "property": pid, "steps": {}}
os.makedirs("/tmp/vs", exist_ok=True)
sh(f"git -C /repo worktree remove --force {wt}")
PIN = open("/root/.vp/repo_root_sha").read().strip() if os.path.exists("/root/.vp/repo_root_sha") else "HEAD"
for a in sys.argv:
    if a.startswith("--base="):
        PIN = a.split("=", 1)[1]   # seed was written against this commit
if "--head" in sys.argv:
    PIN = "HEAD"   # seed was written against the current tree (with fix: commits)
rc, out = sh(f"git -C /repo worktree add --detach {wt} {PIN}")
if rc != 0:
    PIN = subprocess.check_output("git -C /repo rev-list --max-parents=0 HEAD", shell=True, text=True).split()[0]
    rc, out = sh(f"git -C /repo worktree add --detach {wt} {PIN}")
assert rc == 0, out
ok = True
try:
    placed = []
    for d in demos:
        txt = open(os.path.join(src, d)).read()
        m = re.search(r"^package\s+(\w+)", txt, re.M)
        pk = m.group(1).removesuffix("_test")
        ddir = PKGDIR.get(pk)
        m2 = re.search(r"(?:cop(?:y|ied)|goes|place[d]?)\s+(?:it\s+)?(?:in|into|to)\s+`?([\w/\.]+?)/?`", notes)
        if m2 and os.path.isdir(os.path.join(wt, m2.group(1).strip("./"))):
            ddir = m2.group(1).strip("./")
        assert ddir, f"cannot place demo {d} (package {pk})"
        placed.append((d, ddir))
    def run_demos():
        res = []
        for d, ddir in placed:
            shutil.copy(os.path.join(src, d), os.path.join(wt, ddir, "zz_seed_" + d))
        for ddir in sorted(set(x[1] for x in placed)):
            race = "-race " if "--race" in sys.argv else ""
            rc, out = sh(f"go test {race}-vet=off -count=1 -run 'Demo|Seed' ./{ddir}/", cwd=wt, timeout=1500)
            if "no tests to run" in out:
                rc, out = sh(f"go test -vet=off -count=1 ./{ddir}/", cwd=wt, timeout=900)
            res.append((rc, out[-1500:]))
        for d, ddir in placed:
            os.remove(os.path.join(wt, ddir, "zz_seed_" + d))
        return res
    if recheck:
        old = json.load(open(f"/verif/seeded/{name}/meta.json"))
        meta["steps"] = old["steps"]
        raise_recheck = True
    else:
        raise_recheck = False
    r = run_demos() if not recheck else [(0, "")]
    if not recheck:
        meta["steps"]["demo_passes_pristine"] = all(rc == 0 for rc, _ in r)
    if not recheck and not meta["steps"]["demo_passes_pristine"]:
        # flaky under load? retry once
        r = run_demos()
        meta["steps"]["demo_passes_pristine"] = all(rc == 0 for rc, _ in r)
        meta["steps"]["pristine_output"] = r[0][1][-600:]
    if not recheck:
        rc, out = sh(f"git apply {os.path.join(src, 'patch.diff')}", cwd=wt)
        meta["steps"]["patch_applies"] = rc == 0
        assert rc == 0, out
        rc, out = sh("go build ./...", cwd=wt)
        meta["steps"]["builds"] = rc == 0
    if not skip_suite and not recheck:
        # a private network namespace keeps the fixed-port integration tests from clashing with other jobs
        rc, out = sh(f"unshare -n sh -c 'ip link set lo up; python3 /verif/tools/stable_tests.py {wt}' || python3 /verif/tools/stable_tests.py {wt}", timeout=4000)
        meta["steps"]["stable_tests_pass"] = rc == 0
        meta["steps"]["stable_tests_output"] = out.strip().splitlines()[:6]
    if not recheck:
        r = run_demos()
        meta["steps"]["demo_fails_with_patch"] = any(rc != 0 for rc, _ in r)
    # checks run against the current /repo HEAD (with any fix: commits) plus the seeded change; only reports that are
    # new relative to the unpatched HEAD count as detections
    sh("git checkout -- . && git clean -fdq", cwd=wt)
    sh("git checkout -q --detach $(git -C /repo rev-parse HEAD)", cwd=wt)
    BIN = os.environ.get("REFCHECK_BIN", "/verif/bin/refcheck")  # a frozen copy keeps baseline and patched runs comparable
    CHK = f"PATH=/verif/bin/tc:$PATH GOTOOLCHAIN=local GOPROXY=off GOSUMDB=off GOWORK=off {BIN} -verif /verif -out /tmp/vs/out-{name} -dir {wt} all quick"
    rc, base_out = sh(CHK, timeout=1200)
    base = set(re.findall(r"^VIOLATION property=(C\d+).*?key=(\S+)", base_out, re.M))
    rc, out = sh(f"git apply --3way {os.path.join(src, 'patch.diff')}", cwd=wt)
    meta["steps"]["patch_applies_on_head"] = rc == 0
    sh("git reset -q", cwd=wt)
    rc, out = sh(CHK, timeout=1200)
    fired = sorted(set(re.findall(r"^VIOLATION property=(C\d+).*?key=(\S+)", out, re.M)) - base)
    meta["checker_broken"] = "BROKEN" in out
    meta["checks_fired"] = [{"property": p, "key": k} for p, k in fired]
    meta["caught_by_own_property"] = any(p == pid for p, _ in fired)
    meta["caught"] = bool(fired)
    ok = all(v for k, v in meta["steps"].items() if isinstance(v, bool) and k != "patch_applies_on_head")
    meta["confirmed"] = ok
finally:
    sh(f"git -C /repo worktree remove --force {wt}")
    sh(f"rm -rf {wt} /tmp/vs/out-{name}")
print(json.dumps(meta, indent=1))
if ok:
    dst = f"/verif/seeded/{name}"
    os.makedirs(dst, exist_ok=True)
    for f in os.listdir(src):
        if os.path.abspath(src) != os.path.abspath(dst):
            shutil.copy(os.path.join(src, f), dst)
    m = {"property": pid, "breaks": notes.strip().splitlines()[0:1], "needs_to_manifest": "see NOTES.md", "confirmed_by": "tools/seed_verify.py: pristine demo passes, patch applies and builds, stable tests pass with patch, demo fails with patch", **meta}
    json.dump(m, open(os.path.join(dst, "meta.json"), "w"), indent=1)
sys.exit(0 if ok else 1)
