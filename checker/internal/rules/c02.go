package rules

import (
	"strings"

	"golang.org/x/tools/go/ssa"

	"refcheck/internal/eng"
)

func init() { Register("C02", c02) }

// upstreamEnqueue matches EnqueueSpan/EnqueueEvent on the collector's upstream transmission.
func isUpstreamEnqueue(in ssa.Instruction) bool {
	cl, ok := eng.IsCall(in, nEnqueueSpan, nEnqueueEvent)
	if !ok {
		return false
	}
	recv := eng.Receiver(cl)
	return recv != nil && loadsField(recv, eng.FieldIs("collect", "InMemCollector", "Transmission"))
}

func c02(x *Ctx) {
	c := x.C
	c.Explanation = "C02 (kept forwarded exactly once, dropped never): decides (1) which functions may hand spans to the upstream transmission and operate the tracesToSend channel, (2) the trace.Sent guard and single enqueue per buffered span, (3) with dry run off no path forwards a dropped trace or a late span of a dropped trace, and a late span of a kept trace is enqueued exactly once, (4) every trace removed from the buffer was decided and – when the decision succeeded – handed to send in the same iteration."
	c.NotCovered = "'eventually decided' (liveness over ticks) and delivery inside the transmission (C26)."
	funcs := x.PkgFuncs("collect")

	// ---- clause 1: who may forward ------------------------------------------
	const rWho = "C02.who-may-forward"
	allowed := map[string]string{
		"sendTraces":             "drains decided traces",
		"dealWithSentTrace":      "late span of a decided trace",
		"ProcessSpanImmediately": "stress relief escape hatch",
	}
	for _, f := range funcs {
		eng.Instrs(f, func(in ssa.Instruction) {
			if !isUpstreamEnqueue(in) {
				return
			}
			c.Examined++
			_, ok := allowed[eng.Root(f).Name()]
			c.Decide(ok, rWho, BaseName(f)+"/enqueue", x.Pos(in), "forwarding site "+allowed[eng.Root(f).Name()],
				"a span is handed to the upstream transmission from "+FName(f)+", outside the three functions that apply a recorded decision: it is forwarded regardless of (or in addition to) the trace's decision")
		})
	}
	c.Min(rWho, 3)
	const rChan = "C02.send-channel-discipline"
	tts := eng.FieldIs("collect", "InMemCollector", "tracesToSend")
	for _, op := range chanOps(funcs, tts) {
		c.Examined++
		fn := eng.Root(op.Fn).Name()
		ok := op.Kind == "send" && fn == "send" || op.Kind == "recv" && fn == "sendTraces" || op.Kind == "close" && fn == "Stop"
		c.Decide(ok, rChan, fn+"/"+op.Kind, x.Pos(op.Instr), "tracesToSend "+op.Kind+" in "+fn,
			"tracesToSend is "+op.Kind+"-operated in "+fn+": decided traces can be duplicated or consumed outside sendTraces")
	}
	c.Min(rChan, 3)
	if st := x.Fn(rChan, "collect", "InMemCollector", "Start"); st != nil {
		n := 0
		for _, f := range funcs {
			eng.Instrs(f, func(in ssa.Instruction) {
				if g, ok := in.(*ssa.Go); ok && eng.CalleeName(g) == "(*collect.InMemCollector).sendTraces" {
					n++
					c.Decide(f == st && loopHeader(g) == nil, rChan, BaseName(f)+"/go-sendTraces", x.Pos(in), "single consumer goroutine started in Start",
						"sendTraces is started outside Start or inside a loop: two consumers forward concurrently")
				}
			})
		}
		if n != 1 {
			c.Violate(rChan, "Start/go-sendTraces-count", x.PosOf(st.Pos()), sprintf("expected exactly one `go sendTraces()`, found %d", n))
		}
	}

	// ---- clause 2: once per trace ---------------------------------------------
	const rSent = "C02.sent-guard"
	sentF := eng.FieldIs("types", "Trace", "Sent")
	keepF := eng.FieldIs("types", "Trace", "KeepSample")
	isChanSend := func(in ssa.Instruction) bool {
		s, ok := in.(*ssa.Send)
		return ok && loadsField(s.Chan, tts)
	}
	sendFn := x.Fn(rSent, "collect", "InMemCollector", "send")
	if sendFn != nil {
		asSent := &eng.Assume{Bool: func(v ssa.Value) eng.Tri {
			if loadsField(v, sentF) {
				return eng.True
			}
			return eng.Unknown
		}}
		r := eng.ReachableSinks(sendFn, asSent, nil, isChanSend)
		c.Examined += r.States
		if len(r.Hits) > 0 {
			o := c.Violate(rSent, "send/already-sent", x.Pos(r.Hits[0].Instr), "a trace whose Sent flag is already set is queued for transmission again: every span is forwarded twice")
			o.Path = eng.DescribePath(x.P.Pos, r.Hits[0].Path)
		} else {
			c.Hold(rSent, "send/already-sent", x.PosOf(sendFn.Pos()), "trace.Sent ⇒ not queued")
		}
		// Sent = true precedes the channel send on every path
		r2 := eng.Explore(eng.Query{Fn: sendFn, Classify: func(in ssa.Instruction, _ eng.Facts) eng.Event {
			if st, ok := in.(*ssa.Store); ok {
				if fr, _, ok := eng.FieldRefOf(st.Addr); ok && sentF(fr) {
					if cst, ok := st.Val.(*ssa.Const); ok && cst.Value != nil && cst.Value.String() == "true" {
						return eng.EvKill
					}
				}
			}
			if isChanSend(in) {
				return eng.EvSink
			}
			return eng.EvNone
		}})
		c.Examined += r2.States
		if len(r2.Hits) > 0 {
			c.Violate(rSent, "send/mark-before-queue", x.Pos(r2.Hits[0].Instr), "the trace is queued without Sent being set first: a second send() call (late ejection, expiry) queues it again")
		} else {
			c.Hold(rSent, "send/mark-before-queue", x.PosOf(sendFn.Pos()), "Sent = true precedes the channel send")
		}
	}
	// Sent has no other writers
	for _, w := range eng.FieldWrites(x.RepoFuncs(), sentF) {
		c.Examined++
		fn := eng.Root(w.Fn)
		c.Decide(fn == sendFn, "C02.sent-single-writer", FName(fn)+"/Sent", x.Pos(w.Instr), "written in send only", "Trace.Sent is written outside send: the once-only guard can be reset or pre-set")
	}
	c.Min("C02.sent-single-writer", 1)
	c.Min(rSent, 2)

	const rOnce = "C02.one-enqueue-per-span"
	if st := x.Fn(rOnce, "collect", "InMemCollector", "sendTraces"); st != nil {
		var enq []ssa.Instruction
		eng.Instrs(st, func(in ssa.Instruction) {
			if isUpstreamEnqueue(in) {
				enq = append(enq, in)
			}
		})
		for _, e := range enq {
			h := loopHeader(e)
			arg := eng.CallArgs(e.(ssa.CallInstruction))[0]
			isElem := rangeElemOf(arg, func(v ssa.Value) bool { return isCallValue(v, "(*types.Trace).GetSpans") })
			if h == nil || !isElem {
				c.Violate(rOnce, "sendTraces/enqueue", x.Pos(e), "the enqueued span is not the element of a range over the trace's spans")
				continue
			}
			// within one iteration no second enqueue
			r := eng.Explore(eng.Query{Fn: st, Start: e, Classify: func(in ssa.Instruction, _ eng.Facts) eng.Event {
				if in == h.Instrs[0] {
					return eng.EvKill
				}
				if isUpstreamEnqueue(in) {
					return eng.EvSink
				}
				return eng.EvNone
			}})
			c.Examined += r.States
			c.Decide(len(r.Hits) == 0, rOnce, "sendTraces/enqueue", x.Pos(e), "one enqueue per span per iteration", "a span can be enqueued twice in one iteration of the send loop")
		}
		c.Decide(len(enq) == 1, rOnce, "sendTraces/enqueue-sites", x.PosOf(st.Pos()), "single enqueue site", sprintf("%d enqueue sites in sendTraces", len(enq)))
	}
	c.Min(rOnce, 2)

	// ---- clause 3: dropped never forwarded ---------------------------------------
	const rDrop = "C02.dropped-not-forwarded"
	dryOff := func(v ssa.Value) eng.Tri {
		if isCallValue(v, nIsDryRun) {
			return eng.False
		}
		return eng.Unknown
	}
	if sendFn != nil {
		as := &eng.Assume{Bool: func(v ssa.Value) eng.Tri {
			if loadsField(v, keepF) {
				return eng.False
			}
			if loadsField(v, sentF) {
				return eng.False
			}
			return dryOff(v)
		}}
		r := eng.ReachableSinks(sendFn, as, nil, isChanSend)
		c.Examined += r.States
		if len(r.Hits) > 0 {
			o := c.Violate(rDrop, "send/drop", x.Pos(r.Hits[0].Instr), "with dry run off a trace whose decision is drop (KeepSample false) reaches the transmission queue")
			o.Path = eng.DescribePath(x.P.Pos, r.Hits[0].Path)
		} else {
			c.Hold(rDrop, "send/drop", x.PosOf(sendFn.Pos()), "KeepSample=false ∧ dry run off ⇒ never queued")
		}
		// kept ⇒ queued on every path
		asK := &eng.Assume{Bool: func(v ssa.Value) eng.Tri {
			if loadsField(v, keepF) {
				return eng.True
			}
			if loadsField(v, sentF) {
				return eng.False
			}
			return dryOff(v)
		}}
		r = eng.ReachableSinks(sendFn, asK, nil, isChanSend)
		bad := false
		for _, e := range r.Exits {
			if _, ok := e.Instr.(*ssa.Return); ok && e.Sinks != 1 {
				bad = true
				o := c.Violate("C02.kept-forwarded", "send/keep", x.Pos(e.Instr), sprintf("a kept, not yet sent trace leaves send() queued %d times", e.Sinks))
				o.Path = eng.DescribePath(x.P.Pos, e.Path)
				break
			}
		}
		if !bad {
			c.Hold("C02.kept-forwarded", "send/keep", x.PosOf(sendFn.Pos()), "KeepSample=true ⇒ queued exactly once on every path")
		}
	}
	if dw := x.Fn(rDrop, "collect", "InMemCollector", "dealWithSentTrace"); dw != nil {
		mk := func(kept eng.Tri) *eng.Assume {
			return &eng.Assume{Bool: func(v ssa.Value) eng.Tri {
				if isCallValue(v, "(collect/cache.TraceSentRecord).Kept") {
					return kept
				}
				return dryOff(v)
			}}
		}
		r := eng.ReachableSinks(dw, mk(eng.False), nil, isUpstreamEnqueue)
		c.Examined += r.States
		if len(r.Hits) > 0 {
			o := c.Violate(rDrop, "dealWithSentTrace/drop", x.Pos(r.Hits[0].Instr), "with dry run off a late span of a dropped trace is forwarded")
			o.Path = eng.DescribePath(x.P.Pos, r.Hits[0].Path)
		} else {
			c.Hold(rDrop, "dealWithSentTrace/drop", x.PosOf(dw.Pos()), "record says dropped ∧ dry run off ⇒ no enqueue")
		}
		r = eng.ReachableSinks(dw, mk(eng.True), nil, isUpstreamEnqueue)
		bad := false
		for _, e := range r.Exits {
			if _, ok := e.Instr.(*ssa.Return); ok && e.Sinks != 1 {
				bad = true
				o := c.Violate("C02.kept-forwarded", "dealWithSentTrace/keep", x.Pos(e.Instr), sprintf("a late span of a kept trace is enqueued %d times on some path", e.Sinks))
				o.Path = eng.DescribePath(x.P.Pos, e.Path)
				break
			}
		}
		if !bad {
			c.Hold("C02.kept-forwarded", "dealWithSentTrace/keep", x.PosOf(dw.Pos()), "record says kept ⇒ exactly one enqueue on every path")
		}
	}
	c.Min(rDrop, 2)
	c.Min("C02.kept-forwarded", 2)

	// ---- clause 4: no trace leaves the buffer undecided ----------------------------
	const rRem = "C02.removal-implies-decided"
	// who removes from the buffer map
	cacheMap := eng.FieldIs("collect/cache", "DefaultInMemCache", "cache")
	removers := map[string]bool{}
	for _, a := range eng.FieldAccesses(x.PkgFuncs("collect/cache"), cacheMap) {
		if u, ok := a.Instr.(*ssa.UnOp); ok && a.Write {
			// distinguish delete from update
			if refs := u.Referrers(); refs != nil {
				for _, r := range *refs {
					if cl, ok := r.(*ssa.Call); ok {
						if b, ok := cl.Call.Value.(*ssa.Builtin); ok && (b.Name() == "delete" || b.Name() == "clear") {
							removers[eng.Root(a.Fn).Name()] = true
						}
					}
				}
			}
		}
	}
	for fn := range removers {
		c.Decide(fn == "TakeExpiredTraces" || fn == "RemoveTraces", "C02.buffer-removers", fn+"/delete", "collect/cache/cache.go",
			"removal entry point", "buffer entries are deleted in "+fn+", which no decision path pairs with makeDecision+send")
	}
	c.Min("C02.buffer-removers", 2)
	for _, s := range eng.CallSites(x.RepoFuncs(), func(n string, _ ssa.CallInstruction) bool { return n == nTakeExpired || n == nRemoveTraces }) {
		fn := eng.Root(s.Fn).Name()
		n := eng.CalleeName(s.Instr.(ssa.CallInstruction))
		ok := n == nTakeExpired && fn == "sendExpiredTracesInCache" || n == nRemoveTraces && fn == "sendTracesEarly"
		c.Decide(ok, "C02.buffer-removers", fn+"/"+eng.MethodBase(n), x.Pos(s.Instr), "paired with decide+send below", "buffer removal called from "+fn+" where no decision is made for the removed traces")
	}

	// a queue entry popped in TakeExpiredTraces whose trace is still buffered is accounted for in the same iteration:
	// pushed back, remembered in a slice (re-queued after the loop), or deleted from the buffer and returned.
	// Otherwise the trace stays buffered with no queue entry: it never expires and is never decided.
	const rPop = "C02.pop-accounted"
	if te := x.Fn(rPop, "collect/cache", "DefaultInMemCache", "TakeExpiredTraces"); te != nil {
		isPQ := func(in ssa.Instruction, m string) (ssa.CallInstruction, bool) {
			cl, ok := in.(ssa.CallInstruction)
			if !ok {
				return nil, false
			}
			n := eng.CalleeName(cl)
			return cl, strings.Contains(n, "KeyedPriorityQueue") && strings.HasSuffix(n, ")."+m)
		}
		var pops []ssa.CallInstruction
		eng.Instrs(te, func(in ssa.Instruction) {
			if cl, ok := isPQ(in, "Pop"); ok {
				pops = append(pops, cl)
			}
		})
		for _, pop := range pops {
			c.Examined++
			popOK := extractOf(pop, 2)
			as := &eng.Assume{Bool: func(v ssa.Value) eng.Tri {
				for _, e := range popOK {
					if v == e {
						return eng.True
					}
				}
				// the comma-ok of the buffer lookup: the trace is still buffered
				if e, ok := v.(*ssa.Extract); ok && e.Index == 1 {
					if lk, ok := e.Tuple.(*ssa.Lookup); ok && lk.CommaOk && loadsField(lk.X, cacheMap) {
						return eng.True
					}
				}
				return eng.Unknown
			}}
			h := loopHeader(pop)
			r := eng.Explore(eng.Query{Fn: te, Assume: as, Start: pop, Classify: func(in ssa.Instruction, _ eng.Facts) eng.Event {
				if _, ok := isPQ(in, "Push"); ok {
					return eng.EvKill
				}
				if cl, ok := in.(*ssa.Call); ok {
					if b, ok := cl.Call.Value.(*ssa.Builtin); ok && (b.Name() == "append" || b.Name() == "delete") {
						return eng.EvKill
					}
				}
				if h != nil && in == h.Instrs[0] {
					return eng.EvSink
				}
				return eng.EvNone
			}})
			bad := len(r.Hits) > 0
			var path string
			if bad {
				path = eng.DescribePath(x.P.Pos, r.Hits[0].Path)
			}
			for _, e := range r.Exits {
				if _, ok := e.Instr.(*ssa.Return); ok {
					bad = true
					path = eng.DescribePath(x.P.Pos, e.Path)
				}
			}
			if bad {
				o := c.Violate(rPop, "TakeExpiredTraces/Pop", x.Pos(pop), "a queue entry is popped for a trace that is still buffered and some path to the next iteration / the return neither pushes it back, remembers it for re-queueing, nor removes the trace from the buffer: the trace stays buffered with no queue entry, so it never expires and its spans are never forwarded or dropped")
				o.Path = path
			} else {
				c.Hold(rPop, "TakeExpiredTraces/Pop", x.Pos(pop), "popped entry is pushed back, remembered or removed on every path")
			}
		}
		c.Min(rPop, 1)
	}

	// a trace object created for a first span is put into the buffer on every path (an accepted span whose trace is
	// never buffered is neither forwarded nor dropped)
	const rNew = "C02.new-trace-buffered"
	if ps := x.P.Func("collect", "CollectorWorker", "processSpan"); ps != nil && ps.Blocks != nil {
		eng.Instrs(ps, func(in ssa.Instruction) {
			al, ok := in.(*ssa.Alloc)
			if !ok || !al.Heap || typeString(al.Type()) != "*types.Trace" {
				return
			}
			c.Examined++
			r := eng.Explore(eng.Query{Fn: ps, Start: in, Classify: func(i2 ssa.Instruction, _ eng.Facts) eng.Event {
				if cl, ok := eng.IsCall(i2, nCacheSet); ok {
					if _, d := eng.Derives(eng.CallArgs(cl)[0], func(v ssa.Value) bool { return v == ssa.Value(al) }, eng.FlowOpts{}); d {
						return eng.EvKill
					}
				}
				return eng.EvNone
			}})
			lost := false
			var path []*ssa.BasicBlock
			for _, e := range r.Exits {
				if _, isRet := e.Instr.(*ssa.Return); isRet {
					lost, path = true, e.Path
				}
			}
			if lost {
				o := c.Violate(rNew, "processSpan/new-trace", x.Pos(in), "a trace created for a span can leave processSpan without having been put into the buffer (the Set is deferred to a branch that is not always taken): the span was accepted but its trace is never decided, so it is neither forwarded nor counted as dropped")
				o.Path = eng.DescribePath(x.P.Pos, path)
			} else {
				c.Hold(rNew, "processSpan/new-trace", x.Pos(in), "created ⇒ cache.Set on every path")
			}
		})
	}
	c.Min(rNew, 1)

	errNil := func(md ssa.CallInstruction, want eng.Tri) *eng.Assume {
		errs := extractOf(md, 1)
		return &eng.Assume{Nil: func(v ssa.Value) eng.Tri {
			for _, e := range errs {
				if v == e {
					return want
				}
			}
			return eng.Unknown
		}}
	}
	isSendOf := func(md ssa.CallInstruction) func(ssa.Instruction) bool {
		return func(in ssa.Instruction) bool {
			cl, ok := eng.IsCall(in, nSend)
			if !ok {
				return false
			}
			args := eng.CallArgs(cl)
			return len(args) == 2 && isExtractOf(args[1], 0, nMakeDecision) && args[1].(*ssa.Extract).Tuple == md.(ssa.Value)
		}
	}
	if se := x.Fn(rRem, "collect", "CollectorWorker", "sendExpiredTracesInCache"); se != nil {
		takes := callsIn(se, nTakeExpired)
		if len(takes) != 1 {
			c.Undecided(rRem, "sendExpiredTracesInCache/take", x.PosOf(se.Pos()), sprintf("expected one TakeExpiredTraces call, found %d", len(takes)))
		} else {
			take := takes[0].(ssa.Value)
			mds := callsIn(se, nMakeDecision)
			var hdr *ssa.BasicBlock
			wholeDone := false
			for _, md := range mds {
				c.Examined++
				arg := eng.CallArgs(md)[1]
				if !rangeElemOf(arg, func(v ssa.Value) bool { return v == take }) {
					c.Violate(rRem, "sendExpiredTracesInCache/decide-arg", x.Pos(md), "makeDecision is not called on the element of the taken slice")
					continue
				}
				if wholeDone {
				} else if wholeDone = true; truncatedOf(arg, take) {
					c.Violate(rRem, "sendExpiredTracesInCache/whole-slice", x.Pos(md), "the traces taken out of the buffer are truncated (re-sliced with an upper bound) before the decision loop: the traces cut off have already left the buffer and are never decided")
				} else {
					c.Hold(rRem, "sendExpiredTracesInCache/whole-slice", x.Pos(md), "the loop ranges over everything TakeExpiredTraces returned")
				}
				h := loopHeader(md)
				hdr = h
				// decision succeeded ⇒ send(tr) before the next iteration / return
				r := eng.Explore(eng.Query{Fn: se, Assume: errNil(md, eng.True), Start: md, Classify: func(in ssa.Instruction, _ eng.Facts) eng.Event {
					if isSendOf(md)(in) {
						return eng.EvKill
					}
					if h != nil && in == h.Instrs[0] {
						return eng.EvSink
					}
					return eng.EvNone
				}})
				bad := len(r.Hits) > 0
				for _, e := range r.Exits {
					if _, ok := e.Instr.(*ssa.Return); ok {
						bad = true
					}
				}
				c.Decide(!bad, rRem, "sendExpiredTracesInCache/decided-then-sent", x.Pos(md), "nil error ⇒ send(tr) in the same iteration",
					"a trace taken out of the buffer and decided successfully is not handed to send on some path: its spans are neither forwarded nor counted as dropped")
			}
			// every taken trace reaches a makeDecision in its iteration
			if hdr != nil {
				body := loopBody(hdr)
				if body == nil {
					c.Undecided(rRem, "sendExpiredTracesInCache/loop", x.PosOf(se.Pos()), "cannot identify the loop body")
				} else {
					r := eng.Explore(eng.Query{Fn: se, Start: body.Instrs[0], Classify: func(in ssa.Instruction, _ eng.Facts) eng.Event {
						if _, ok := eng.IsCall(in, nMakeDecision); ok {
							return eng.EvKill
						}
						if in == hdr.Instrs[0] {
							return eng.EvSink
						}
						return eng.EvNone
					}})
					c.Examined += r.States
					c.Decide(len(r.Hits) == 0, rRem, "sendExpiredTracesInCache/every-taken-decided", x.Pos(body.Instrs[0]), "every iteration over the taken traces reaches makeDecision",
						"an iteration over the traces taken out of the buffer can finish without makeDecision: the trace vanishes undecided")
				}
			}
			// the loop over the taken traces runs to the end: no break / return inside it (the traces have already
			// left the buffer; the ones not reached are never decided)
			if hdr != nil {
				leaves := false
				for _, b := range se.Blocks {
					if b == hdr || !inNaturalLoop(b, hdr) {
						continue
					}
					for _, sc := range b.Succs {
						if !inNaturalLoop(sc, hdr) {
							leaves = true
						}
					}
					if len(b.Succs) == 0 {
						if _, isPanic := b.Instrs[len(b.Instrs)-1].(*ssa.Panic); !isPanic {
							leaves = true
						}
					}
				}
				c.Decide(!leaves, rRem, "sendExpiredTracesInCache/loop-complete", x.Pos(hdr.Instrs[0]), "the loop over the taken traces is only left when they are exhausted",
					"the loop over the traces taken out of the buffer can be left early (break / return, e.g. a time budget): the remaining traces have already been removed from the buffer and are never decided, forwarded or counted")
			}
			c.Decide(len(mds) >= 1, rRem, "sendExpiredTracesInCache/decide-sites", x.PosOf(se.Pos()), sprintf("%d makeDecision sites", len(mds)), "no makeDecision call on taken traces")
		}
	}
	if ste := x.Fn(rRem, "collect", "CollectorWorker", "sendTracesEarly"); ste != nil {
		rms := callsIn(ste, nRemoveTraces)
		mds := callsIn(ste, nMakeDecision)
		if len(rms) != 1 || len(mds) != 1 {
			c.Undecided(rRem, "sendTracesEarly/shape", x.PosOf(ste.Pos()), sprintf("expected one RemoveTraces and one makeDecision, found %d/%d", len(rms), len(mds)))
		} else {
			setArg := eng.CallArgs(rms[0])[0]
			md := mds[0]
			h := loopHeader(md)
			isAdd := func(in ssa.Instruction) bool {
				cl, ok := in.(ssa.CallInstruction)
				if !ok || !strings.HasSuffix(eng.CalleeName(cl), ".Add") || !strings.Contains(eng.CalleeName(cl), "generics.Set") {
					return false
				}
				recv := eng.Receiver(cl)
				return recv != nil && (recv == setArg || eng.SameObject(recv, setArg))
			}
			adds := 0
			eng.Instrs(ste, func(in ssa.Instruction) {
				if isAdd(in) {
					adds++
				}
			})
			if adds == 0 {
				c.Undecided(rRem, "sendTracesEarly/set", x.Pos(rms[0]), "cannot find where trace IDs are added to the removal set")
			}
			// every Add lies after a successful makeDecision of the same iteration
			r := eng.Explore(eng.Query{Fn: ste, Assume: errNil(md, eng.False), Start: md, Classify: func(in ssa.Instruction, _ eng.Facts) eng.Event {
				if h != nil && in == h.Instrs[0] {
					return eng.EvKill
				}
				if isAdd(in) {
					return eng.EvSink
				}
				return eng.EvNone
			}})
			c.Examined += r.States
			c.Decide(len(r.Hits) == 0, rRem, "sendTracesEarly/remove-only-decided", x.Pos(md), "an ID joins the removal set only after makeDecision returned nil",
				"a trace whose decision failed is still added to the removal set: it is deleted from the buffer without a decision")
			// no Add before makeDecision in the iteration
			if h != nil {
				if body := loopBody(h); body != nil {
					r := eng.Explore(eng.Query{Fn: ste, Start: body.Instrs[0], Classify: func(in ssa.Instruction, _ eng.Facts) eng.Event {
						if in == ssa.Instruction(md.(*ssa.Call)) {
							return eng.EvKill
						}
						if in == h.Instrs[0] {
							return eng.EvKill
						}
						if isAdd(in) {
							return eng.EvSink
						}
						return eng.EvNone
					}})
					c.Decide(len(r.Hits) == 0, rRem, "sendTracesEarly/add-after-decide", x.Pos(md), "no ID is added before the decision", "an ID is added to the removal set before makeDecision ran")
				}
			}
			// nil error ⇒ send in the same iteration
			r = eng.Explore(eng.Query{Fn: ste, Assume: errNil(md, eng.True), Start: md, Classify: func(in ssa.Instruction, _ eng.Facts) eng.Event {
				if isSendOf(md)(in) {
					return eng.EvKill
				}
				if h != nil && in == h.Instrs[0] {
					return eng.EvSink
				}
				if _, ok := eng.IsCall(in, nRemoveTraces); ok {
					return eng.EvSink
				}
				return eng.EvNone
			}})
			c.Decide(len(r.Hits) == 0, rRem, "sendTracesEarly/decided-then-sent", x.Pos(md), "nil error ⇒ send(t) before the next iteration or the removal",
				"an ejected trace that was decided is removed from the buffer without being handed to send")
		}
	}
	c.Min(rRem, 6)
}

// loopBody returns the successor of a loop header that stays inside the loop.
func loopBody(h *ssa.BasicBlock) *ssa.BasicBlock {
	for _, s := range h.Succs {
		if s != h && inNaturalLoop(s, h) {
			return s
		}
	}
	return nil
}

// truncatedOf reports whether the slice a range element is taken from derives
// from src through a re-slice with an upper bound (s[:n], s[a:b]).
func truncatedOf(elem ssa.Value, src ssa.Value) bool {
	found := false
	eng.Derives(elem, func(w ssa.Value) bool {
		var base ssa.Value
		switch y := w.(type) {
		case *ssa.IndexAddr:
			base = y.X
		case *ssa.Index:
			base = y.X
		}
		if base != nil {
			eng.Derives(base, func(u ssa.Value) bool {
				if sl, ok := u.(*ssa.Slice); ok && sl.High != nil {
					if _, ok := eng.Derives(sl.X, func(q ssa.Value) bool { return q == src }, eng.FlowOpts{}); ok {
						found = true
					}
				}
				return false
			}, eng.FlowOpts{})
		}
		return false
	}, eng.FlowOpts{})
	return found
}
