package rules

import (
	"strings"
	"go/token"

	"golang.org/x/tools/go/ssa"

	"refcheck/internal/eng"
)

func init() { Register("C34", c34) }

func c34(x *Ctx) {
	c := x.C
	c.Explanation = "C34 (usage reports neither lose nor double-count usage): decides that the pending (reported but unconfirmed) usage map is emptied only by completeSend, that building a new report never overwrites pending usage with the current interval's – pending and current must be merged – and that completeSend runs only after the send was confirmed on the sent-channel, never on the cancellation path; the current map is reset only when a report was built from it."
	c.NotCovered = "the OpAMP client's delivery guarantees and the arithmetic of cumulative-to-delta conversion (values)."
	fld := func(n ...string) func(eng.FieldRef) bool { return eng.FieldIs("agent", "usageTracker", n...) }
	last, cur := fld("lastDataPoints"), fld("currentDataPoints")
	funcs := x.PkgFuncs("agent")
	const r1 = "C34.pending-merged-not-overwritten"
	n := 0
	for _, w := range eng.FieldWrites(funcs, last) {
		st := w.Instr.(*ssa.Store)
		_, base, _ := eng.FieldRefOf(st.Addr)
		if _, fresh := base.(*ssa.Alloc); fresh {
			continue // constructor literal
		}
		n++
		c.Examined++
		fn := BaseName(w.Fn)
		_, isNewMap := st.Val.(*ssa.MakeMap)
		switch {
		case isNewMap && fn == "completeSend":
			c.Hold(r1, fn+"/lastDataPoints", x.Pos(st), "pending usage cleared after a confirmed send")
		case isNewMap:
			c.Violate(r1, fn+"/lastDataPoints", x.Pos(st), "pending usage is discarded in "+fn+" (not after a confirmed send): usage of an unconfirmed report is lost")
		case loadsField(st.Val, cur):
			c.Violate(r1, fn+"/lastDataPoints", x.Pos(st), "pending usage is overwritten with the current interval's usage: if the previous report was never confirmed (two consecutive failed sends) the first interval's usage is gone")
		default:
			c.Undecided(r1, fn+"/lastDataPoints", x.Pos(st), "unrecognised value stored into the pending usage map")
		}
	}
	// merge form: m[k] += v in a range over current
	if nr := x.Fn(r1, "agent", "usageTracker", "NewReport"); nr != nil {
		merged := false
		eng.Instrs(nr, func(in ssa.Instruction) {
			mu, ok := in.(*ssa.MapUpdate)
			if !ok || !loadsField(mu.Map, last) {
				return
			}
			bo, ok := mu.Value.(*ssa.BinOp)
			if !ok || bo.Op != token.ADD {
				return
			}
			_, prev := eng.Derives(bo, func(v ssa.Value) bool {
				lk, ok := v.(*ssa.Lookup)
				return ok && loadsField(lk.X, last)
			}, eng.FlowOpts{})
			_, fromCur := eng.Derives(bo, func(v ssa.Value) bool {
				if rg, ok := v.(*ssa.Range); ok {
					return loadsField(rg.X, cur)
				}
				return false
			}, eng.FlowOpts{})
			if prev && fromCur && loopHeader(in) != nil {
				merged = true
			}
		})
		overwritten := false
		for _, w := range eng.FieldWrites([]*ssa.Function{nr}, last) {
			if loadsField(w.Instr.(*ssa.Store).Val, cur) {
				overwritten = true
			}
		}
		if !overwritten {
			c.Decide(merged, r1, "NewReport/merge", x.PosOf(nr.Pos()), "current usage is added to the pending usage", "NewReport neither merges the current usage into the pending map nor keeps it: reported usage cannot be resent after a failed send")
		}
		// current reset only after the report was marshalled successfully
		for _, w := range eng.FieldWrites([]*ssa.Function{nr}, cur) {
			st := w.Instr.(*ssa.Store)
			as := &eng.Assume{Nil: func(v ssa.Value) eng.Tri {
				if e, ok := v.(*ssa.Extract); ok && e.Index == 1 {
					if cl, ok := e.Tuple.(*ssa.Call); ok && eng.MethodBase(eng.CalleeName(cl)) == "MarshalMetrics" {
						return eng.False
					}
				}
				return eng.Unknown
			}}
			r := eng.ReachableSinks(nr, as, nil, func(in ssa.Instruction) bool { return in == ssa.Instruction(st) })
			c.Decide(len(r.Hits) == 0, "C34.current-reset-after-build", "NewReport/currentDataPoints", x.Pos(st), "current usage reset only when the report was built", "the current usage is reset although building the report failed: that interval's usage is lost")
		}
	}
	if n == 0 {
		c.Unresolved(r1, "usageTracker.lastDataPoints", "no stores to the pending usage map found")
	}
	c.Min(r1, 2)
	// ---- completeSend only on the confirmed path -----------------------------------------------------
	const r2 = "C34.clear-only-on-sent"
	for _, s := range eng.CallSites(funcs, func(nm string, _ ssa.CallInstruction) bool { return nm == "(*agent.usageTracker).completeSend" }) {
		c.Examined++
		f := s.Fn
		// every select that can lead here: under "the cancellation case fired" the call is unreachable
		bad := false
		sawSelect := false
		eng.Instrs(f, func(in ssa.Instruction) {
			sel, ok := in.(*ssa.Select)
			if !ok || !eng.MayPrecede(in, s.Instr) {
				return
			}
			doneIdx := -1
			for i, st := range sel.States {
				if _, d := eng.Derives(st.Chan, func(v ssa.Value) bool { return isCallValue(v, "(context.Context).Done") }, eng.FlowOpts{}); d {
					doneIdx = i
				}
			}
			if doneIdx < 0 {
				return
			}
			sawSelect = true
			as := &eng.Assume{Bool: func(v ssa.Value) eng.Tri {
				b, ok := v.(*ssa.BinOp)
				if !ok || b.Op != token.EQL {
					return eng.Unknown
				}
				e, ok := b.X.(*ssa.Extract)
				if !ok || e.Tuple != ssa.Value(sel) || e.Index != 0 {
					return eng.Unknown
				}
				k, ok := eng.ConstInt(b.Y)
				if !ok {
					return eng.Unknown
				}
				if int(k) == doneIdx {
					return eng.True
				}
				return eng.False
			}}
			r := eng.ReachableSinks(f, as, in, func(i2 ssa.Instruction) bool { return i2 == s.Instr })
			if len(r.Hits) > 0 {
				bad = true
			}
		})
		// the call must be dominated by a receive from the sent channel
		c.Decide(sawSelect && !bad, r2, BaseName(f)+"/completeSend", x.Pos(s.Instr), "pending usage cleared only after the sent-channel fired", "completeSend is reachable when the context was cancelled (or without waiting for the send confirmation): usage is dropped although the report may not have been delivered")
	}
	c.Min(r2, 1)

	// ---- pending usage is cleared only after a send that succeeded ---------------------------------------------------
	// (from a SendCustomMessage call that returned an error, completeSend is only reachable through another send)
	const r3 = "C34.complete-only-after-success"
	const nSendMsg = "SendCustomMessage"
	for _, s := range eng.CallSites(funcs, func(nm string, _ ssa.CallInstruction) bool { return nm == "(*agent.usageTracker).completeSend" }) {
		f := s.Fn
		var sends []ssa.Instruction
		eng.Instrs(f, func(in ssa.Instruction) {
			if cl, ok := in.(ssa.CallInstruction); ok && strings.HasSuffix(eng.CalleeName(cl), ")."+nSendMsg) {
				sends = append(sends, in)
			}
		})
		for i, snd := range sends {
			c.Examined++
			errs := extractOf(snd.(ssa.CallInstruction), 1)
			as := &eng.Assume{Nil: func(v ssa.Value) eng.Tri {
				for _, e := range errs {
					if v == e {
						return eng.False // this send failed
					}
				}
				return eng.Unknown
			}}
			r := eng.Explore(eng.Query{Fn: f, Assume: as, Start: snd, TrackPhi: func(*ssa.Phi) bool { return true }, Classify: func(in ssa.Instruction, _ eng.Facts) eng.Event {
				for _, other := range sends {
					if in == other {
						return eng.EvKill // another attempt: judged on its own
					}
				}
				if in == s.Instr {
					return eng.EvSink
				}
				return eng.EvNone
			}})
			key := sprintf("%s/send#%d", BaseName(f), i+1)
			if len(r.Hits) > 0 {
				o := c.Violate(r3, key, x.Pos(snd), "after this SendCustomMessage call returned an error (e.g. another message still pending) completeSend can be reached without another send: the usage is cleared although the report was never handed to the client")
				o.Path = eng.DescribePath(x.P.Pos, r.Hits[0].Path)
			} else {
				c.Hold(r3, key, x.Pos(snd), "a failed send never leads to completeSend except through a new attempt")
			}
		}
	}
	c.Min(r3, 1)

	// ---- each usage value lands in a data point of its own metric ----------------------------------------------------------
	const r4 = "C34.point-belongs-to-metric"
	if ao := x.P.Func("agent", "otlpMetrics", "addOTLPSum"); ao != nil && ao.Blocks != nil {
		n := 0
		eng.Instrs(ao, func(in ssa.Instruction) {
			cl, ok := in.(ssa.CallInstruction)
			if !ok || !strings.HasSuffix(eng.CalleeName(cl), "NumberDataPoint).SetIntValue") {
				return
			}
			n++
			c.Examined++
			fresh := func(v ssa.Value) bool {
				ap, ok := v.(*ssa.Call)
				if !ok || !strings.HasSuffix(eng.CalleeName(ap), ").AppendEmpty") {
					return false
				}
				// …of the data points of the sum for this mapping's metric name
				_, d := eng.Derives(eng.Receiver(ap), func(w ssa.Value) bool {
					gc, ok := w.(*ssa.Call)
					return ok && strings.HasSuffix(eng.CalleeName(gc), ").getOrCreateSum")
				}, eng.FlowOpts{ThroughCalls: true})
				return d
			}
			c.Decide(x.mustDerive(eng.Receiver(cl), fresh), r4, "addOTLPSum/SetIntValue", x.Pos(in), "the value is written to a new point of the sum for the mapping's metric",
				"a usage value can be written into a data point that was not appended to the sum of its own metric in this call (a point remembered under another key): two metrics that share an attribute value are merged – one is over-reported, the other never reported")
		})
		if n == 0 {
			c.Undecided(r4, "addOTLPSum", x.PosOf(ao.Pos()), "cannot find where the usage value is written")
		}
	}
}
