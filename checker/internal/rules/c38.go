package rules

import (
	"fmt"
	"go/ast"
	"regexp"
	"strconv"
	"strings"
	"text/template/parse"

	"go/types"

	"golang.org/x/tools/go/ssa"

	"refcheck/internal/eng"
)

func init() { Register("C38", c38) }

type tmplCall struct {
	Group, Helper, Name, Old string
	Line                     int
}

func c38(x *Ctx) {
	c := x.C
	c.Explanation = "C38 (the config converter preserves v1 settings): the conversion is driven by the checked-in template tools/convert/templates/configV2.tmpl, which is generated from configMeta.yaml. Decides that the template is current and complete: for every metadata field the generator emits (group and field without lastversion, field not unpublished) the template contains, under the same group, the call its valuetype produces – same helper, same v2 name, same v1 source (v1group.v1name, v1name or the v2 name) – with no call left over; every helper used is registered; every valuetype in the metadata has an arm in the field generator template."
	c.NotCovered = "what each helper does with a value (nonDefaultOnly, secondsToDuration, …), validity of the output under v2 validation, default/example arguments of the calls, and the rules converter (value-level)."
	const r = "C38.template-current"
	meta := x.loadMeta(r, "config/metadata/configMeta.yaml")
	if meta == nil {
		return
	}
	read := func(rel string) (string, bool) {
		b, err := x.P.ReadFile(rel)
		if err != nil {
			c.Unresolved(r, rel, "cannot read "+rel)
			return "", false
		}
		return string(b), true
	}
	// helper names registered in helpers()
	helperNames := map[string]any{}
	if f, pk := x.P.FileAST("tools/convert/helpers.go"); f != nil && pk != nil {
		ast.Inspect(f, func(n ast.Node) bool {
			fd, ok := n.(*ast.FuncDecl)
			if !ok || fd.Name.Name != "helpers" {
				return true
			}
			ast.Inspect(fd, func(m ast.Node) bool {
				if kv, ok := m.(*ast.KeyValueExpr); ok {
					if bl, ok := kv.Key.(*ast.BasicLit); ok {
						if s, err := strconv.Unquote(bl.Value); err == nil {
							helperNames[s] = func() {}
						}
					}
				}
				return true
			})
			return false
		})
	}
	if len(helperNames) < 10 {
		c.Unresolved(r, "tools/convert/helpers.go:helpers", "cannot read the registered template helpers")
		return
	}
	builtins := map[string]any{}
	for _, b := range []string{"and", "call", "html", "index", "slice", "js", "len", "not", "or", "print", "printf", "println", "urlquery", "eq", "ge", "gt", "le", "lt", "ne"} {
		builtins[b] = func() {}
	}
	// ---- arms of genfield.tmpl ----------------------------------------------------------------
	armHelper := map[string]string{}
	if gf, ok := read("tools/convert/templates/genfield.tmpl"); ok {
		// the arm for valuetype V calls helper H: {{- else if eq $field.ValueType "V" }} … printf "H .Data …
		re := regexp.MustCompile(`eq \$field\.ValueType "(\w+)"\s*\}\}`)
		locs := re.FindAllStringSubmatchIndex(gf, -1)
		for i, loc := range locs {
			end := len(gf)
			if i+1 < len(locs) {
				end = locs[i+1][0]
			}
			m := []string{"", gf[loc[2]:loc[3]], gf[loc[1]:end]}
			if j := strings.Index(m[2], "{{- else"); j >= 0 {
				m[2] = m[2][:j]
			}
			body := m[2]
			h := ""
			if mm := regexp.MustCompile(`printf "(\w+) \.Data`).FindStringSubmatch(body); mm != nil {
				h = mm[1]
			}
			armHelper[m[1]] = h
		}
		if _, err := parse.Parse("genfield.tmpl", gf, "", "", helperNames, builtins); err != nil {
			c.Violate("C38.generator-parses", "genfield.tmpl", "tools/convert/templates/genfield.tmpl", "the field generator template does not parse with the registered helpers: "+err.Error())
		}
	}
	if len(armHelper) < 8 {
		c.Undecided(r, "genfield.tmpl/arms", "tools/convert/templates/genfield.tmpl", "cannot read the valuetype arms of the generator template")
		return
	}
	if gg, ok := read("tools/convert/templates/gengroup.tmpl"); ok {
		okFilters := strings.Contains(gg, ".LastVersion") && strings.Contains(gg, ".Unpublished")
		c.Decide(okFilters, "C38.generator-filters", "gengroup.tmpl", "tools/convert/templates/gengroup.tmpl", "generator skips removed groups/fields and unpublished fields", "the group generator no longer filters on LastVersion/Unpublished: the expected set of template calls cannot be derived")
	}
	// ---- expected calls from the metadata --------------------------------------------------------
	type key struct{ g, h, n, o string }
	expected := map[key]string{}
	usedVT := map[string]bool{}
	for _, g := range meta.Groups {
		if g.LastVersion != "" {
			continue
		}
		for _, f := range g.Fields {
			if f.LastVersion != "" || f.Unpublished {
				continue
			}
			usedVT[f.ValueType] = true
			h, ok := armHelper[f.ValueType]
			if !ok {
				c.Violate("C38.valuetype-arms", "valuetype:"+f.ValueType, "config/metadata/configMeta.yaml", "metadata field "+g.Name+"."+f.Name+" has valuetype '"+f.ValueType+"' for which genfield.tmpl has no arm: the generated template contains an ERROR marker instead of a conversion")
				continue
			}
			if h == "" {
				continue // showexample / assigndefault: literal text, no v1 value is carried over
			}
			old := f.Name
			if f.V1Name != "" {
				old = f.V1Name
				if f.V1Group != "" {
					old = f.V1Group + "." + f.V1Name
				}
			}
			if f.ValueType == "conditional" {
				old = "*"
			}
			expected[key{g.Name, h, f.Name, old}] = g.Name + "." + f.Name
		}
	}
	for vt := range usedVT {
		_, ok := armHelper[vt]
		c.Decide(ok, "C38.valuetype-arms", "valuetype:"+vt, "tools/convert/templates/genfield.tmpl", "valuetype has a generator arm", "valuetype '"+vt+"' has no arm in genfield.tmpl")
	}
	// ---- calls present in the template ---------------------------------------------------------------
	tv, ok := read("tools/convert/templates/configV2.tmpl")
	if !ok {
		return
	}
	trees, err := parse.Parse("configV2.tmpl", tv, "", "", helperNames, builtins)
	if err != nil {
		c.Violate("C38.helpers-registered", "configV2.tmpl", "tools/convert/templates/configV2.tmpl", "the conversion template does not parse with the registered helpers (a helper it uses is not registered, or the syntax is broken): "+err.Error())
		return
	}
	c.Hold("C38.helpers-registered", "configV2.tmpl", "tools/convert/templates/configV2.tmpl", "every function used by the template is registered in helpers()")
	tree := trees["configV2.tmpl"]
	var got []tmplCall
	group := ""
	groupRe := regexp.MustCompile(`(?m)^(\w+):\s*$`)
	lineOf := func(pos parse.Pos) int { return 1 + strings.Count(tv[:int(pos)], "\n") }
	var walk func(n parse.Node)
	walk = func(n parse.Node) {
		switch y := n.(type) {
		case *parse.ListNode:
			if y == nil {
				return
			}
			for _, ch := range y.Nodes {
				walk(ch)
			}
		case *parse.TextNode:
			for _, m := range groupRe.FindAllStringSubmatch(string(y.Text), -1) {
				group = m[1]
			}
		case *parse.ActionNode:
			for _, cmd := range y.Pipe.Cmds {
				if len(cmd.Args) < 3 {
					continue
				}
				id, ok := cmd.Args[0].(*parse.IdentifierNode)
				if !ok {
					continue
				}
				fld, ok := cmd.Args[1].(*parse.FieldNode)
				if !ok || strings.Join(fld.Ident, ".") != "Data" {
					continue
				}
				strs := []string{}
				for _, a := range cmd.Args[2:] {
					if s, ok := a.(*parse.StringNode); ok {
						strs = append(strs, s.Text)
					}
				}
				call := tmplCall{Group: group, Helper: id.Ident, Line: lineOf(y.Pos)}
				if len(strs) > 0 {
					call.Name = strs[0]
				}
				if len(strs) > 1 {
					call.Old = strs[1]
				}
				if id.Ident == "conditional" {
					call.Old = "*"
				}
				got = append(got, call)
			}
		case *parse.IfNode:
			walk(y.List)
			walk(y.ElseList)
		case *parse.RangeNode:
			walk(y.List)
			walk(y.ElseList)
		case *parse.WithNode:
			walk(y.List)
			walk(y.ElseList)
		}
	}
	walk(tree.Root)
	seen := map[key]bool{}
	for _, g := range got {
		c.Examined++
		k := key{g.Group, g.Helper, g.Name, g.Old}
		pos := fmt.Sprintf("tools/convert/templates/configV2.tmpl:%d", g.Line)
		if _, ok := expected[k]; ok {
			seen[k] = true
			c.Hold(r, g.Group+"."+g.Name, pos, fmt.Sprintf("%s(%q ← %q) as generated from the metadata", g.Helper, g.Name, g.Old))
		} else {
			c.Violate(r, g.Group+"."+g.Name, pos, fmt.Sprintf("the template converts %s.%s with %s from v1 key %q, which is not what configMeta.yaml generates (stale or hand-edited template): the v1 value is mis-sourced or the setting no longer exists", g.Group, g.Name, g.Helper, g.Old))
		}
	}
	for k, name := range expected {
		if !seen[k] {
			c.Violate(r, name, "tools/convert/templates/configV2.tmpl", fmt.Sprintf("configMeta.yaml generates %s .Data %q %q under %s, but the checked-in template has no such call: the v1 setting is silently dropped by the converter", k.h, k.n, k.o, k.g))
		}
	}
	c.Info["expected_calls"] = len(expected)
	c.Info["template_calls"] = len(got)
	c.Min(r, 80)

	// ---- the helpers the template calls: three structural necessary conditions -----------------------------------------
	const rel = "tools/convert"
	// (a) nonDefaultOnly: a key that is present with a value that differs from the default is copied – whatever the value is
	const rA = "C38.nondefault-copied"
	if f := x.P.Func(rel, "", "nonDefaultOnly"); f != nil && f.Blocks != nil {
		c.Examined++
		as := &eng.Assume{Bool: func(v ssa.Value) eng.Tri {
			if isExtractOf(v, 1, rel+"._fetch") {
				return eng.True
			}
			if isCallValue(v, rel+"._equivalent") {
				return eng.False
			}
			return eng.Unknown
		}}
		r := eng.Explore(eng.Query{Fn: f, Assume: as, TrackPhi: func(*ssa.Phi) bool { return true }})
		bad, n := false, 0
		for _, e := range r.Exits {
			ret, ok := e.Instr.(*ssa.Return)
			if !ok || len(ret.Results) != 1 {
				continue
			}
			n++
			// the answer is built from the fetched value, not from the default
			_, fromVal := eng.Derives(e.Facts.Resolve(ret.Results[0]), func(v ssa.Value) bool { return isExtractOf(v, 0, rel+"._fetch") }, eng.FlowOpts{ThroughCalls: true})
			if !fromVal {
				bad = true
			}
		}
		c.Decide(!bad && n > 0, rA, "nonDefaultOnly", x.PosOf(f.Pos()), "present and different from the default ⇒ the v1 value is written",
			"a v1 setting that is present and differs from the v2 default is not always copied (some further condition on the value, e.g. 'not a zero value', sends it to the commented-out default): a v1 file that sets a boolean to false or a number to 0 where v2 defaults to true / non-zero silently changes meaning")
	} else {
		c.Unresolved(rA, rel+".nonDefaultOnly", "helper not found")
	}
	// (b) _fetch: a missing alternative group name moves on to the next name
	const rB = "C38.fetch-tries-all-groups"
	if f := x.P.Func(rel, "", "_fetch"); f != nil && f.Blocks != nil {
		n := 0
		eng.Instrs(f, func(in ssa.Instruction) {
			lk, ok := in.(*ssa.Lookup)
			if !ok || loopHeader(in) == nil {
				return
			}
			if _, isMap := lk.X.Type().Underlying().(*types.Map); !isMap {
				return
			}
			h := loopHeader(in)
			n++
			c.Examined++
			var oks []ssa.Value
			if lk.CommaOk {
				oks = extractOf2(lk, 1)
			}
			as := &eng.Assume{Bool: func(v ssa.Value) eng.Tri {
				for _, o := range oks {
					if v == o {
						return eng.False // this group name is not in the data
					}
				}
				// a combined form: data[g].(map[string]any) – the assertion fails too
				if e, ok := v.(*ssa.Extract); ok && e.Index == 1 {
					if ta, ok := e.Tuple.(*ssa.TypeAssert); ok {
						if _, d := eng.Derives(ta.X, func(w ssa.Value) bool { return w == ssa.Value(lk) }, eng.FlowOpts{}); d {
							return eng.False
						}
					}
				}
				return eng.Unknown
			}}
			r := eng.Explore(eng.Query{Fn: f, Assume: as, Start: in, Classify: func(i2 ssa.Instruction, _ eng.Facts) eng.Event {
				if i2 == h.Instrs[0] {
					return eng.EvKill
				}
				return eng.EvNone
			}})
			left := false
			for _, e := range r.Exits {
				if _, isRet := e.Instr.(*ssa.Return); isRet {
					left = true
				}
			}
			c.Decide(!left, rB, "_fetch/groups", x.Pos(in), "a missing group name ⇒ the next alternative is tried",
				"when one of the alternative v1 group names (A/B.Key) is missing the loop is left instead of trying the next name: settings under the second name (e.g. [SampleCache], the name v1 really used) are dropped")
		})
		if n == 0 {
			// also the single-value lookup form `data[g].(map…)`
			c.Hold(rB, "_fetch/no-loop-lookup", x.PosOf(f.Pos()), "no comma-ok group look-up inside the loop")
		}
	} else {
		c.Unresolved(rB, rel+"._fetch", "helper not found")
	}
	// (c) the rules converter keeps the user's destination names as they are
	const rC = "C38.destination-names-kept"
	if f := x.P.Func(rel, "", "convertRulesToNewConfig"); f != nil && f.Blocks != nil && len(f.Params) >= 1 {
		rules := f.Params[0]
		n := 0
		eng.Instrs(f, func(in ssa.Instruction) {
			mu, ok := in.(*ssa.MapUpdate)
			if !ok {
				return
			}
			if _, isConst := eng.ConstString(mu.Key); isConst {
				return // "__default__"
			}
			if fr, _, ok := eng.LoadedField(mu.Map); !ok || fr.Name != "Samplers" {
				return
			}
			n++
			c.Examined++
			// the key is the range key over the rules map that was passed in, itself
			okKey := false
			if e, ok := mu.Key.(*ssa.Extract); ok && e.Index == 1 {
				if nx, ok := e.Tuple.(*ssa.Next); ok {
					if rg, ok := nx.Iter.(*ssa.Range); ok && x.mustDeriveOpt(rg.X, func(v ssa.Value) bool { return v == ssa.Value(rules) }, true) {
						okKey = true
					}
				}
			}
			c.Decide(okKey, rC, "convertRulesToNewConfig/Samplers-key", x.Pos(in), "samplers are stored under the v1 file's own section names",
				"the v2 samplers are not stored under the section names of the v1 rules file as they are (the map was transformed first, e.g. keys lower-cased): destinations whose names contain upper-case letters silently fall back to __default__")
		})
		if n == 0 {
			c.Undecided(rC, "convertRulesToNewConfig", x.PosOf(f.Pos()), "cannot find where per-destination samplers are stored")
		}
	} else {
		c.Unresolved(rC, rel+".convertRulesToNewConfig", "function not found")
	}
}
