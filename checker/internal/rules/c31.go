package rules

import (
	"go/token"
	"go/types"
	"strings"

	"golang.org/x/tools/go/ssa"

	"refcheck/internal/eng"
)

func init() { Register("C31", c31) }

func c31(x *Ctx) {
	c := x.C
	c.Explanation = "C31 (the decision cache remembers what it promises): decides that both lookups consult the dropped set/filter before the kept LRU on every path (a drop wins) and answer a dropped trace with the dropped record; that Record stores a kept decision in the LRU with the interned reason and a dropped one in both the recent-drop set and the filter; and that shrinking the kept cache on reload carries over the newest entries, not the oldest."
	c.NotCovered = "LRU / cuckoo filter retention and resize arithmetic (library internals, capacities); the asynchronous insertion queue of the filter."
	const nCheck = "(*collect/cache.CuckooTraceChecker).Check"
	isKeptGet := func(in ssa.Instruction) bool {
		cl, ok := in.(ssa.CallInstruction)
		return ok && strings.HasPrefix(eng.CalleeName(cl), "(*github.com/hashicorp/golang-lru/v2.Cache") && strings.HasSuffix(eng.CalleeName(cl), ".Get")
	}
	isKeptAdd := func(in ssa.Instruction) bool {
		cl, ok := in.(ssa.CallInstruction)
		return ok && strings.HasPrefix(eng.CalleeName(cl), "(*github.com/hashicorp/golang-lru/v2.Cache") && strings.HasSuffix(eng.CalleeName(cl), ".Add")
	}
	const r1 = "C31.dropped-first"
	for _, name := range []string{"CheckSpan", "CheckTrace"} {
		f := x.Fn(r1, "collect/cache", "cuckooSentCache", name)
		if f == nil {
			continue
		}
		r := eng.Explore(eng.Query{Fn: f, Classify: func(in ssa.Instruction, _ eng.Facts) eng.Event {
			if _, ok := eng.IsCall(in, nCheck); ok {
				return eng.EvKill
			}
			if isKeptGet(in) {
				return eng.EvSink
			}
			return eng.EvNone
		}})
		c.Examined += r.States
		c.Decide(len(r.Hits) == 0, r1, name+"/order", x.PosOf(f.Pos()), "dropped filter consulted before the kept LRU", "the kept LRU is consulted before (or without) the dropped filter: a trace recorded in both halves is reported kept by one lookup and dropped by the other")
		// dropped ⇒ dropped record, found
		as := &eng.Assume{Bool: func(v ssa.Value) eng.Tri {
			if isCallValue(v, nCheck) {
				return eng.True
			}
			if cl, ok := v.(*ssa.Call); ok {
				if n := eng.CalleeName(cl); strings.HasPrefix(n, "(*generics.SetWithTTL") && strings.HasSuffix(n, ".Contains") {
					return eng.False
				}
			}
			return eng.Unknown
		}}
		r2 := eng.Explore(eng.Query{Fn: f, Assume: as, TrackPhi: func(*ssa.Phi) bool { return true }})
		ok, n := true, 0
		for _, e := range r2.Exits {
			ret, isRet := e.Instr.(*ssa.Return)
			if !isRet {
				continue
			}
			n++
			rec := e.Facts.Resolve(ret.Results[0])
			_, isDropped := eng.Derives(rec, func(v ssa.Value) bool {
				a, ok := v.(*ssa.Alloc)
				return ok && strings.Contains(a.Type().String(), "cuckooDroppedRecord")
			}, eng.FlowOpts{})
			if !isDropped || e.Facts.Bool(e.Facts.Resolve(ret.Results[2])) != eng.True {
				ok = false
			}
		}
		c.Decide(ok && n > 0, r1, name+"/dropped-answer", x.PosOf(f.Pos()), "filter hit ⇒ (dropped record, found)", "a trace found in the dropped filter is not answered with the dropped record")
	}
	c.Min(r1, 4)
	const r2 = "C31.record-paths"
	if rec := x.Fn(r2, "collect/cache", "cuckooSentCache", "Record"); rec != nil {
		keep := param(rec, "keep")
		mk := func(t eng.Tri) *eng.Assume {
			return &eng.Assume{Bool: func(v ssa.Value) eng.Tri {
				if keep != nil && v == ssa.Value(keep) {
					return t
				}
				return eng.Unknown
			}}
		}
		count := func(as *eng.Assume, is func(ssa.Instruction) bool) (min, max int) {
			r := eng.Explore(eng.Query{Fn: rec, Assume: as, Classify: func(in ssa.Instruction, _ eng.Facts) eng.Event {
				if is(in) {
					return eng.EvSink
				}
				return eng.EvNone
			}})
			min, max = 9, 0
			for _, e := range r.Exits {
				if _, isRet := e.Instr.(*ssa.Return); isRet {
					if e.Sinks < min {
						min = e.Sinks
					}
					if e.Sinks > max {
						max = e.Sinks
					}
				}
			}
			return
		}
		isRecent := func(in ssa.Instruction) bool {
			n := eng.CalleeName2(in)
			return strings.HasPrefix(n, "(*generics.SetWithTTL") && strings.HasSuffix(n, ".Add")
		}
		isFilter := func(in ssa.Instruction) bool {
			_, ok := eng.IsCall(in, "(*collect/cache.CuckooTraceChecker).Add")
			return ok
		}
		mn, _ := count(mk(eng.True), isKeptAdd)
		c.Decide(mn >= 1, r2, "Record/kept", x.PosOf(rec.Pos()), "keep ⇒ stored in the kept LRU", "a kept decision is not stored in the kept LRU on some path: late spans of a kept trace are not recognised")
		mn1, _ := count(mk(eng.False), isRecent)
		mn2, _ := count(mk(eng.False), isFilter)
		c.Decide(mn1 >= 1, r2, "Record/dropped-recent", x.PosOf(rec.Pos()), "drop ⇒ recorded in the recent-drop set", "a dropped decision is not recorded in the synchronous recent-drop set: until the filter's asynchronous insert runs (or for good, when its queue is full) a late span of the dropped trace starts a new decision")
		c.Decide(mn2 >= 1, r2, "Record/dropped-filter", x.PosOf(rec.Pos()), "drop ⇒ recorded in the dropped filter", "a dropped decision is not recorded in the dropped-trace filter: it is forgotten when the recent-drop entry expires")
		_, mxK := count(mk(eng.False), isKeptAdd)
		c.Decide(mxK == 0, r2, "Record/dropped-not-kept", x.PosOf(rec.Pos()), "drop ⇒ not in the kept LRU", "a dropped decision is stored in the kept LRU")
		// interned reason
		interned := false
		eng.Instrs(rec, func(in ssa.Instruction) {
			if cl, ok := eng.IsCall(in, "(collect/cache.KeptTrace).SetKeptReason"); ok {
				if isCallValue(eng.CallArgs(cl)[0], "(*collect/cache.KeptReasonsCache).Set") {
					interned = true
				}
			}
		})
		c.Decide(interned, r2, "Record/interned-reason", x.PosOf(rec.Pos()), "kept reason interned and attached to the trace", "the kept reason is not interned through the reasons cache before the entry is stored: the reason reported for late spans is wrong")
	}
	c.Min(r2, 5)
	const r3 = "C31.resize-keeps-newest"
	if rs := x.Fn(r3, "collect/cache", "cuckooSentCache", "Resize"); rs != nil {
		n := 0
		eng.Instrs(rs, func(in ssa.Instruction) {
			sl, ok := in.(*ssa.Slice)
			if !ok {
				return
			}
			if _, fromKeys := eng.Derives(sl.X, func(v ssa.Value) bool {
				cl, ok := v.(*ssa.Call)
				return ok && strings.HasSuffix(eng.CalleeName(cl), ".Keys")
			}, eng.FlowOpts{}); !fromKeys {
				return
			}
			n++
			tail := sl.High == nil && sl.Low != nil
			if tail {
				bo, ok := sl.Low.(*ssa.BinOp)
				tail = ok && bo.Op == token.SUB
			}
			c.Decide(tail, r3, "Resize/carry-over", x.Pos(in), "when shrinking, the newest keys (tail of Keys(), oldest→newest) are carried over", "when the kept cache shrinks the oldest entries are carried over and the newest decisions are forgotten, although they are within the new capacity")
		})
		if n == 0 {
			c.Undecided(r3, "Resize/carry-over", x.PosOf(rs.Pos()), "cannot find how the kept entries are carried over")
		}
	}
	c.Min(r3, 1)

	// ---- "recorded or consulted": a late-span lookup refreshes the entry's recency ------------------------
	const r4 = "C31.lookup-refreshes-recency"
	isLRU := func(in ssa.Instruction, m string) bool {
		cl, ok := in.(ssa.CallInstruction)
		return ok && strings.HasPrefix(eng.CalleeName(cl), "(*github.com/hashicorp/golang-lru/v2.Cache") && strings.HasSuffix(eng.CalleeName(cl), "."+m)
	}
	for _, name := range []string{"CheckSpan", "CheckTrace"} {
		f := x.Fn(r4, "collect/cache", "cuckooSentCache", name)
		if f == nil {
			continue
		}
		gets, silent := 0, 0
		eng.Instrs(f, func(in ssa.Instruction) {
			if isLRU(in, "Get") {
				gets++
			}
			if isLRU(in, "Peek") || isLRU(in, "Contains") || isLRU(in, "ContainsOrAdd") {
				silent++
			}
		})
		c.Examined++
		c.Decide(gets >= 1 && silent == 0, r4, name, x.PosOf(f.Pos()), "the kept LRU is read with Get, which marks the entry as recently used",
			"the kept decision is looked up without refreshing its recency (Peek/Contains instead of Get): a trace whose late spans keep arriving is evicted as if it had not been consulted, and the next late span starts a new decision")
	}
	c.Min(r4, 2)

	// ---- kept reasons are indices into one table that lives as long as the entries ------------------------------
	const r5 = "C31.reason-table-stable"
	krF := eng.FieldIs("collect/cache", "cuckooSentCache", "keptReasons")
	nW := 0
	for _, w := range eng.FieldWrites(x.PkgFuncs("collect/cache"), krF) {
		nW++
		_, base, _ := eng.FieldRefOf(w.Instr.(*ssa.Store).Addr)
		_, fresh := base.(*ssa.Alloc)
		c.Decide(fresh, r5, BaseName(w.Fn)+"/keptReasons", x.Pos(w.Instr), "set once while the cache is constructed",
			"the kept-reasons table is replaced on a live cache while the kept entries (carried over on resize) still hold indices into the old table: surviving decisions answer with an empty or a wrong reason")
	}
	if nW == 0 {
		c.Undecided(r5, "keptReasons", "collect/cache/cuckooSentCache.go", "no store to the reasons table found")
	}

	// ---- every queued dropped ID reaches both filter generations --------------------------------------------
	const r6 = "C31.drain-inserts-both"
	if dr := x.Fn(r6, "collect/cache", "CuckooTraceChecker", "drain"); dr != nil {
		curF := eng.FieldIs("collect/cache", "CuckooTraceChecker", "current")
		futF := eng.FieldIs("collect/cache", "CuckooTraceChecker", "future")
		// the add queue: the channel-typed field of the checker (identified by type, not by name)
		addch := func(fr eng.FieldRef) bool {
			if fr.Struct == nil || fr.Struct.Obj().Name() != "CuckooTraceChecker" || fr.Var == nil {
				return false
			}
			_, isChan := fr.Var.Type().Underlying().(*types.Chan)
			return isChan && fr.Name != "done"
		}
		insertInto := func(in ssa.Instruction, fld func(eng.FieldRef) bool) bool {
			cl, ok := in.(ssa.CallInstruction)
			if !ok || !strings.HasSuffix(eng.CalleeName(cl), ".Insert") {
				return false
			}
			rv := eng.Receiver(cl)
			return rv != nil && loadsField(rv, fld)
		}
		// the receive of an ID: a select state (or plain receive) on addch
		var recv ssa.Instruction
		var okVals []ssa.Value
		var sel *ssa.Select
		selIdx := -1
		eng.Instrs(dr, func(in ssa.Instruction) {
			if s, ok := in.(*ssa.Select); ok {
				for i, st := range s.States {
					if st.Dir == types.RecvOnly && loadsField(st.Chan, addch) {
						recv, sel, selIdx = in, s, i
					}
				}
			}
		})
		if recv == nil {
			c.Undecided(r6, "drain", x.PosOf(dr.Pos()), "cannot find where queued IDs are received")
		} else {
			// assume this select case fired with ok = true, and future exists
			for _, ref := range *sel.Referrers() {
				if e, ok := ref.(*ssa.Extract); ok && e.Index == 1 {
					okVals = append(okVals, e)
				}
			}
			var tgtFld func(eng.FieldRef) bool
			as := &eng.Assume{Bool: func(v ssa.Value) eng.Tri {
				// the ID is not yet in the generation under consideration (skipping a duplicate is harmless)
				if cl, ok := v.(*ssa.Call); ok && strings.HasSuffix(eng.CalleeName(cl), ".Lookup") {
					if rv := eng.Receiver(cl); rv != nil && tgtFld != nil && loadsField(rv, tgtFld) {
						return eng.False
					}
				}
				for _, o := range okVals {
					if v == o {
						return eng.True
					}
				}
				if b, ok := v.(*ssa.BinOp); ok && b.Op == token.EQL {
					if e, ok := b.X.(*ssa.Extract); ok && e.Tuple == ssa.Value(sel) && e.Index == 0 {
						if k, ok := eng.ConstInt(b.Y); ok {
							return triOf(int(k) == selIdx)
						}
					}
				}
				return eng.Unknown
			}, Nil: func(v ssa.Value) eng.Tri {
				if loadsField(v, futF) {
					return eng.False
				}
				return eng.Unknown
			}}
			h := loopHeader(recv)
			for _, tgt := range []struct {
				name string
				fld  func(eng.FieldRef) bool
			}{{"current", curF}, {"future", futF}} {
				c.Examined++
				tgtFld = tgt.fld
				r := eng.Explore(eng.Query{Fn: dr, Assume: as, Start: recv, Classify: func(in ssa.Instruction, _ eng.Facts) eng.Event {
					if insertInto(in, tgt.fld) {
						return eng.EvKill
					}
					if h != nil && in == h.Instrs[0] {
						return eng.EvSink
					}
					return eng.EvNone
				}})
				bad := len(r.Hits) > 0
				for _, e := range r.Exits {
					if _, ok := e.Instr.(*ssa.Return); ok {
						bad = true
					}
				}
				c.Decide(!bad, r6, "drain/"+tgt.name, x.Pos(recv), "a received ID is inserted into the "+tgt.name+" filter on every path",
					"an ID taken from the add queue can skip the insert into the "+tgt.name+" filter generation: when the generations rotate the dropped decision is forgotten although the filter has not been filled since it was recorded")
			}
		}
	}
	c.Min(r6, 2)

	// ---- the second generation is only ever started, or promoted – never thrown away ---------------------------
	// (every dropped decision recorded since the future filter was started lives in it too; replacing a live
	// future filter by an empty one makes those decisions vanish at the next rotation, long before the filter fills)
	const r7 = "C31.future-generation-kept"
	{
		curF := eng.FieldIs("collect/cache", "CuckooTraceChecker", "current")
		futF := eng.FieldIs("collect/cache", "CuckooTraceChecker", "future")
		ord := map[*ssa.Function]int{}
		for _, w := range eng.FieldWrites(x.PkgFuncs("collect/cache"), futF) {
			rv := w.Fn.Signature.Recv()
			if rv == nil || !strings.Contains(rv.Type().String(), "CuckooTraceChecker") {
				continue // constructor: the object is not shared yet
			}
			st := w.Instr.(*ssa.Store)
			c.Examined++
			// (a) only reachable while there is no future filter
			as := &eng.Assume{Nil: func(v ssa.Value) eng.Tri {
				if loadsField(v, futF) {
					return eng.False
				}
				return eng.Unknown
			}}
			r := eng.ReachableSinks(w.Fn, as, nil, func(i2 ssa.Instruction) bool { return i2 == ssa.Instruction(st) })
			ok := len(r.Hits) == 0
			// (b) the old future filter has just become the current one (rotation)
			if !ok {
				for _, w2 := range eng.FieldWrites([]*ssa.Function{w.Fn}, curF) {
					st2 := w2.Instr.(*ssa.Store)
					if !loadsField(st2.Val, futF) {
						continue
					}
					// `c.current = c.future; c.future = new`, or `old := c.future; c.future = new; c.current = old`
					if ld, isLd := st2.Val.(ssa.Instruction); eng.Dominates(st2, st) || (isLd && eng.Dominates(ld, st)) {
						ok = true
					}
				}
			}
			ord[w.Fn]++
			c.Decide(ok, r7, sprintf("%s/future#%d", BaseName(w.Fn), ord[w.Fn]), x.Pos(st), "the future filter is replaced only when absent or right after it was promoted to current",
				"a live future filter is overwritten without having been promoted to current: the second copy of every dropped decision recorded since it was started is discarded, so those traces are forgotten at the next rotation although the filter never filled up")
		}
	}
	c.Min(r7, 2)
}

func triOf(b bool) eng.Tri {
	if b {
		return eng.True
	}
	return eng.False
}
