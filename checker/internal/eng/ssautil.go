// Package eng holds the analysis engines shared by the per-property rules.
package eng

import (
	"go/token"
	"go/types"
	"sort"
	"strings"

	"golang.org/x/tools/go/ssa"

	"refcheck/internal/load"
)

// Short strips the module prefix from a qualified name.
func Short(s string) string {
	return strings.ReplaceAll(s, load.Module+"/", "")
}

// FuncName is the normalised name of a function or method object:
//
//	collect.(*CollectorWorker).makeDecision   (concrete method)
//	(config.Config).GetIsDryRun               (interface method)
//	time.Now, (time.Time).After, (*sync.Mutex).Lock
func ObjName(f *types.Func) string {
	if f == nil {
		return ""
	}
	return Short(f.FullName())
}

// CalleeName returns the normalised callee of a call instruction: the static
// callee, the interface method for invoke-mode calls, or "" for dynamic calls
// through function values (use CalleeValue for those).
func CalleeName(c ssa.CallInstruction) string {
	cc := c.Common()
	if cc.IsInvoke() {
		return ObjName(cc.Method)
	}
	if f := cc.StaticCallee(); f != nil {
		return SSAFuncName(f)
	}
	if b, ok := cc.Value.(*ssa.Builtin); ok {
		return "builtin." + b.Name()
	}
	return ""
}

// SSAFuncName normalises an *ssa.Function's name (instantiations map to their origin).
func SSAFuncName(f *ssa.Function) string {
	if f == nil {
		return ""
	}
	if o := f.Origin(); o != nil {
		f = o
	}
	if obj, ok := f.Object().(*types.Func); ok && obj != nil {
		return ObjName(obj)
	}
	return Short(f.String())
}

// MethodBase returns the bare method/function name of a callee ("GetIsDryRun").
func MethodBase(name string) string {
	if i := strings.LastIndex(name, "."); i >= 0 {
		return name[i+1:]
	}
	return name
}

// IsCall returns the call if instr is a call/go/defer whose callee name is one of names.
func IsCall(instr ssa.Instruction, names ...string) (ssa.CallInstruction, bool) {
	c, ok := instr.(ssa.CallInstruction)
	if !ok {
		return nil, false
	}
	n := CalleeName(c)
	for _, w := range names {
		if n == w {
			return c, true
		}
	}
	return nil, false
}

// CallArgs returns the actual arguments excluding the receiver.
func CallArgs(c ssa.CallInstruction) []ssa.Value {
	cc := c.Common()
	if cc.IsInvoke() {
		return cc.Args
	}
	if f := cc.StaticCallee(); f != nil && f.Signature.Recv() != nil && len(cc.Args) > 0 {
		return cc.Args[1:]
	}
	return cc.Args
}

// Receiver returns the receiver value of a method call (or nil).
func Receiver(c ssa.CallInstruction) ssa.Value {
	cc := c.Common()
	if cc.IsInvoke() {
		return cc.Value
	}
	if f := cc.StaticCallee(); f != nil && f.Signature.Recv() != nil && len(cc.Args) > 0 {
		return cc.Args[0]
	}
	return nil
}

// Instrs iterates over all instructions of a function in block order.
func Instrs(f *ssa.Function, fn func(ssa.Instruction)) {
	for _, b := range f.Blocks {
		for _, in := range b.Instrs {
			fn(in)
		}
	}
}

// WithAnon returns f followed by all functions nested in it.
func WithAnon(f *ssa.Function) []*ssa.Function {
	out := []*ssa.Function{f}
	for _, a := range f.AnonFuncs {
		out = append(out, WithAnon(a)...)
	}
	return out
}

// Root returns the outermost enclosing function.
func Root(f *ssa.Function) *ssa.Function {
	for f.Parent() != nil {
		f = f.Parent()
	}
	return f
}

// InstrPos returns the position of an instruction, falling back to the nearest
// positioned instruction in its block (rotated loops carry NoPos).
func InstrPos(in ssa.Instruction) token.Pos {
	if in == nil {
		return token.NoPos
	}
	if p := in.Pos(); p.IsValid() {
		return p
	}
	if v, ok := in.(ssa.Value); ok {
		_ = v
	}
	b := in.Block()
	if b == nil {
		return token.NoPos
	}
	idx := -1
	for i, x := range b.Instrs {
		if x == in {
			idx = i
		}
	}
	for d := 1; d < len(b.Instrs); d++ {
		for _, j := range []int{idx - d, idx + d} {
			if j >= 0 && j < len(b.Instrs) && b.Instrs[j].Pos().IsValid() {
				return b.Instrs[j].Pos()
			}
		}
	}
	// operands
	var ops []*ssa.Value
	for _, op := range in.Operands(ops) {
		if *op != nil && (*op).Pos().IsValid() {
			return (*op).Pos()
		}
	}
	return b.Parent().Pos()
}

// FieldOf describes a struct field selected by a FieldAddr or Field instruction.
type FieldRef struct {
	Struct *types.Named // may be nil for anonymous structs
	Name   string
	Var    *types.Var
}

func (f FieldRef) String() string {
	if f.Struct == nil {
		return "?." + f.Name
	}
	return Short(f.Struct.Obj().Pkg().Path()) + "." + f.Struct.Obj().Name() + "." + f.Name
}

func deref(t types.Type) types.Type {
	if p, ok := t.Underlying().(*types.Pointer); ok {
		return p.Elem()
	}
	return t
}

// FieldRefOf resolves the struct field addressed/selected by v (FieldAddr or Field).
func FieldRefOf(v ssa.Value) (FieldRef, ssa.Value, bool) {
	switch x := v.(type) {
	case *ssa.FieldAddr:
		t := deref(x.X.Type())
		st, ok := t.Underlying().(*types.Struct)
		if !ok {
			return FieldRef{}, nil, false
		}
		n, _ := types.Unalias(t).(*types.Named)
		if n != nil && n.Origin() != nil {
			n = n.Origin()
		}
		fv := st.Field(x.Field)
		return FieldRef{Struct: n, Name: fv.Name(), Var: fv}, x.X, true
	case *ssa.Field:
		t := x.X.Type()
		st, ok := t.Underlying().(*types.Struct)
		if !ok {
			return FieldRef{}, nil, false
		}
		n, _ := types.Unalias(t).(*types.Named)
		if n != nil && n.Origin() != nil {
			n = n.Origin()
		}
		fv := st.Field(x.Field)
		return FieldRef{Struct: n, Name: fv.Name(), Var: fv}, x.X, true
	}
	return FieldRef{}, nil, false
}

// LoadedField reports the field read by v when v is `*(&x.F)` or `x.F`.
func LoadedField(v ssa.Value) (FieldRef, ssa.Value, bool) {
	switch x := v.(type) {
	case *ssa.UnOp:
		if x.Op == token.MUL {
			return FieldRefOf(x.X)
		}
	case *ssa.Field:
		return FieldRefOf(x)
	}
	return FieldRef{}, nil, false
}

// Site is a located construct.
type Site struct {
	Fn    *ssa.Function
	Instr ssa.Instruction
}

// CallSites enumerates calls (incl. go/defer) in the given functions whose callee matches.
func CallSites(funcs []*ssa.Function, match func(name string, c ssa.CallInstruction) bool) []Site {
	var out []Site
	for _, f := range funcs {
		Instrs(f, func(in ssa.Instruction) {
			if c, ok := in.(ssa.CallInstruction); ok {
				if match(CalleeName(c), c) {
					out = append(out, Site{f, in})
				}
			}
		})
	}
	return out
}

// FieldWrites enumerates stores to struct fields matching pred: direct Store to
// a FieldAddr, and map updates / deletes / appends are NOT included (see MapWrites).
func FieldWrites(funcs []*ssa.Function, pred func(FieldRef) bool) []Site {
	var out []Site
	for _, f := range funcs {
		Instrs(f, func(in ssa.Instruction) {
			if st, ok := in.(*ssa.Store); ok {
				if fr, _, ok := FieldRefOf(st.Addr); ok && pred(fr) {
					out = append(out, Site{f, in})
				}
			}
		})
	}
	return out
}

// FieldAccess is a read or write of a struct field.
type FieldAccess struct {
	Site
	Field FieldRef
	Base  ssa.Value // the struct (pointer) value
	Write bool      // Store to the field, or mutation of the map/slice it holds
	Addr  ssa.Value // FieldAddr / Field value
}

// FieldAccesses enumerates all reads and writes of fields matching pred. A
// FieldAddr whose only uses are loads is a read; a Store through it, a
// MapUpdate/delete on the loaded map, or taking its address for anything else
// is classified conservatively (see classification below).
func FieldAccesses(funcs []*ssa.Function, pred func(FieldRef) bool) []FieldAccess {
	var out []FieldAccess
	for _, f := range funcs {
		Instrs(f, func(in ssa.Instruction) {
			switch x := in.(type) {
			case *ssa.FieldAddr:
				fr, base, ok := FieldRefOf(x)
				if !ok || !pred(fr) {
					return
				}
				refs := x.Referrers()
				if refs == nil {
					return
				}
				for _, r := range *refs {
					switch u := r.(type) {
					case *ssa.Store:
						if u.Addr == x {
							out = append(out, FieldAccess{Site{f, u}, fr, base, true, x})
						} else {
							out = append(out, FieldAccess{Site{f, u}, fr, base, false, x}) // address escapes into a store: treat as read of address
						}
					case *ssa.UnOp:
						// load; mutation of a loaded map counts as write
						w := false
						if lr := u.Referrers(); lr != nil {
							for _, rr := range *lr {
								switch m := rr.(type) {
								case *ssa.MapUpdate:
									if m.Map == u {
										w = true
									}
								case *ssa.Call:
									if b, ok := m.Call.Value.(*ssa.Builtin); ok && (b.Name() == "delete" || b.Name() == "clear") && len(m.Call.Args) > 0 && m.Call.Args[0] == u {
										w = true
									}
								}
							}
						}
						out = append(out, FieldAccess{Site{f, u}, fr, base, w, x})
					default:
						// address used otherwise (method call on addressable field, passed along): read
						out = append(out, FieldAccess{Site{f, r}, fr, base, false, x})
					}
				}
			case *ssa.Field:
				fr, base, ok := FieldRefOf(x)
				if ok && pred(fr) {
					out = append(out, FieldAccess{Site{f, x}, fr, base, false, x})
				}
			}
		})
	}
	return out
}

// SortSites sorts by position for deterministic output.
func SortSites(s []Site) {
	sort.SliceStable(s, func(i, j int) bool { return InstrPos(s[i].Instr) < InstrPos(s[j].Instr) })
}

// FieldIs builds a predicate on (package-relative struct name, field).
func FieldIs(rel, strct string, fields ...string) func(FieldRef) bool {
	return func(fr FieldRef) bool {
		if fr.Struct == nil || fr.Struct.Obj().Pkg() == nil {
			return false
		}
		r, ok := load.Rel(fr.Struct.Obj().Pkg().Path())
		if !ok || r != rel || fr.Struct.Obj().Name() != strct {
			return false
		}
		if len(fields) == 0 {
			return true
		}
		for _, f := range fields {
			if f == fr.Name {
				return true
			}
		}
		return false
	}
}

// BlockReaches reports whether block a can reach block b (a==b counts when allowSelf).
func BlockReaches(a, b *ssa.BasicBlock) bool {
	if a == b {
		return true
	}
	seen := map[*ssa.BasicBlock]bool{a: true}
	work := []*ssa.BasicBlock{a}
	for len(work) > 0 {
		x := work[len(work)-1]
		work = work[:len(work)-1]
		for _, s := range x.Succs {
			if s == b {
				return true
			}
			if !seen[s] {
				seen[s] = true
				work = append(work, s)
			}
		}
	}
	return false
}

// IndexIn returns the index of an instruction in its block.
func IndexIn(in ssa.Instruction) int {
	for i, x := range in.Block().Instrs {
		if x == in {
			return i
		}
	}
	return -1
}

// Precedes reports whether a is executed before b on some path (same block:
// earlier index; otherwise block reachability), excluding a==b.
func MayPrecede(a, b ssa.Instruction) bool {
	if a.Block() == b.Block() {
		ia, ib := IndexIn(a), IndexIn(b)
		if ia < ib {
			return true
		}
		// via a loop back to the same block
		for _, s := range a.Block().Succs {
			if BlockReaches(s, b.Block()) {
				return true
			}
		}
		return false
	}
	return BlockReaches(a.Block(), b.Block())
}

// Dominates reports whether instruction a dominates instruction b.
func Dominates(a, b ssa.Instruction) bool {
	if a.Block() == b.Block() {
		return IndexIn(a) < IndexIn(b)
	}
	return a.Block().Dominates(b.Block())
}

// CalleeName2 is CalleeName for an arbitrary instruction ("" when it is no call).
func CalleeName2(in ssa.Instruction) string {
	if c, ok := in.(ssa.CallInstruction); ok {
		return CalleeName(c)
	}
	return ""
}
