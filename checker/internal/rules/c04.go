package rules

import (
	"go/token"

	"golang.org/x/tools/go/ssa"

	"refcheck/internal/eng"
)

func init() { Register("C04", c04) }

func isProductOf(v ssa.Value, a func(ssa.Value) bool, b func(ssa.Value) bool) bool {
	bo, ok := v.(*ssa.BinOp)
	if !ok || bo.Op != token.MUL {
		return false
	}
	return a(bo.X) && b(bo.Y) || a(bo.Y) && b(bo.X)
}

func c04(x *Ctx) {
	c := x.C
	c.Explanation = "C04 (forwarded sample rate = client rate × Refinery rate): decides (1) the span's SampleRate is written in the collector only by the merge function and every upstream enqueue is preceded, with dry run off, by a merge on the same span, (2) the Refinery rate given to the merge comes from the trace's decision (trace.SampleRate(), the decision record's Rate(), the stress sampler), (3) the merge floors the client rate at 1, stores floored×trace rate, reports the same value as meta.refinery.final_sample_rate and the unfloored original under `!= 0`, (4) every sampler returns a rate >= 1 whenever keep can be true."
	c.NotCovered = "overflow of the product and the dynsampler library's own arithmetic."
	funcs := x.PkgFuncs("collect")
	rateF := eng.FieldIs("types", "Event", "SampleRate")

	// ---- clause 1 ---------------------------------------------------------------
	const rW = "C04.single-rate-writer"
	for _, w := range eng.FieldWrites(funcs, rateF) {
		c.Examined++
		fn := eng.Root(w.Fn).Name()
		c.Decide(fn == "mergeTraceAndSpanSampleRates", rW, fn+"/SampleRate", x.Pos(w.Instr), "rate written by the merge function", "the span's SampleRate is written in "+fn+" outside mergeTraceAndSpanSampleRates: the forwarded rate no longer composes client and trace rates")
	}
	c.Min(rW, 2)

	const rMB = "C04.merge-before-enqueue"
	dryOff := &eng.Assume{Bool: func(v ssa.Value) eng.Tri {
		if isCallValue(v, nIsDryRun) {
			return eng.False
		}
		return eng.Unknown
	}}
	for _, f := range funcs {
		var enq []ssa.Instruction
		eng.Instrs(f, func(in ssa.Instruction) {
			if isUpstreamEnqueue(in) {
				enq = append(enq, in)
			}
		})
		for _, e := range enq {
			c.Examined++
			span := eng.CallArgs(e.(ssa.CallInstruction))[0]
			h := loopHeader(e)
			var start ssa.Instruction
			if h != nil {
				if b := loopBody(h); b != nil {
					start = b.Instrs[0]
				}
			}
			r := eng.Explore(eng.Query{Fn: f, Assume: dryOff, Start: start, Classify: func(in ssa.Instruction, _ eng.Facts) eng.Event {
				if h != nil && in == h.Instrs[0] {
					return eng.EvKill
				}
				if cl, ok := eng.IsCall(in, nMerge); ok {
					a := eng.CallArgs(cl)
					if len(a) > 0 && (a[0] == span || eng.SameObject(a[0], span)) {
						return eng.EvKill
					}
				}
				if in == e {
					return eng.EvSink
				}
				return eng.EvNone
			}})
			if len(r.Hits) > 0 {
				o := c.Violate(rMB, BaseName(f)+"/enqueue", x.Pos(e), "with dry run off a span reaches the upstream transmission without mergeTraceAndSpanSampleRates on it: it is forwarded with the client's rate only")
				o.Path = eng.DescribePath(x.P.Pos, r.Hits[0].Path)
			} else {
				c.Hold(rMB, BaseName(f)+"/enqueue", x.Pos(e), "merge on the same span precedes the enqueue")
			}
		}
	}
	c.Min(rMB, 3)

	// ---- clause 2: which rate --------------------------------------------------------
	const rSrc = "C04.rate-source"
	allowed := map[string][]string{
		"sendTraces":             {"(*types.Trace).SampleRate"},
		"dealWithSentTrace":      {"(collect/cache.TraceSentRecord).Rate"},
		"ProcessSpanImmediately": {"(collect/cache.TraceSentRecord).Rate", "(collect.StressReliever).GetSampleRate"},
	}
	for _, s := range eng.CallSites(funcs, func(n string, _ ssa.CallInstruction) bool { return n == nMerge }) {
		c.Examined++
		fn := eng.Root(s.Fn).Name()
		want, ok := allowed[fn]
		if !ok {
			c.Violate(rSrc, fn+"/merge", x.Pos(s.Instr), "mergeTraceAndSpanSampleRates is called from "+fn+", which has no decision to take the trace rate from")
			continue
		}
		arg := eng.CallArgs(s.Instr.(ssa.CallInstruction))[1]
		bad := ""
		found := map[string]bool{}
		for _, l := range leaves(arg, nil) {
			name := ""
			switch y := l.(type) {
			case *ssa.Call:
				name = eng.CalleeName(y)
			case *ssa.Const:
				if y.Value != nil && y.Value.String() == "0" {
					continue // zero value of `var rate uint`
				}
				name = "constant " + y.String()
			default:
				name = l.String()
			}
			okSrc := false
			for _, w := range want {
				if name == w {
					okSrc = true
					found[w] = true
				}
			}
			if !okSrc {
				bad = name
			}
		}
		if bad == "" && len(found) != len(want) {
			bad = "missing source"
		}
		c.Decide(bad == "", rSrc, fn+"/merge", x.Pos(s.Instr), "trace rate comes from the decision", "the trace rate passed to the merge in "+fn+" comes from "+bad+", not from the trace's recorded decision")
	}
	c.Min(rSrc, 3)

	// ---- clause 3: shape of the merge -----------------------------------------------------
	const rShape = "C04.merge-shape"
	if mf := x.Fn(rShape, "collect", "", "mergeTraceAndSpanSampleRates"); mf != nil && len(mf.Params) == 3 {
		tr, dry := mf.Params[1], mf.Params[2]
		finalKey, _ := x.constStr(rShape, "types", "MetaRefineryFinalSampleRate")
		origKey, _ := x.constStr(rShape, "types", "MetaRefineryOriginalSampleRate")
		isTr := func(v ssa.Value) bool { return v == ssa.Value(tr) }
		isFloored := func(v ssa.Value) bool {
			if !eng.AtLeastOne(v) {
				return false
			}
			_, ok := eng.Derives(v, func(w ssa.Value) bool { return loadsField(w, rateF) }, eng.FlowOpts{})
			return ok
		}
		mk := func(d eng.Tri) *eng.Assume {
			return &eng.Assume{Bool: func(v ssa.Value) eng.Tri {
				if v == ssa.Value(dry) {
					return d
				}
				return eng.Unknown
			}}
		}
		// not dry run: every exit passed a store SampleRate = floored × traceRate, and the final-rate attribute carries the same value
		var product ssa.Value
		r := eng.Explore(eng.Query{Fn: mf, Assume: mk(eng.False), Classify: func(in ssa.Instruction, _ eng.Facts) eng.Event {
			if st, ok := in.(*ssa.Store); ok {
				if fr, _, ok := eng.FieldRefOf(st.Addr); ok && rateF(fr) {
					if isProductOf(st.Val, isFloored, isTr) {
						product = st.Val
						return eng.EvSink
					}
					return eng.EvKill + 10 // marker: wrong store
				}
			}
			return eng.EvNone
		}})
		bad := ""
		for _, e := range r.Exits {
			if _, ok := e.Instr.(*ssa.Return); ok && e.Sinks != 1 {
				bad = "a non-dry-run path leaves the merge without storing floor(client rate) × trace rate exactly once"
			}
		}
		eng.Instrs(mf, func(in ssa.Instruction) {
			if st, ok := in.(*ssa.Store); ok {
				if fr, _, ok := eng.FieldRefOf(st.Addr); ok && rateF(fr) {
					isDryStore := !r.Visited[st.Block()]
					if !isDryStore && !isProductOf(st.Val, isFloored, isTr) {
						bad = "the rate stored on the non-dry-run path is not floor(client rate, 1) × trace rate"
					}
				}
			}
		})
		c.Decide(bad == "", rShape, "merge/product", x.PosOf(mf.Pos()), "SampleRate = max(client,1) × trace rate", bad)
		// final attribute
		okFinal := false
		eng.Instrs(mf, func(in ssa.Instruction) {
			if k, cl, ok := payloadSetKey(in); ok && k == finalKey && product != nil {
				_, d := eng.Derives(eng.CallArgs(cl)[1], func(v ssa.Value) bool { return v == product }, eng.FlowOpts{})
				if d && r.Visited[in.Block()] {
					okFinal = true
				}
			}
		})
		c.Decide(okFinal, rShape, "merge/final-attribute", x.PosOf(mf.Pos()), "meta.refinery.final_sample_rate carries the stored product", "meta.refinery.final_sample_rate is not set from the same value that is stored as the span's rate")
		// original attribute: set only when the client rate != 0, from the unfloored value
		okOrig := false
		var origSet ssa.Instruction
		eng.Instrs(mf, func(in ssa.Instruction) {
			if k, cl, ok := payloadSetKey(in); ok && k == origKey {
				origSet = in
				v := eng.CallArgs(cl)[1]
				unfloored := true
				for _, l := range leaves(v, nil) {
					if !loadsField(l, rateF) {
						unfloored = false
					}
				}
				okOrig = unfloored
			}
		})
		if origSet != nil {
			zero := int64(0)
			as := &eng.Assume{Bool: func(v ssa.Value) eng.Tri {
				return eng.EvalRel(v, []eng.RelFact{{A: func(w ssa.Value) bool { return loadsField(w, rateF) }, BConst: &zero, Rel: eng.EQ}})
			}}
			rr := eng.ReachableSinks(mf, as, nil, func(in ssa.Instruction) bool { return in == origSet })
			c.Decide(okOrig && len(rr.Hits) == 0, rShape, "merge/original-attribute", x.Pos(origSet), "original rate recorded unfloored, only when non-zero",
				"meta.refinery.original_sample_rate is not the client's unfloored rate recorded exactly when it is non-zero")
		} else {
			c.Violate(rShape, "merge/original-attribute", x.PosOf(mf.Pos()), "the client's original sample rate is not recorded")
		}
		// dry run: the span keeps the floored client rate
		okDry := true
		rd := eng.Explore(eng.Query{Fn: mf, Assume: mk(eng.True), Classify: func(in ssa.Instruction, _ eng.Facts) eng.Event {
			if st, ok := in.(*ssa.Store); ok {
				if fr, _, ok := eng.FieldRefOf(st.Addr); ok && rateF(fr) {
					if _, isMul := st.Val.(*ssa.BinOp); isMul || !isFloored(st.Val) {
						okDry = false
					}
					return eng.EvSink
				}
			}
			return eng.EvNone
		}})
		_ = rd
		c.Decide(okDry, "C04.merge-shape", "merge/dry-run-keeps-client-rate", x.PosOf(mf.Pos()), "dry run: SampleRate = max(client,1)", "in dry-run mode the span's rate is multiplied by the would-be trace rate")
	}
	c.Min(rShape, 4)

	// ---- clause 4: sampler floor -----------------------------------------------------------
	const rFloor = "C04.sampler-floor"
	impls := x.implementations("sample", "Sampler", "GetSampleRate", "sample")
	if sr := x.P.Func("collect", "StressRelief", "GetSampleRate"); sr != nil {
		impls = append(impls, sr)
	}
	for _, f := range impls {
		c.Examined++
		recvName := ""
		if f.Signature.Recv() != nil {
			recvName = typeString(f.Signature.Recv().Type())
		}
		key := recvName + ".GetSampleRate"
		// candidate weak leaves: integer loads that feed the returned rate unfloored
		var weak []ssa.Value
		eng.Instrs(f, func(in ssa.Instruction) {
			ret, ok := in.(*ssa.Return)
			if !ok || len(ret.Results) < 2 {
				return
			}
			var collect func(v ssa.Value, d int)
			seen := map[ssa.Value]bool{}
			collect = func(v ssa.Value, d int) {
				if d > 20 || seen[v] {
					return
				}
				seen[v] = true
				if eng.AtLeastOne(v) {
					return
				}
				switch y := v.(type) {
				case *ssa.Phi:
					for _, e := range y.Edges {
						collect(e, d+1)
					}
				case *ssa.Convert:
					collect(y.X, d+1)
				case *ssa.ChangeType:
					collect(y.X, d+1)
				case *ssa.Extract:
					if isExtractOf(y, 0, nSamplerRate) {
						return // a downstream sampler: covered by its own obligation
					}
					weak = append(weak, y)
				case *ssa.UnOp:
					if y.Op == token.MUL {
						// spilled named result: look at the stores
						if a, ok := y.X.(*ssa.Alloc); ok {
							for _, st := range eng.StoresTo(a, nil) {
								collect(st.Val, d+1)
							}
							return
						}
					}
					weak = append(weak, y)
				default:
					weak = append(weak, v)
				}
			}
			collect(ret.Results[0], 0)
		})
		if len(weak) == 0 {
			c.Hold(rFloor, key, x.PosOf(f.Pos()), "every returned rate is a constant >= 1 or floored")
			continue
		}
		// under "weak leaf < 1": no return may carry that leaf as rate with keep possibly true
		bad := ""
		var badAt ssa.Instruction
		for _, w := range weak {
			as := &eng.Assume{Bool: func(v ssa.Value) eng.Tri { return eng.EvalRel(v, []eng.RelFact{eng.LessThanOneFact(w)}) }}
			r := eng.Explore(eng.Query{Fn: f, Assume: as, TrackPhi: func(*ssa.Phi) bool { return true }})
			for _, e := range r.Exits {
				ret, ok := e.Instr.(*ssa.Return)
				if !ok || len(ret.Results) < 2 {
					continue
				}
				rate := e.Facts.Resolve(ret.Results[0])
				carries := false
				for _, l := range leaves(rate, nil) {
					if eng.SameLoc(l, w) {
						carries = true
					}
				}
				if !carries && !func() bool { // through conversions
					_, ok := eng.Derives(rate, func(v ssa.Value) bool { return eng.SameLoc(v, w) }, eng.FlowOpts{Stop: func(v ssa.Value) bool { _, isPhi := v.(*ssa.Phi); return isPhi }})
					return ok
				}() {
					continue
				}
				keep := e.Facts.Resolve(ret.Results[1])
				if e.Facts.Bool(keep) != eng.False && e.Facts.Bool(ret.Results[1]) != eng.False {
					bad = "the sampler can return keep=true with a rate below 1 (" + w.String() + " unfloored): Honeycomb then weights the kept spans by 0 / the merge multiplies by 0"
					badAt = ret
				}
			}
		}
		if bad != "" {
			c.Violate(rFloor, key, x.Pos(badAt), bad)
		} else {
			c.Hold(rFloor, key, x.PosOf(f.Pos()), "rate >= 1 whenever keep may be true (guarded)")
		}
	}
	c.Min(rFloor, 8)

	// ---- the client's rate is what the merge starts from and what is written down ---------------------------------
	const rBase = "C04.merge-from-client-rate"
	if mf := x.P.Func("collect", "", "mergeTraceAndSpanSampleRates"); mf != nil && mf.Blocks != nil && len(mf.Params) >= 1 {
		spRate := func(v ssa.Value) bool {
			return loadsField(v, func(fr eng.FieldRef) bool { return fr.Name == "SampleRate" && fr.Struct != nil && fr.Struct.Obj().Name() == "Event" })
		}
		origKey, _ := x.constStr(rBase, "types", "MetaRefineryOriginalSampleRate")
		// (a) with a nonzero client rate the original rate is recorded on every path, from the client's rate
		c.Examined++
		zero := int64(0)
		as := &eng.Assume{Bool: func(v ssa.Value) eng.Tri {
			return eng.EvalRel(v, []eng.RelFact{{A: spRate, BConst: &zero, Rel: eng.GT}})
		}}
		r := eng.Explore(eng.Query{Fn: mf, Assume: as, Classify: func(in ssa.Instruction, _ eng.Facts) eng.Event {
			if k, cl, ok := payloadSetKey(in); ok && k == origKey {
				if _, d := eng.Derives(eng.CallArgs(cl)[1], spRate, eng.FlowOpts{}); d {
					return eng.EvSink
				}
			}
			return eng.EvNone
		}})
		bad := false
		for _, e := range r.Exits {
			if _, isRet := e.Instr.(*ssa.Return); isRet && e.Sinks == 0 {
				bad = true
			}
		}
		c.Decide(!bad, rBase, "merge/original-recorded", x.PosOf(mf.Pos()), "nonzero client rate ⇒ recorded as the original rate on every path",
			"with a nonzero client sample rate a path through the merge does not record it as meta.refinery.original_sample_rate (e.g. because the span already carries that field): the original rate Honeycomb sees is a stale value")
		// (b) every rate the merge writes is computed from the client's rate and the trace rate only
		eng.Instrs(mf, func(in ssa.Instruction) {
			st, ok := in.(*ssa.Store)
			if !ok {
				return
			}
			fr, _, ok := eng.FieldRefOf(st.Addr)
			if !ok || fr.Name != "SampleRate" {
				return
			}
			c.Examined++
			badLeaf := ""
			for _, l := range leaves(st.Val, func(cl *ssa.Call) bool { _, isB := cl.Call.Value.(*ssa.Builtin); return isB }) {
				switch y := l.(type) {
				case *ssa.Const, *ssa.Parameter, *ssa.Builtin:
				case *ssa.UnOp:
					if !spRate(y) {
						badLeaf = y.String()
						if fr2, _, ok := eng.LoadedField(y); ok {
							badLeaf = "field " + fr2.Name
						}
					}
				default:
					badLeaf = l.String()
				}
			}
			c.Decide(badLeaf == "", rBase, "merge/rate-inputs", x.Pos(in), "the forwarded rate is computed from the span's own rate and the trace rate",
				"the rate written to the span is computed from "+badLeaf+" instead of the span's own sample rate and the trace rate: a span that already carries rate metadata (from an upstream Refinery) is forwarded with a rate that is not client rate × trace rate")
		})
	}
}
