package rules

import (
	"go/types"

	"golang.org/x/tools/go/ssa"

	"refcheck/internal/eng"
)

func init() { Register("C22", c22) }

func isFloat(v ssa.Value) bool {
	b, ok := v.Type().Underlying().(*types.Basic)
	return ok && b.Info()&types.IsFloat != 0
}

func c22(x *Ctx) {
	c := x.C
	c.Explanation = "C22 (event timestamps preserved exactly): decides that on every path of getEventTime from an integer epoch header (strconv.ParseInt succeeded) to the arguments of time.Unix no value of type float64 occurs – a float64 of seconds has ~240 ns resolution at 2×10⁹ s and cannot carry 13–19 significant digits, so a millisecond/microsecond/nanosecond epoch would lose units; and that a msgpack timestamp of a batched event is returned unmodified (apart from the zone)."
	c.NotCovered = "the documented float header form (1535589382.641) is inherently a float; RFC 3339 parsing is the standard library's."
	const r1 = "C22.no-float-in-integer-epoch"
	g := x.Fn(r1, "route", "", "getEventTime")
	if g != nil {
		var parseInts []ssa.Value
		eng.Instrs(g, func(in ssa.Instruction) {
			if cl, ok := eng.IsCall(in, "strconv.ParseInt", "strconv.ParseUint", "strconv.Atoi"); ok {
				parseInts = append(parseInts, cl.(ssa.Value))
			}
		})
		if len(parseInts) == 0 {
			c.Undecided(r1, "getEventTime/integer-branch", x.PosOf(g.Pos()), "no integer parse of the header found")
		} else {
			first := parseInts[0].(*ssa.Call)
			// integer branch: ParseInt of the whole header succeeded
			as := &eng.Assume{Nil: func(v ssa.Value) eng.Tri {
				if e, ok := v.(*ssa.Extract); ok && e.Tuple == ssa.Value(first) && e.Index == 1 {
					return eng.True
				}
				return eng.Unknown
			}}
			n := 0
			r := eng.Explore(eng.Query{Fn: g, Assume: as, Start: first, Classify: func(in ssa.Instruction, _ eng.Facts) eng.Event {
				if _, ok := eng.IsCall(in, "time.Unix", "time.UnixMilli", "time.UnixMicro"); ok {
					return eng.EvSink
				}
				return eng.EvNone
			}})
			for _, h := range r.Hits {
				n++
				c.Examined++
				cl := h.Instr.(ssa.CallInstruction)
				bad := ""
				for _, a := range eng.CallArgs(cl) {
					if w, ok := eng.Derives(a, func(v ssa.Value) bool { return isFloat(v) }, eng.FlowOpts{ThroughCalls: true}); ok {
						bad = w.String()
					}
				}
				c.Decide(bad == "", r1, "getEventTime/time.Unix", x.Pos(h.Instr), "integer epoch reaches time.Unix through integers only",
					"an integer epoch header is converted through float64 ("+bad+") before time.Unix: e.g. 1535589382641 (ms) becomes …641000032 ns and 1700000000001 becomes …000999927 ns – the timestamp Honeycomb receives differs from the client's")
			}
			if n == 0 {
				c.Violate(r1, "getEventTime/time.Unix", x.PosOf(g.Pos()), "an integer epoch header never reaches time.Unix")
			}
		}
	}
	c.Min(r1, 2)
	const r2 = "C22.msgpack-time-unmodified"
	if be := x.Fn(r2, "route", "batchedEvent", "getEventTime"); be != nil {
		ok, n := true, 0
		mp := eng.FieldIs("route", "batchedEvent", "MsgPackTimestamp")
		as := &eng.Assume{Nil: func(v ssa.Value) eng.Tri {
			if loadsField(v, mp) {
				return eng.False
			}
			return eng.Unknown
		}}
		r := eng.Explore(eng.Query{Fn: be, Assume: as})
		for _, e := range r.Exits {
			ret, isRet := e.Instr.(*ssa.Return)
			if !isRet {
				continue
			}
			n++
			// result must be MsgPackTimestamp(.UTC()) – no arithmetic, no re-parse
			v := ret.Results[0]
			if cl, isC := v.(*ssa.Call); isC && eng.CalleeName(cl) == "(time.Time).UTC" {
				v = cl.Call.Args[0]
			}
			if u, isU := v.(*ssa.UnOp); !isU || !loadsField(u.X, mp) {
				ok = false
			}
		}
		c.Decide(ok && n > 0, r2, "batchedEvent.getEventTime", x.PosOf(be.Pos()), "msgpack timestamp returned as is (UTC)", "a msgpack timestamp is transformed (arithmetic, formatting or re-parsing) before it becomes the event time")
	}
	c.Min(r2, 1)
}
