package rules

import (
	"go/types"
	"sort"
	"strings"

	"golang.org/x/tools/go/ssa"

	"refcheck/internal/eng"
	"refcheck/internal/load"
)

// E8 – lock discipline.

type mutexStruct struct {
	Named   *types.Named
	Rel     string
	Mutexes []string // field names of type sync.Mutex / sync.RWMutex
	Fields  []string // other fields
}

// mutexStructs lists production structs that carry a mutex field.
func (x *Ctx) mutexStructs() []mutexStruct {
	var out []mutexStruct
	for _, pk := range x.P.Pkgs {
		rel, _ := load.Rel(pk.PkgPath)
		if load.IsDouble(rel) {
			continue
		}
		sc := pk.Types.Scope()
		for _, n := range sc.Names() {
			tn, ok := sc.Lookup(n).(*types.TypeName)
			if !ok {
				continue
			}
			if load.IsMockFile(x.P.Fset.Position(tn.Pos()).Filename) {
				continue
			}
			nt, ok := tn.Type().(*types.Named)
			if !ok {
				continue
			}
			st, ok := nt.Underlying().(*types.Struct)
			if !ok {
				continue
			}
			ms := mutexStruct{Named: nt, Rel: rel}
			for i := 0; i < st.NumFields(); i++ {
				f := st.Field(i)
				ts := f.Type().String()
				if ts == "sync.Mutex" || ts == "sync.RWMutex" {
					ms.Mutexes = append(ms.Mutexes, f.Name())
				} else {
					ms.Fields = append(ms.Fields, f.Name())
				}
			}
			if len(ms.Mutexes) > 0 {
				out = append(out, ms)
			}
		}
	}
	sort.Slice(out, func(i, j int) bool { return out[i].Named.String() < out[j].Named.String() })
	return out
}

func structFieldPred(nt *types.Named, fields ...string) func(eng.FieldRef) bool {
	return func(fr eng.FieldRef) bool {
		if fr.Struct == nil || fr.Struct.Obj() != nt.Origin().Obj() {
			return false
		}
		for _, f := range fields {
			if f == fr.Name {
				return true
			}
		}
		return len(fields) == 0
	}
}

// heldAt: the mutex (field of the same struct type) is held at the instruction,
// in the required mode, within the function – Lock/RLock dominating with no
// Unlock in between on any path, `defer Unlock` included.
func heldAt(in ssa.Instruction, nt *types.Named, mutex string, write bool) bool {
	return lockedAtMode(in, structFieldPred(nt, mutex), write)
}

// callerHolds: every production call site of f holds the lock (depth-limited).
func (x *Ctx) callerHolds(f *ssa.Function, nt *types.Named, mutex string, write bool, depth int) bool {
	if depth > 2 {
		return false
	}
	root := eng.Root(f)
	edges := x.Callers(root)
	if len(edges) == 0 {
		return false
	}
	for _, e := range edges {
		if e.Site == nil {
			return false
		}
		if _, isGo := e.Site.(*ssa.Go); isGo {
			return false
		}
		if heldAt(e.Site, nt, mutex, write) {
			continue
		}
		if x.callerHolds(e.Caller.Func, nt, mutex, write, depth+1) {
			continue
		}
		return false
	}
	return true
}

// beforeConcurrency: in a start-up-only function, the access happens before the
// function starts a goroutine or registers a callback / subscription.
func (x *Ctx) beforeConcurrency(in ssa.Instruction) bool {
	f := in.Parent()
	root := eng.Root(f)
	if f != root {
		return false
	}
	if so, _ := x.startupOnly(root); !so {
		return false
	}
	n := root.Name()
	if !(n == "Start" || strings.HasPrefix(n, "New") || strings.HasPrefix(n, "new") || n == "init") {
		return false
	}
	escaped := false
	eng.Instrs(root, func(i2 ssa.Instruction) {
		isConc := false
		if _, ok := i2.(*ssa.Go); ok {
			isConc = true
		}
		if cl, ok := i2.(ssa.CallInstruction); ok {
			nm := eng.MethodBase(eng.CalleeName(cl))
			if strings.HasPrefix(nm, "Subscribe") || strings.HasPrefix(nm, "Register") && strings.Contains(nm, "Callback") {
				isConc = true
			}
		}
		if isConc && eng.MayPrecede(i2, in) {
			escaped = true
		}
	})
	return !escaped
}
