package rules

import (
	"encoding/json"
	"fmt"
	"os"
	"path/filepath"
	"runtime"
	"sort"
	"strings"
	"sync"

	"gopkg.in/yaml.v3"

	"refcheck/internal/load"
	"refcheck/internal/report"
)

// Mutant is a seeded variant applied as an in-memory overlay.
type Mutant struct {
	Name    string `yaml:"name"`
	File    string `yaml:"file"`    // repository-relative
	Find    string `yaml:"find"`    // exact text, must occur exactly once
	Replace string `yaml:"replace"` // replacement
	Edits   []struct {
		File    string `yaml:"file"`
		Find    string `yaml:"find"`
		Replace string `yaml:"replace"`
	} `yaml:"edits,omitempty"` // additional edits (possibly in other files)
	Expect string `yaml:"expect"` // substring of a failing obligation key; "" for benign
	Benign bool   `yaml:"benign"`
	Patch  string `yaml:"patch,omitempty"` // unified diff (path relative to checker/mutants) applied hunk by hunk instead of file/find/replace
}

type SelfTestResult struct {
	Info   map[string]any
	Broken string
}

// RunOn runs one property's rules on a program and returns the failing keys
// (violations not listed as known findings, undecided, unresolved).
func RunOn(id string, p *load.Program, kf *report.KnownFindings) (failing []report.Obligation, all int) {
	r, _ := Lookup(id)
	c := report.NewCheck(id)
	x := &Ctx{P: p, C: c, Tier: "quick"}
	r.Run(x)
	known := map[string]bool{}
	if kf != nil {
		for _, f := range kf.Findings {
			if f.Property == id {
				known[f.Key] = true
			}
		}
	}
	for _, o := range c.Obs {
		if o.Verdict == report.Holds {
			continue
		}
		if o.Verdict == report.Violation && known[o.Key] {
			continue
		}
		failing = append(failing, o)
	}
	return failing, len(c.Obs)
}

// SelfTest applies every seeded variant of the property and checks that the
// rules fire at the named construct (or stay silent for benign variants).
func SelfTest(id, dir, verif string) SelfTestResult {
	res := SelfTestResult{Info: map[string]any{}}
	MutantsDir = filepath.Join(verif, "checker", "mutants")
	path := filepath.Join(verif, "checker", "mutants", id+".yaml")
	b, err := os.ReadFile(path)
	if err != nil {
		res.Info["mutants_total"] = 0
		return res
	}
	var ms []Mutant
	if err := yaml.Unmarshal(b, &ms); err != nil {
		res.Broken = fmt.Sprintf("%s: %v", path, err)
		return res
	}
	// every independent behaviour-preserving refactoring that touches one of the property's anchor files is a
	// benign variant too (unless the YAML file already lists it)
	listed := map[string]bool{}
	for _, m := range ms {
		if m.Patch != "" && m.Benign && len(m.Edits) == 0 {
			listed[m.Patch] = true
		}
	}
	anchors := anchorFiles(filepath.Join(verif, "properties.jsonl"), id)
	if diffs, _ := filepath.Glob(filepath.Join(MutantsDir, "benign", "*.diff")); len(anchors) > 0 {
		sort.Strings(diffs)
		for _, d := range diffs {
			rel := "benign/" + filepath.Base(d)
			if listed[rel] {
				continue
			}
			es, err := editsFromPatch(d)
			if err != nil {
				continue
			}
			touches := false
			for _, e := range es {
				if anchors[e.file] {
					touches = true
				}
			}
			if touches {
				ms = append(ms, Mutant{Name: "benign corpus: " + filepath.Base(d), Patch: rel, Benign: true})
			}
		}
	}
	kf, _ := report.LoadKnown(filepath.Join(verif, "known_findings.json"))
	fired, skipped, benignOK := 0, 0, 0
	details := make([]map[string]any, len(ms))
	var mu sync.Mutex
	var wg sync.WaitGroup
	sem := make(chan struct{}, 6)
	for i, m := range ms {
		wg.Add(1)
		go func(i int, m Mutant) {
			defer wg.Done()
			sem <- struct{}{}
			defer func() { <-sem }()
			set := func(d map[string]any, f func()) {
				mu.Lock()
				defer mu.Unlock()
				details[i] = d
				if f != nil {
					f()
				}
			}
			defer func() {
				if r := recover(); r != nil {
					set(map[string]any{"mutant": m.Name, "result": fmt.Sprintf("PANIC %v", r)}, func() { res.Broken = fmt.Sprintf("variant %q: checker panic %v", m.Name, r) })
				}
			}()
			ov, skip, err := overlayFor(dir, m)
			if skip {
				set(map[string]any{"mutant": m.Name, "result": "skipped: " + err.Error()}, func() { skipped++ })
				return
			}
			p, err := load.Load(load.Options{Dir: dir, Overlay: ov})
			if err != nil {
				// the variant no longer type-checks against the edited tree: not a statement about the rule
				set(map[string]any{"mutant": m.Name, "result": "skipped: does not type-check on this tree: " + firstLine(err.Error())}, func() { skipped++ })
				return
			}
			failing, _ := RunOn(id, p, kf)
			p = nil
			runtime.GC()
			if m.Benign {
				if len(failing) == 0 {
					set(map[string]any{"mutant": m.Name, "result": "benign variant: silent"}, func() { benignOK++ })
				} else {
					set(map[string]any{"mutant": m.Name, "result": "FALSE ALARM " + failing[0].Key + ": " + failing[0].Detail}, func() {
						res.Broken = fmt.Sprintf("benign variant %q raised %s", m.Name, failing[0].Key)
					})
				}
				return
			}
			hit := ""
			for _, o := range failing {
				if strings.Contains(o.Key, m.Expect) {
					hit = o.Key
					break
				}
			}
			if hit != "" {
				set(map[string]any{"mutant": m.Name, "result": "fired", "at": hit}, func() { fired++ })
			} else {
				got := "nothing"
				if len(failing) > 0 {
					got = failing[0].Key
				}
				set(map[string]any{"mutant": m.Name, "result": "MISSED", "got": got}, func() {
					res.Broken = fmt.Sprintf("variant %q expected a report containing %q, got %s", m.Name, m.Expect, got)
				})
			}
		}(i, m)
	}
	wg.Wait()
	res.Info["mutants_total"] = len(ms)
	res.Info["mutants_fired"] = fired
	res.Info["mutants_benign_silent"] = benignOK
	res.Info["mutants_skipped"] = skipped
	res.Info["mutants"] = details
	return res
}

// MutantsDir is set by SelfTest so that patch files are found next to the YAML files.
var MutantsDir string

type edit struct {
	file, find, replace string
	line                int // 1-based line of the old text in the original file (unified diff hunks); 0 = unknown
}

// editsFromPatch turns a unified diff into one find/replace edit per hunk (context and removed lines → context
// and added lines). A hunk whose old text is not found exactly once makes the variant "skipped".
func editsFromPatch(path string) ([]edit, error) {
	b, err := os.ReadFile(path)
	if err != nil {
		return nil, err
	}
	var out []edit
	file := ""
	var oldB, newB strings.Builder
	inHunk := false
	hunkLine := 0
	flush := func() {
		if inHunk && file != "" {
			out = append(out, edit{file: file, find: oldB.String(), replace: newB.String(), line: hunkLine})
		}
		oldB.Reset()
		newB.Reset()
		inHunk = false
	}
	for _, ln := range strings.SplitAfter(string(b), "\n") {
		switch {
		case strings.HasPrefix(ln, "diff --git "), strings.HasPrefix(ln, "index "), strings.HasPrefix(ln, "new file mode"), strings.HasPrefix(ln, "--- "):
			flush()
		case strings.HasPrefix(ln, "+++ "):
			flush()
			file = strings.TrimSpace(strings.TrimPrefix(strings.TrimPrefix(ln, "+++ "), "b/"))
		case strings.HasPrefix(ln, "@@"):
			flush()
			inHunk = true
			hunkLine = 0
			fmt.Sscanf(ln, "@@ -%d", &hunkLine)
		case inHunk && strings.HasPrefix(ln, "+"):
			newB.WriteString(ln[1:])
		case inHunk && strings.HasPrefix(ln, "-"):
			oldB.WriteString(ln[1:])
		case inHunk && strings.HasPrefix(ln, " "):
			oldB.WriteString(ln[1:])
			newB.WriteString(ln[1:])
		case inHunk && strings.HasPrefix(ln, "\\"):
			// "\ No newline at end of file"
		}
	}
	flush()
	return out, nil
}

func overlayFor(dir string, m Mutant) (map[string][]byte, bool, error) {
	var edits []edit
	if m.Patch != "" {
		es, err := editsFromPatch(filepath.Join(MutantsDir, m.Patch))
		if err != nil {
			return nil, true, err
		}
		edits = es
	} else {
		edits = []edit{{file: m.File, find: m.Find, replace: m.Replace}}
	}
	for _, e := range m.Edits {
		edits = append(edits, edit{file: e.File, find: e.Find, replace: e.Replace})
	}
	ov := map[string][]byte{}
	for _, e := range edits {
		abs := filepath.Join(dir, e.file)
		src, ok := ov[abs]
		if !ok {
			b, err := os.ReadFile(abs)
			if err != nil {
				if e.find == "" {
					b = nil // a file the patch creates
				} else {
					return nil, true, fmt.Errorf("file %s missing", e.file)
				}
			}
			src = b
		}
		if e.find == "" && len(src) == 0 {
			ov[abs] = []byte(e.replace)
			continue
		}
		s := string(src)
		n := strings.Count(s, e.find)
		if n > 1 && e.line > 0 {
			// a diff hunk whose context is not unique: take the occurrence nearest to the hunk's line
			best, bestDist := -1, 1<<30
			for from := 0; ; {
				i := strings.Index(s[from:], e.find)
				if i < 0 {
					break
				}
				pos := from + i
				ln := strings.Count(s[:pos], "\n") + 1
				d := ln - e.line
				if d < 0 {
					d = -d
				}
				if d < bestDist {
					best, bestDist = pos, d
				}
				from = pos + 1
			}
			if best >= 0 && bestDist < 200 {
				ov[abs] = []byte(s[:best] + e.replace + s[best+len(e.find):])
				continue
			}
		}
		if n != 1 {
			return nil, true, fmt.Errorf("anchor text occurs %d times in %s", n, e.file)
		}
		ov[abs] = []byte(strings.Replace(s, e.find, e.replace, 1))
	}
	return ov, false, nil
}

// anchorFiles reads the anchor file list of one property from properties.jsonl.
func anchorFiles(path, id string) map[string]bool {
	out := map[string]bool{}
	b, err := os.ReadFile(path)
	if err != nil {
		return out
	}
	for _, ln := range strings.Split(string(b), "\n") {
		if !strings.Contains(ln, `"id": "`+id+`"`) && !strings.Contains(ln, `"id":"`+id+`"`) {
			continue
		}
		var p struct {
			Anchors struct {
				Files []string `json:"files"`
			} `json:"anchors"`
		}
		if json.Unmarshal([]byte(ln), &p) == nil {
			for _, f := range p.Anchors.Files {
				out[f] = true
			}
		}
	}
	return out
}

func firstLine(s string) string {
	if i := strings.Index(s, "\n"); i >= 0 {
		// keep the first reported error too
		rest := s[i+1:]
		if j := strings.Index(rest, "\n"); j >= 0 {
			rest = rest[:j]
		}
		return s[:i] + " " + strings.TrimSpace(rest)
	}
	return s
}
