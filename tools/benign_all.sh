#!/bin/sh
# Runs every independent behaviour-preserving refactoring in checker/mutants/benign/*.diff against all checks
# (each applied to a scratch worktree of /repo HEAD). Any line printed below a patch name is a false alarm.
cd "$(dirname "$0")/.."
rc=0
for p in checker/mutants/benign/*.diff; do
  out=$(sh tools/try_patch.sh "$p" all 2>&1 | grep -E "^VIOLATION|BROKEN|error:" | sed 's/replay=[^ ]*//')
  if [ -n "$out" ]; then echo "== $p"; echo "$out"; rc=1; fi
done
[ $rc = 0 ] && echo "all benign refactorings silent"
exit $rc
