package rules

import (
	"strings"

	"golang.org/x/tools/go/ssa"

	"refcheck/internal/eng"
)

func init() { Register("C23", c23) }

func c23(x *Ctx) {
	c := x.C
	c.Explanation = "C23 (responses reflect what happened): decides (1) after an error response was written by an ingestion handler or middleware no path goes on to process events, call the next handler or write another body; (2) at most one response body is written per path in each ingestion handler; (3) on the call chain from an entry point to event processing a function that returns `error` does not return nil on a branch taken because a callee failed, unless an event was processed on that path – otherwise the client is told 'success' while everything was discarded; (4) the batch endpoint's per-event status mapping: 429 iff the collector would block, 400 for other errors, 202 otherwise, one element per event."
	c.NotCovered = "response bodies' contents; husky's OTLP response encoding; the query and health handlers (status + body by design)."
	isErrResp := func(in ssa.Instruction) bool {
		_, ok := eng.IsCall(in, "(*route.Router).handlerReturnWithError", "(*route.Router).handleOTLPFailureResponse")
		return ok
	}
	isBody := func(in ssa.Instruction) bool {
		if isErrResp(in) {
			return true
		}
		cl, ok := in.(ssa.CallInstruction)
		if !ok {
			return false
		}
		n := eng.CalleeName(cl)
		return n == "(net/http.ResponseWriter).Write" || strings.Contains(n, "husky/otlp.WriteOtlpHttp")
	}
	isProcess := func(in ssa.Instruction) bool {
		_, ok := eng.IsCall(in, "(*route.Router).processEvent", "(*route.Router).processOTLPRequest", "(*route.Router).processOTLPRequestBatchMsgp",
			"(*route.Router).processOTLPRequestWithMsgp", "(net/http.Handler).ServeHTTP", nEnqueueEvent, nEnqueueSpan, nAddSpan, nAddSpanFromPeer)
		return ok
	}
	handlers := []*ssa.Function{}
	for _, n := range []string{"event", "batch", "postOTLPTrace", "postOTLPLogs"} {
		if f := x.Fn("C23.return-after-error", "route", "Router", n); f != nil {
			handlers = append(handlers, f)
		}
	}
	for _, n := range []string{"apiKeyProcessor", "queryTokenChecker"} {
		if f := x.Fn("C23.return-after-error", "route", "Router", n); f != nil {
			handlers = append(handlers, f.AnonFuncs...)
		}
	}
	// ---- clause 1 -----------------------------------------------------------------------------
	const r1 = "C23.return-after-error"
	for _, h := range handlers {
		i := 0
		eng.Instrs(h, func(in ssa.Instruction) {
			if !isErrResp(in) {
				return
			}
			if _, isDefer := in.(*ssa.Defer); isDefer {
				return
			}
			i++
			c.Examined++
			r := eng.Explore(eng.Query{Fn: h, Start: in, Classify: func(i2 ssa.Instruction, _ eng.Facts) eng.Event {
				if isProcess(i2) || isBody(i2) {
					return eng.EvSink
				}
				return eng.EvNone
			}})
			key := sprintf("%s/error-response#%d", BaseName(h), i)
			if len(r.Hits) > 0 {
				what := "writes another response body"
				if isProcess(r.Hits[0].Instr) {
					what = "goes on to process the request's events"
				}
				o := c.Violate(r1, key, x.Pos(in), "after this error response the handler does not return: it "+what+" ("+x.Pos(r.Hits[0].Instr)+") – the client is told the request failed while its events are forwarded, and a second body follows the first")
				o.Path = eng.DescribePath(x.P.Pos, r.Hits[0].Path)
			} else {
				c.Hold(r1, key, x.Pos(in), "error response ends the handler")
			}
		})
	}
	c.Min(r1, 12)
	// ---- clause 2 ------------------------------------------------------------------------------
	const r2 = "C23.one-response"
	// helpers of package route that are handed the ResponseWriter and write a body themselves: summarised by
	// whether they can write on a path that returns a nil / a non-nil error
	type wsum struct{ whenNil, whenErr, noErrResult bool }
	sums := map[*ssa.Function]*wsum{}
	var summarise func(g *ssa.Function, depth int) *wsum
	summarise = func(g *ssa.Function, depth int) *wsum {
		if s, ok := sums[g]; ok {
			return s
		}
		s := &wsum{}
		sums[g] = s
		if g == nil || g.Blocks == nil || depth > 3 || x.P.FuncRel(g) != "route" {
			return s
		}
		takesW := false
		for _, p := range g.Params {
			if typeString(p.Type()) == "net/http.ResponseWriter" {
				takesW = true
			}
		}
		if !takesW {
			return s
		}
		res := g.Signature.Results()
		s.noErrResult = res.Len() == 0 || res.At(res.Len()-1).Type().String() != "error"
		r := eng.Explore(eng.Query{Fn: g, Classify: func(in ssa.Instruction, _ eng.Facts) eng.Event {
			if _, isDefer := in.(*ssa.Defer); isDefer {
				return eng.EvNone
			}
			if isBody(in) {
				return eng.EvSink
			}
			if cl, ok := in.(*ssa.Call); ok {
				if cal := cl.Call.StaticCallee(); cal != nil && cal != g {
					if cs := summarise(cal, depth+1); cs.whenNil || cs.whenErr {
						return eng.EvSink
					}
				}
			}
			return eng.EvNone
		}})
		for _, e := range r.Exits {
			ret, isRet := e.Instr.(*ssa.Return)
			if !isRet || e.Sinks == 0 {
				continue
			}
			if s.noErrResult {
				s.whenNil, s.whenErr = true, true
				continue
			}
			switch e.Facts.Nil(ret.Results[len(ret.Results)-1]) {
			case eng.True:
				s.whenNil = true
			case eng.False:
				s.whenErr = true
			default:
				s.whenNil, s.whenErr = true, true
			}
		}
		return s
	}
	for _, h := range handlers {
		// call sites of writing helpers in this handler
		type wsite struct {
			call *ssa.Call
			sum  *wsum
			errs []ssa.Value
		}
		var wsites []wsite
		eng.Instrs(h, func(in ssa.Instruction) {
			cl, ok := in.(*ssa.Call)
			if !ok || isBody(in) {
				return
			}
			if cal := cl.Call.StaticCallee(); cal != nil {
				if s := summarise(cal, 0); s.whenNil || s.whenErr {
					ws := wsite{call: cl, sum: s}
					if !s.noErrResult {
						if cal.Signature.Results().Len() == 1 {
							ws.errs = []ssa.Value{cl}
						} else {
							ws.errs = extractOf(cl, cal.Signature.Results().Len()-1)
						}
					}
					wsites = append(wsites, ws)
				}
			}
		})
		// one exploration per assumed outcome of the writing helpers (none on today's tree: a single run)
		outcomes := []eng.Tri{eng.Unknown}
		if len(wsites) > 0 {
			outcomes = []eng.Tri{eng.True, eng.False}
		}
		bad := false
		for _, oc := range outcomes {
			as := &eng.Assume{Nil: func(v ssa.Value) eng.Tri {
				for _, ws := range wsites {
					for _, e := range ws.errs {
						if v == e {
							return oc
						}
					}
				}
				return eng.Unknown
			}}
			r := eng.Explore(eng.Query{Fn: h, Assume: as, Classify: func(in ssa.Instruction, _ eng.Facts) eng.Event {
				if _, isDefer := in.(*ssa.Defer); isDefer {
					return eng.EvNone
				}
				if isBody(in) {
					return eng.EvSink
				}
				for _, ws := range wsites {
					if ssa.Instruction(ws.call) == in {
						if ws.sum.noErrResult || oc == eng.True && ws.sum.whenNil || oc == eng.False && ws.sum.whenErr {
							return eng.EvSink
						}
					}
				}
				return eng.EvNone
			}})
			c.Examined += r.States
			for _, hit := range r.Hits {
				if hit.Before >= 1 && !bad {
					bad = true
					o := c.Violate(r2, BaseName(h), x.Pos(hit.Instr), "a second response body is written on a path that already wrote one (directly or inside a helper that was handed the ResponseWriter)")
					o.Path = eng.DescribePath(x.P.Pos, hit.Path)
				}
			}
		}
		if !bad {
			c.Hold(r2, BaseName(h), x.PosOf(h.Pos()), "at most one body per path")
		}
	}
	c.Min(r2, 6)
	// ---- clause 3 -------------------------------------------------------------------------------
	const r3 = "C23.no-nil-on-failure"
	for _, n := range []string{"processOTLPRequest", "processOTLPRequestBatchMsgp", "processOTLPRequestWithMsgp"} {
		f := x.Fn(r3, "route", "Router", n)
		if f == nil {
			continue
		}
		// for each callee error tested in this function: assume it is non-nil; a return of a nil error
		// before any event was processed is a violation
		var errVals []ssa.Value
		eng.Instrs(f, func(in ssa.Instruction) {
			iff, ok := in.(*ssa.If)
			if !ok {
				return
			}
			b, ok := iff.Cond.(*ssa.BinOp)
			if !ok {
				return
			}
			for _, side := range []ssa.Value{b.X, b.Y} {
				if e, ok := side.(*ssa.Extract); ok && e.Type().String() == "error" {
					if _, isCall := e.Tuple.(*ssa.Call); isCall && loopHeader(in) == nil {
						errVals = append(errVals, e)
					}
				}
				if cl, ok := side.(*ssa.Call); ok && cl.Type().String() == "error" && loopHeader(in) == nil {
					errVals = append(errVals, cl)
				}
			}
		})
		if len(errVals) == 0 {
			c.Hold(r3, n, x.PosOf(f.Pos()), "no callee failure is tested outside the event loop")
			continue
		}
		for i, ev := range errVals {
			c.Examined++
			as := &eng.Assume{Nil: func(v ssa.Value) eng.Tri {
				if v == ev {
					return eng.False
				}
				return eng.Unknown
			}}
			var start ssa.Instruction
			if in, ok := ev.(ssa.Instruction); ok {
				start = in
			}
			r := eng.Explore(eng.Query{Fn: f, Assume: as, Start: start, Classify: func(in ssa.Instruction, _ eng.Facts) eng.Event {
				if _, ok := eng.IsCall(in, "(*route.Router).processEvent", "(*route.Router).processOTLPRequestBatchMsgp"); ok {
					return eng.EvSink
				}
				return eng.EvNone
			}})
			bad := false
			var at ssa.Instruction
			for _, e := range r.Exits {
				ret, isRet := e.Instr.(*ssa.Return)
				if !isRet || len(ret.Results) == 0 {
					continue
				}
				if e.Sinks == 0 && e.Facts.Nil(ret.Results[len(ret.Results)-1]) == eng.True {
					bad, at = true, ret
				}
			}
			callee := "callee"
			if e, ok := ev.(*ssa.Extract); ok {
				callee = eng.MethodBase(eng.CalleeName(e.Tuple.(*ssa.Call)))
			}
			key := sprintf("%s/%s#%d", n, callee, i+1)
			if bad {
				c.Violate(r3, key, x.Pos(at), "when "+callee+" fails the function returns a nil error without processing any event: the OTLP client receives a success response although every event of the request was discarded")
			} else {
				c.Hold(r3, key, x.PosOf(f.Pos()), "callee failure is propagated (or events were processed)")
			}
		}
	}
	c.Min(r3, 3)
	// ---- clause 3b: once an event of the request was handed on, the request as a whole is not failed ------
	const r3b = "C23.no-error-after-accept"
	for _, n := range []string{"processOTLPRequest", "processOTLPRequestBatchMsgp"} {
		f := x.Fn(r3b, "route", "Router", n)
		if f == nil {
			continue
		}
		var pcs []ssa.Instruction
		eng.Instrs(f, func(in ssa.Instruction) {
			if _, ok := eng.IsCall(in, "(*route.Router).processEvent"); ok {
				pcs = append(pcs, in)
			}
		})
		if len(pcs) == 0 {
			continue // delegates to a sibling that is checked itself
		}
		c.Examined++
		var at ssa.Instruction
		for _, pc := range pcs {
			r := eng.Explore(eng.Query{Fn: f, Start: pc, TrackPhi: func(*ssa.Phi) bool { return true }})
			for _, e := range r.Exits {
				ret, isRet := e.Instr.(*ssa.Return)
				if !isRet || len(ret.Results) == 0 {
					continue
				}
				if e.Facts.Nil(e.Facts.Resolve(ret.Results[len(ret.Results)-1])) != eng.True {
					at = ret
				}
			}
		}
		if at != nil {
			c.Violate(r3b, n, x.Pos(at), "after events of the request have been handed to processEvent the function can still return an error: the client is told the whole request failed (and retries it) although part of it was forwarded or buffered")
		} else {
			c.Hold(r3b, n, x.PosOf(f.Pos()), "after the first processEvent every return is nil")
		}
	}
	c.Min(r3b, 1)
	// ---- clause 4b: a batch element's status comes from that element's own processing -----------------------
	const r4b = "C23.per-event-status-fresh"
	if b := x.Fn(r4b, "route", "Router", "batch"); b != nil {
		var pc ssa.Instruction
		eng.Instrs(b, func(in ssa.Instruction) {
			if _, ok := eng.IsCall(in, "(*route.Router).processEvent"); ok {
				pc = in
			}
		})
		if pc == nil {
			c.Undecided(r4b, "batch", x.PosOf(b.Pos()), "no processEvent call in batch")
		} else if h := loopHeader(pc); h == nil {
			c.Undecided(r4b, "batch", x.Pos(pc), "processEvent is not called in a loop over the batch")
		} else {
			carried := ""
			for _, in := range h.Instrs {
				phi, ok := in.(*ssa.Phi)
				if !ok {
					break
				}
				if phi.Type().String() == "error" {
					// only matters when the carried value is read inside the loop
					for _, ref := range *phi.Referrers() {
						if inNaturalLoop(ref.Block(), h) {
							carried = phi.Comment
							if carried == "" {
								carried = phi.Name()
							}
						}
					}
				}
			}
			c.Examined++
			c.Decide(carried == "", r4b, "batch", x.Pos(pc), "no error value is carried from one batch element to the next",
				"the error variable `"+carried+"` keeps its value from one batch element to the next: after one element fails, later elements that were accepted are reported with the earlier element's error status")
		}
	}
	// ---- clause 4c: every response element is an object of its own ---------------------------------------------------
	const r4c = "C23.response-element-fresh"
	if b := x.P.Func("route", "Router", "batch"); b != nil && b.Blocks != nil {
		n := 0
		eng.Instrs(b, func(in ssa.Instruction) {
			cl, ok := in.(*ssa.Call)
			if !ok {
				return
			}
			bi, ok := cl.Call.Value.(*ssa.Builtin)
			if !ok || bi.Name() != "append" || len(cl.Call.Args) < 2 {
				return
			}
			if !strings.Contains(cl.Call.Args[0].Type().String(), "BatchResponse") {
				return
			}
			h := loopHeader(in)
			if h == nil {
				return
			}
			n++
			c.Examined++
			// the appended pointer(s): allocations made inside the loop body
			fresh := true
			eng.Derives(cl.Call.Args[1], func(v ssa.Value) bool {
				if a, ok := v.(*ssa.Alloc); ok && strings.Contains(a.Type().String(), "BatchResponse") && !strings.HasPrefix(a.Type().String(), "*[") {
					if !inNaturalLoop(a.Block(), h) {
						fresh = false
					}
				}
				return false
			}, eng.FlowOpts{})
			c.Decide(fresh, r4c, "batch/append", x.Pos(in), "the element appended for an event is allocated in that event's iteration",
				"the response element appended for each event is one object allocated outside the loop: every entry of the response array points at it and shows the last event's status, so accepted events are reported as refused (or the reverse)")
		})
		if n == 0 {
			c.Undecided(r4c, "batch/append", x.PosOf(b.Pos()), "cannot find where response elements are appended")
		}
	}

	// ---- clause 4d: both admission paths report a full queue with the error the handlers map to 429 -------------------
	const r4d = "C23.queue-full-error-agrees"
	{
		wb := ""
		n := 0
		for _, name := range []string{"addSpan", "addSpanFromPeer"} {
			f := x.P.Func("collect", "CollectorWorker", name)
			if f == nil || f.Blocks == nil {
				continue
			}
			// the refusals this function can return, looking through a helper it delegates to
			var vals []ssa.Value
			var collect func(g *ssa.Function, depth int)
			collect = func(g *ssa.Function, depth int) {
				for _, rv := range returnedValues(g, 0) {
					if cl, ok := rv.(*ssa.Call); ok && depth < 2 {
						if h := cl.Call.StaticCallee(); h != nil && h.Blocks != nil && x.P.FuncRel(h) == "collect" {
							collect(h, depth+1)
							continue
						}
					}
					vals = append(vals, rv)
				}
			}
			collect(f, 0)
			for _, rv := range vals {
				if k, ok := rv.(*ssa.Const); ok && k.IsNil() {
					continue
				}
				n++
				c.Examined++
				g := ""
				if u, ok := rv.(*ssa.UnOp); ok {
					if gl, ok := u.X.(*ssa.Global); ok {
						g = gl.Name()
					}
				}
				if wb == "" {
					wb = g
				}
				c.Decide(g == "ErrWouldBlock", r4d, name, x.PosOf(f.Pos()), "a full queue is reported as collect.ErrWouldBlock",
					name+" reports a refusal with "+map[bool]string{true: "an error value that is not a package-level sentinel", false: "collect." + g}[g == ""]+" instead of collect.ErrWouldBlock: the HTTP handlers map only ErrWouldBlock to 429, so a full queue on this path is answered 400 (invalid) and the client does not retry")
			}
		}
		if n == 0 {
			c.Undecided(r4d, "collect.CollectorWorker", "collect/collector_worker.go", "cannot find the refusals of addSpan / addSpanFromPeer")
		}
	}

	// ---- clause 4: batch status mapping ------------------------------------------------------------
	const r4 = "C23.status-mapping"
	if b := x.Fn(r4, "route", "Router", "batch"); b != nil {
		statusF := eng.FieldIs("route", "BatchResponse", "Status")
		type sc struct {
			name      string
			errNil    eng.Tri
			wouldBlok eng.Tri
			want      int64
		}
		var pe ssa.CallInstruction
		for _, cl := range callsIn(b, "(*route.Router).processEvent") {
			pe = cl
		}
		if pe == nil {
			c.Undecided(r4, "batch/processEvent", x.PosOf(b.Pos()), "batch does not call processEvent")
		} else {
			h := loopHeader(pe)
			for _, s := range []sc{{"would-block", eng.False, eng.True, 429}, {"other-error", eng.False, eng.False, 400}, {"accepted", eng.True, eng.False, 202}} {
				as := &eng.Assume{
					Nil: func(v ssa.Value) eng.Tri {
						if v == pe.(ssa.Value) {
							return s.errNil
						}
						if phi, ok := v.(*ssa.Phi); ok {
							for _, e := range phi.Edges {
								if e == pe.(ssa.Value) {
									return s.errNil
								}
							}
						}
						return eng.Unknown
					},
					Bool: func(v ssa.Value) eng.Tri {
						if isCallValue(v, "errors.Is") {
							return s.wouldBlok
						}
						return eng.Unknown
					},
				}
				got := map[int64]bool{}
				r := eng.Explore(eng.Query{Fn: b, Assume: as, Start: pe, Classify: func(in ssa.Instruction, _ eng.Facts) eng.Event {
					if h != nil && in == h.Instrs[0] {
						return eng.EvKill
					}
					if st, ok := in.(*ssa.Store); ok {
						if fr, _, ok := eng.FieldRefOf(st.Addr); ok && statusF(fr) {
							if k, ok := eng.ConstInt(st.Val); ok {
								got[k] = true
							} else {
								got[-1] = true
							}
						}
					}
					return eng.EvNone
				}})
				_ = r
				c.Decide(len(got) == 1 && got[s.want], r4, "batch/"+s.name, x.Pos(pe), sprintf("%s ⇒ %d", s.name, s.want), sprintf("for the outcome '%s' the per-event status is %v instead of %d", s.name, keysInt(got), s.want))
			}
			// one response element per iteration
			if h != nil {
				if body := loopBody(h); body != nil {
					r := eng.Explore(eng.Query{Fn: b, Start: body.Instrs[0], Classify: func(in ssa.Instruction, _ eng.Facts) eng.Event {
						if in == h.Instrs[0] {
							return eng.EvKill
						}
						if cl, ok := in.(*ssa.Call); ok {
							if bi, ok := cl.Call.Value.(*ssa.Builtin); ok && bi.Name() == "append" && strings.Contains(cl.Type().String(), "BatchResponse") {
								return eng.EvSink
							}
						}
						return eng.EvNone
					}})
					twice := false
					for _, hit := range r.Hits {
						if hit.Before >= 1 {
							twice = true
						}
					}
					r2 := eng.Explore(eng.Query{Fn: b, Start: body.Instrs[0], Classify: func(in ssa.Instruction, _ eng.Facts) eng.Event {
						if cl, ok := in.(*ssa.Call); ok {
							if bi, ok := cl.Call.Value.(*ssa.Builtin); ok && bi.Name() == "append" && strings.Contains(cl.Type().String(), "BatchResponse") {
								return eng.EvKill
							}
						}
						if in == h.Instrs[0] {
							return eng.EvSink
						}
						return eng.EvNone
					}})
					c.Decide(!twice && len(r2.Hits) == 0, r4, "batch/one-element-per-event", x.Pos(body.Instrs[0]), "exactly one response element per event", "an event of the batch gets no (or two) response elements: the response array no longer lines up with the request")
				}
			}
		}
	}
	c.Min(r4, 4)
}

func keysInt(m map[int64]bool) []int64 {
	var out []int64
	for k := range m {
		out = append(out, k)
	}
	return out
}
