package rules

import (
	"go/types"
	"sort"
	"strings"

	"golang.org/x/tools/go/ssa"

	"refcheck/internal/eng"
)

func init() { Register("C12", c12); Register("C13", c13) }

// fieldsReadOf lists the fields of named struct type T (in package config)
// read in fn: FieldAddr/Field on values of type T or *T, plus – one level – the
// fields read by methods of T that fn calls.
func (x *Ctx) fieldsReadOf(fn *ssa.Function, T *types.Named, depth int) map[string]bool {
	out := map[string]bool{}
	if fn == nil || fn.Blocks == nil {
		return out
	}
	for _, g := range eng.WithAnon(fn) {
		eng.Instrs(g, func(in ssa.Instruction) {
			if v, ok := in.(ssa.Value); ok {
				if fr, _, ok := eng.FieldRefOf(v); ok && fr.Struct != nil && fr.Struct.Obj() == T.Obj() {
					out[fr.Name] = true
				}
			}
			if depth > 0 {
				if cl, ok := in.(ssa.CallInstruction); ok {
					if callee := cl.Common().StaticCallee(); callee != nil && callee.Signature.Recv() != nil {
						rt := callee.Signature.Recv().Type()
						if p, ok := rt.(*types.Pointer); ok {
							rt = p.Elem()
						}
						if n, ok := rt.(*types.Named); ok && n.Obj() == T.Obj() {
							for k := range x.fieldsReadOf(callee, T, depth-1) {
								out[k] = true
							}
						}
					}
				}
			}
		})
	}
	return out
}

func c12(x *Ctx) {
	c := x.C
	c.Explanation = "C12 (sampler state shared across workers, isolated between definitions): decides (1) every dynsampler-backed sampler built by the factory takes its rate-tracking instance from the single shared registry (no private instance per worker) and the registry map is touched only by the factory's registry functions; (2) the registry key carries the destination prefix, which derives from the sampler key / the parent rules sampler's key; (3) key completeness – every configuration field that the dynsampler constructor, the sampler's methods or the factory's bookkeeping read is part of the registry key, otherwise two definitions that differ only in that field share state."
	c.NotCovered = "the dynsampler library's internal statistics; per-worker sampler caches being cleared on reload is covered by the reload signal path only structurally (C27/C35)."
	cs := x.Fn("C12.one-registry", "sample", "SamplerFactory", "createSampler")
	if cs == nil {
		return
	}
	const nShared = "sample.getSharedDynsamplerAndRecorder"
	const nKey = "sample.makeDynsamplerKey"

	// ---- clause 1 ----------------------------------------------------------------
	const r1 = "C12.one-registry"
	// samplers with a `dynsampler` field
	pk := x.P.ByRel["sample"]
	var dynTypes []*types.Named
	for _, n := range pk.Types.Scope().Names() {
		tn, ok := pk.Types.Scope().Lookup(n).(*types.TypeName)
		if !ok {
			continue
		}
		nt, ok := tn.Type().(*types.Named)
		if !ok {
			continue
		}
		st, ok := nt.Underlying().(*types.Struct)
		if !ok {
			continue
		}
		for i := 0; i < st.NumFields(); i++ {
			if st.Field(i).Name() == "dynsampler" && n != "sharedDynsamplerEntry" {
				dynTypes = append(dynTypes, nt)
			}
		}
	}
	for _, nt := range dynTypes {
		c.Examined++
		name := nt.Obj().Name()
		pred := eng.FieldIs("sample", name, "dynsampler")
		n := 0
		for _, w := range eng.FieldWrites([]*ssa.Function{cs}, pred) {
			n++
			st := w.Instr.(*ssa.Store)
			_, ok := eng.Derives(st.Val, func(v ssa.Value) bool {
				e, isE := v.(*ssa.Extract)
				if !isE || e.Index != 0 {
					return false
				}
				cl, isC := e.Tuple.(*ssa.Call)
				return isC && eng.CalleeName(cl) == nShared
			}, eng.FlowOpts{})
			c.Decide(ok, r1, "createSampler:"+name, x.Pos(st), "rate-tracking instance comes from the shared registry", name+" is built with a dynsampler that does not come from the shared registry: each worker gets its own statistics, so the worker count changes the sampling behaviour")
		}
		if n == 0 {
			c.Violate(r1, "createSampler:"+name, x.PosOf(cs.Pos()), "the factory builds "+name+" without supplying the shared dynsampler (the sampler's Start then creates a private one per worker)")
		}
	}
	c.Min(r1, 5)
	// direct constructor calls outside the registry / the samplers' own test fallback
	for _, s := range eng.CallSites(x.PkgFuncs("sample"), func(n string, _ ssa.CallInstruction) bool {
		return strings.HasPrefix(n, "sample.createDynFor")
	}) {
		fn := eng.Root(s.Fn).Name()
		c.Decide(fn == "Start", "C12.no-private-instance", fn+"/"+eng.MethodBase(eng.CalleeName(s.Instr.(ssa.CallInstruction))), x.Pos(s.Instr),
			"fallback in Start when no shared instance was injected (tests)", "a dynsampler constructor is called directly from "+fn+", bypassing the shared registry")
	}
	reg := eng.FieldIs("sample", "SamplerFactory", "sharedDynsamplers")
	allowedReg := map[string]bool{"getSharedDynsamplerAndRecorder": true, "updatePeerCounts": true, "ClearDynsamplers": true, "createSampler": true, "Start": true}
	seen := map[string]bool{}
	for _, a := range eng.FieldAccesses(x.RepoFuncs(), reg) {
		fn := BaseName(eng.Root(a.Fn))
		if seen[fn] {
			continue
		}
		seen[fn] = true
		okFn := allowedReg[fn]
		if !okFn {
			// a private helper that is only ever called from the registry functions (an extracted part of one)
			root := eng.Root(a.Fn)
			callers := x.Callers(root)
			okFn = len(callers) > 0 && root.Signature.Recv() != nil && !root.Object().Exported()
			for _, e := range callers {
				if !allowedReg[BaseName(eng.Root(e.Caller.Func))] || BaseName(eng.Root(e.Caller.Func)) == "createSampler" {
					okFn = false
				}
			}
		}
		c.Decide(okFn && (!a.Write || fn != "createSampler"), "C12.registry-access", fn, x.Pos(a.Instr), "registry function", "the shared dynsampler registry is accessed from "+fn+", outside the factory's registry functions")
	}
	c.Min("C12.registry-access", 4)

	// ---- clause 2: prefix -----------------------------------------------------------------
	const r2 = "C12.prefix-in-key"
	kp := param(cs, "keyPrefix")
	for _, k := range callsIn(cs, nKey) {
		c.Examined++
		a := eng.CallArgs(k)
		c.Decide(kp != nil && a[0] == ssa.Value(kp), r2, "createSampler/"+constArg(a[1]), x.Pos(k), "key prefix = createSampler's keyPrefix", "the registry key of a "+constArg(a[1])+" sampler does not start with the destination prefix: two environments share sampler state")
	}
	c.Min(r2, 5)
	if mk := x.Fn(r2, "sample", "", "makeDynsamplerKey"); mk != nil {
		pp := mk.Params[0]
		used := false
		eng.Instrs(mk, func(in ssa.Instruction) {
			if r, ok := in.(*ssa.Return); ok {
				_, used = eng.Derives(r.Results[0], func(v ssa.Value) bool { return v == ssa.Value(pp) }, eng.FlowOpts{ThroughCalls: true})
			}
		})
		c.Decide(used, r2, "makeDynsamplerKey/prefix-used", x.PosOf(mk.Pos()), "the prefix is part of the key", "makeDynsamplerKey ignores its prefix argument: all destinations share one dynsampler per definition")
	}
	for _, s := range eng.CallSites(x.PkgFuncs("sample"), func(n string, _ ssa.CallInstruction) bool { return n == "(*sample.SamplerFactory).createSampler" }) {
		fn := s.Fn
		a := eng.CallArgs(s.Instr.(ssa.CallInstruction))
		ok := false
		for _, p := range fn.Params {
			if p.Type().String() == "string" {
				if _, d := eng.Derives(a[1], func(v ssa.Value) bool { return v == ssa.Value(p) }, eng.FlowOpts{ThroughCalls: true}); d {
					ok = true
				}
			}
		}
		c.Decide(ok, r2, BaseName(fn)+"/prefix-argument", x.Pos(s.Instr), "prefix derives from the caller's sampler key", "createSampler is called with a prefix that does not derive from the destination's sampler key")
	}

	// ---- clause 3: key completeness -----------------------------------------------------------
	const r3 = "C12.key-complete"
	cfgPkg := x.P.ByRel["config"]
	for _, k := range callsIn(cs, nKey) {
		c.Examined++
		args := eng.CallArgs(k)
		// which config type: the base of the field loads flowing into the key
		var T *types.Named
		keyed := map[string]bool{}
		for _, a := range args {
			eng.Derives(a, func(v ssa.Value) bool {
				if fr, _, ok := eng.FieldRefOf(v); ok && fr.Struct != nil && fr.Struct.Obj().Pkg() == cfgPkg.Types {
					T = fr.Struct
					keyed[fr.Name] = true
				}
				return false
			}, eng.FlowOpts{})
		}
		if T == nil {
			c.Undecided(r3, "createSampler/"+constArg(args[1]), x.Pos(k), "cannot tell which configuration type this key is built from")
			continue
		}
		// the key may take the whole struct (a copy of *c): every field counts as keyed,
		// except those overwritten in the copy before it is used
		for _, a := range args {
			eng.Derives(a, func(v ssa.Value) bool {
				al, ok := v.(*ssa.Alloc)
				if !ok {
					return false
				}
				et, ok := al.Type().(*types.Pointer)
				if !ok {
					return false
				}
				n, ok := et.Elem().(*types.Named)
				if !ok || n.Obj() != T.Obj() {
					return false
				}
				whole := false
				overwritten := map[string]bool{}
				eng.Instrs(cs, func(in ssa.Instruction) {
					st, ok := in.(*ssa.Store)
					if !ok {
						return
					}
					if st.Addr == ssa.Value(al) {
						if u, ok := st.Val.(*ssa.UnOp); ok {
							if _, isAlloc := u.X.(*ssa.Alloc); !isAlloc {
								whole = true
							}
						}
					}
					if fr, base, ok := eng.FieldRefOf(st.Addr); ok && base == ssa.Value(al) {
						overwritten[fr.Name] = true
					}
				})
				if whole {
					stt := T.Underlying().(*types.Struct)
					for i := 0; i < stt.NumFields(); i++ {
						if !overwritten[stt.Field(i).Name()] {
							keyed[stt.Field(i).Name()] = true
						}
					}
				}
				return false
			}, eng.FlowOpts{})
		}
		read := map[string]bool{}
		// (a) the dynsampler constructor passed to the registry in the same case
		eng.Instrs(cs, func(in ssa.Instruction) {
			cl, ok := in.(*ssa.Call)
			if !ok || eng.CalleeName(cl) != nShared {
				return
			}
			a := eng.CallArgs(cl)
			if a[1] != k.(ssa.Value) {
				return
			}
			if f, ok := a[len(a)-1].(*ssa.Function); ok {
				for f2 := range x.fieldsReadOf(f, T, 1) {
					read[f2] = true
				}
			}
		})
		// (b) methods of the sampler whose Config field has type *T
		for _, nt := range dynTypes {
			st := nt.Underlying().(*types.Struct)
			for i := 0; i < st.NumFields(); i++ {
				if st.Field(i).Name() != "Config" {
					continue
				}
				if p, ok := st.Field(i).Type().(*types.Pointer); ok {
					if n, ok := p.Elem().(*types.Named); ok && n.Obj() == T.Obj() {
						for _, m := range []string{"Start", "GetSampleRate", "GetKeyFields"} {
							for f2 := range x.fieldsReadOf(x.P.Func("sample", nt.Obj().Name(), m), T, 1) {
								read[f2] = true
							}
						}
					}
				}
			}
		}
		// (c) bookkeeping in createSampler itself
		for f2 := range x.fieldsReadOf(cs, T, 0) {
			read[f2] = true
		}
		var missing []string
		for f2 := range read {
			if !keyed[f2] {
				missing = append(missing, f2)
			}
		}
		sort.Strings(missing)
		c.Info["key_fields_"+T.Obj().Name()] = map[string]any{"keyed": keys(keyed), "read": keys(read)}
		c.Decide(len(missing) == 0, r3, T.Obj().Name(), x.Pos(k), "every configuration field that is read is part of the registry key",
			"the registry key of "+T.Obj().Name()+" omits fields that the sampler reads: "+strings.Join(missing, ", ")+" – two definitions under one destination that differ only in these (e.g. two rules of a rules-based sampler) share one dynsampler and its statistics")
	}
	c.Min(r3, 5)

	// ---- the key names the sampler type: distinct definitions of different types never share a key ------------
	const r6 = "C12.type-in-key"
	{
		tags := map[string][]ssa.Instruction{}
		var order []string
		for _, f := range x.PkgFuncs("sample") {
			for _, k := range callsIn(f, nKey) {
				a := eng.CallArgs(k)
				if len(a) < 2 {
					continue
				}
				c.Examined++
				tag, isConst := eng.ConstString(a[1])
				if !isConst {
					// passed through a helper: the helper's argument must be a distinct constant at each of its call sites
					if p, isP := a[1].(*ssa.Parameter); isP {
						for _, v := range x.callerArgs(f, p) {
							if t, ok := eng.ConstString(v); ok {
								if len(tags[t]) == 0 {
									order = append(order, t)
								}
								tags[t] = append(tags[t], k)
							} else {
								c.Undecided(r6, BaseName(f)+"/type-tag", x.Pos(k), "the sampler-type component of the registry key is not a constant")
							}
						}
						continue
					}
					c.Undecided(r6, BaseName(f)+"/type-tag", x.Pos(k), "the sampler-type component of the registry key is not a constant")
					continue
				}
				if len(tags[tag]) == 0 {
					order = append(order, tag)
				}
				// a constant tag inside a helper stands for every place the helper is called from
				n := 1
				if BaseName(f) != "createSampler" {
					if m := len(x.Callers(f)); m > 1 {
						n = m
					}
				}
				for i := 0; i < n; i++ {
					tags[tag] = append(tags[tag], k)
				}
			}
		}
		// which dynsampler constructor is paired with each tag: one tag ⇒ one constructor
		for _, tag := range order {
			ks := tags[tag]
			c.Decide(len(ks) == 1, r6, "tag:"+tag, x.Pos(ks[0]), "used for one sampler type only",
				sprintf("the type tag %q is used for %d different sampler types: two definitions of different types with the same rate and fields under one destination get the same registry key, and the second receives (or replaces) the first's dynsampler", tag, len(ks)))
		}
		if mk := x.P.Func("sample", "", "makeDynsamplerKey"); mk != nil && len(mk.Params) >= 2 {
			used := false
			eng.Instrs(mk, func(in ssa.Instruction) {
				if r, ok := in.(*ssa.Return); ok {
					_, used = eng.Derives(r.Results[0], func(v ssa.Value) bool { return v == ssa.Value(mk.Params[1]) }, eng.FlowOpts{ThroughCalls: true})
				}
			})
			c.Decide(used, r6, "makeDynsamplerKey/type-used", x.PosOf(mk.Pos()), "the type tag is part of the key", "makeDynsamplerKey ignores its sampler-type argument")
		}
	}
	c.Min(r6, 5)

	// ---- look-up, create and store are one critical section -----------------------------------------
	const r4 = "C12.lookup-create-atomic"
	regF := eng.FieldIs("sample", "SamplerFactory", "sharedDynsamplers")
	isUnlock := func(in ssa.Instruction) bool {
		cl, ok := in.(*ssa.Call) // a deferred unlock runs at return and splits nothing
		if !ok {
			return false
		}
		n := eng.CalleeName(cl)
		return n == "(*sync.RWMutex).Unlock" || n == "(*sync.Mutex).Unlock" || n == "(*sync.RWMutex).RUnlock"
	}
	doneAtomic := map[string]bool{}
	for _, f := range x.PkgFuncs("sample") {
		var lookups, updates []ssa.Instruction
		eng.Instrs(f, func(in ssa.Instruction) {
			switch y := in.(type) {
			case *ssa.Lookup:
				if loadsField(y.X, regF) {
					lookups = append(lookups, in)
				}
			case *ssa.MapUpdate:
				if loadsField(y.Map, regF) {
					updates = append(updates, in)
				}
			}
		})
		if len(lookups) == 0 || len(updates) == 0 || doneAtomic[BaseName(f)] {
			continue // one instantiation of a generic function stands for all of them
		}
		doneAtomic[BaseName(f)] = true
		c.Examined++
		isUpd := func(in ssa.Instruction) bool {
			for _, u := range updates {
				if u == in {
					return true
				}
			}
			return false
		}
		split := false
		for _, lk := range lookups {
			r := eng.Explore(eng.Query{Fn: f, Start: lk, Classify: func(in ssa.Instruction, _ eng.Facts) eng.Event {
				if isUnlock(in) || isUpd(in) {
					return eng.EvSink
				}
				return eng.EvNone
			}})
			for _, h := range r.Hits {
				if isUpd(h.Instr) && h.Before > 0 {
					split = true
				}
			}
		}
		c.Decide(!split, r4, BaseName(f), x.PosOf(f.Pos()), "registry look-up and store happen in one critical section",
			"the factory mutex is released between looking a key up in the shared registry and storing the newly created instance: two workers that miss at the same time each create and store an instance, and the one stored first keeps being used by its creator – workers no longer share rate-tracking state for that sampler definition")
	}
	c.Min(r4, 1)

	// ---- reload: the registry is cleared before the workers are told to rebuild their samplers ----------
	const r5 = "C12.clear-before-worker-reload"
	if rc := x.Fn(r5, "collect", "InMemCollector", "reloadConfigs"); rc != nil {
		workerReload := eng.FieldIs("collect", "CollectorWorker", "reload")
		isSignal := func(in ssa.Instruction) bool {
			switch y := in.(type) {
			case *ssa.Send:
				return loadsField(y.Chan, workerReload)
			case *ssa.Select:
				for _, st := range y.States {
					if st.Dir == types.SendOnly && loadsField(st.Chan, workerReload) {
						return true
					}
				}
			}
			return false
		}
		nSig := 0
		eng.Instrs(rc, func(in ssa.Instruction) {
			if isSignal(in) {
				nSig++
			}
		})
		r := eng.Explore(eng.Query{Fn: rc, Classify: func(in ssa.Instruction, _ eng.Facts) eng.Event {
			if _, ok := eng.IsCall(in, "(*sample.SamplerFactory).ClearDynsamplers"); ok {
				return eng.EvKill
			}
			if isSignal(in) {
				return eng.EvSink
			}
			return eng.EvNone
		}})
		c.Examined += r.States
		if nSig == 0 {
			c.Undecided(r5, "reloadConfigs/signal", x.PosOf(rc.Pos()), "cannot find where the workers are told to drop their samplers")
		} else {
			c.Decide(len(r.Hits) == 0, r5, "reloadConfigs", x.PosOf(rc.Pos()), "ClearDynsamplers precedes every worker reload signal",
				"a worker can be told to rebuild its samplers before the shared registry is cleared: it looks the old instance up again and keeps it while workers signalled later (or the next lookup) get a new one – one definition, two states, and the old one has been stopped")
		}
	}
}

func constArg(v ssa.Value) string {
	if s, ok := eng.ConstString(v); ok {
		return s
	}
	return v.Name()
}

func c13(x *Ctx) {
	c := x.C
	c.Explanation = "C13 (throughput goals scale with cluster size): decides that the per-node goal handed to a throughput dynsampler is max(configured / peerCount, 1) with peerCount only ever stored from a positive len(peers) or the constant 1; that all throughput cases of the factory record the configured goal exactly when UseClusterSize is set (sibling agreement) under the factory mutex; that every successful sampler creation is followed by a recomputation; that the peer callback is registered at start and that reload clears both maps together."
	c.NotCovered = "the dynsampler library's use of the goal."
	up := x.Fn("C13.goal-shape", "sample", "SamplerFactory", "updatePeerCounts")
	pcF := eng.FieldIs("sample", "SamplerFactory", "peerCount")
	gtc := eng.FieldIs("sample", "SamplerFactory", "goalThroughputConfigs")
	if up != nil {
		const r = "C13.goal-shape"
		n := 0
		// the recomputation itself may sit in a private helper that updatePeerCounts calls (under its lock)
		body := up
		var bodyCall ssa.Instruction
		if len(callsIn(up, "(sample.CanSetGoalThroughputPerSec).SetGoalThroughputPerSec")) == 0 {
			eng.Instrs(up, func(in ssa.Instruction) {
				if cl, ok := in.(*ssa.Call); ok {
					if h := cl.Call.StaticCallee(); h != nil && h.Pkg == up.Pkg && len(h.Blocks) > 0 && len(callsIn(h, "(sample.CanSetGoalThroughputPerSec).SetGoalThroughputPerSec")) > 0 && bodyCall == nil {
						body, bodyCall = h, in
					}
				}
			})
		}
		eng.Instrs(body, func(in ssa.Instruction) {
			cl, ok := eng.IsCall(in, "(sample.CanSetGoalThroughputPerSec).SetGoalThroughputPerSec")
			if !ok {
				return
			}
			n++
			arg := eng.CallArgs(cl)[0]
			good := false
			if mx, ok := arg.(*ssa.Call); ok {
				if b, ok := mx.Call.Value.(*ssa.Builtin); ok && b.Name() == "max" && len(mx.Call.Args) == 2 {
					var quo *ssa.BinOp
					var one bool
					for _, a := range mx.Call.Args {
						if k, ok := eng.ConstInt(a); ok && k == 1 {
							one = true
						}
						if bo, ok := a.(*ssa.BinOp); ok && bo.Op.String() == "/" {
							quo = bo
						}
					}
					if one && quo != nil {
						_, num := eng.Derives(quo.X, func(v ssa.Value) bool {
							lk, ok := v.(*ssa.Lookup)
							return ok && loadsField(lk.X, gtc)
						}, eng.FlowOpts{})
						den := loadsField(quo.Y, pcF)
						good = num && den
					}
				}
			}
			c.Decide(good, r, "updatePeerCounts/goal", x.Pos(in), "goal = max(configured / peerCount, 1)", "the per-node goal is not max(configured goal / peer count, 1)")
			// the lookup key is the registry key of the same entry
		})
		if n == 0 {
			c.Violate(r, "updatePeerCounts/goal", x.PosOf(up.Pos()), "no call to SetGoalThroughputPerSec: membership changes never reach the samplers")
		}
		// iterates the whole registry
		ranges := false
		eng.Instrs(body, func(in ssa.Instruction) {
			if rg, ok := in.(*ssa.Range); ok && loadsField(rg.X, eng.FieldIs("sample", "SamplerFactory", "sharedDynsamplers")) {
				ranges = true
			}
		})
		c.Decide(ranges, r, "updatePeerCounts/all-entries", x.PosOf(up.Pos()), "every registry entry is visited", "updatePeerCounts does not range over the whole registry")
		// … on every call: samplers are thrown away and re-created on reload (and created lazily per dataset), so a
		// recomputation that is skipped because "nothing changed since last time" leaves the new instances with the
		// undivided goal
		var rng ssa.Instruction
		eng.Instrs(up, func(in ssa.Instruction) {
			if rg, ok := in.(*ssa.Range); ok && rng == nil && loadsField(rg.X, eng.FieldIs("sample", "SamplerFactory", "sharedDynsamplers")) {
				rng = in
			}
		})
		if rng == nil && bodyCall != nil {
			rng = bodyCall // the call of the helper that walks the registry
		}
		if rng != nil {
			c.Examined++
			rr := eng.Explore(eng.Query{Fn: up, Classify: func(in ssa.Instruction, _ eng.Facts) eng.Event {
				if in == rng {
					return eng.EvKill
				}
				return eng.EvNone
			}})
			var skip ssa.Instruction
			for _, e := range rr.Exits {
				if _, isRet := e.Instr.(*ssa.Return); isRet {
					skip = e.Instr
				}
			}
			if skip != nil {
				c.Violate(r, "updatePeerCounts/always-recomputed", x.Pos(skip), "updatePeerCounts can return without visiting the registry: samplers created since the last recomputation (after a reload, or lazily for a new dataset) keep the undivided cluster-wide goal")
			} else {
				c.Hold(r, "updatePeerCounts/always-recomputed", x.Pos(rng), "every call walks the registry")
			}
		}
		// the membership is read inside the critical section that stores it: with the read outside, two overlapping
		// notifications can store their snapshots in the opposite order and the older cluster size wins
		mtx := func(fr eng.FieldRef) bool {
			if fr.Struct == nil || fr.Struct.Obj().Name() != "SamplerFactory" || fr.Var == nil {
				return false
			}
			t := fr.Var.Type().String()
			return t == "sync.Mutex" || t == "sync.RWMutex"
		}
		var getPeers []ssa.Instruction
		eng.Instrs(up, func(in ssa.Instruction) {
			if cl, ok := in.(ssa.CallInstruction); ok && strings.HasSuffix(eng.CalleeName(cl), ".GetPeers") {
				getPeers = append(getPeers, in)
			}
		})
		for _, gp := range getPeers {
			c.Examined++
			c.Decide(wlockedAt(gp, mtx), r, "updatePeerCounts/membership-read-under-lock", x.Pos(gp), "GetPeers is called inside the critical section that stores the count",
				"the peer list is read before the factory mutex is taken: overlapping membership notifications (the peer service starts each callback in its own goroutine) can store their snapshots in the opposite order, leaving goals divided by a stale cluster size")
		}
	}
	c.Min("C13.goal-shape", 2)
	// peerCount stores
	const rPC = "C13.peer-count-positive"
	for _, w := range eng.FieldWrites(x.PkgFuncs("sample"), pcF) {
		c.Examined++
		st := w.Instr.(*ssa.Store)
		ok := eng.AtLeastOne(st.Val)
		if !ok {
			if cl, isC := st.Val.(*ssa.Call); isC {
				if b, isB := cl.Call.Value.(*ssa.Builtin); isB && b.Name() == "len" {
					// guarded by len(x) > 0 on the same slice
					as := &eng.Assume{Bool: func(v ssa.Value) eng.Tri {
						zero := int64(0)
						return eng.EvalRel(v, []eng.RelFact{{A: func(u ssa.Value) bool {
							c2, ok := u.(*ssa.Call)
							if !ok {
								return false
							}
							b2, ok := c2.Call.Value.(*ssa.Builtin)
							return ok && b2.Name() == "len" && c2.Call.Args[0] == cl.Call.Args[0]
						}, BConst: &zero, Rel: eng.LT | eng.EQ}})
					}}
					r := eng.ReachableSinks(w.Fn, as, nil, func(in ssa.Instruction) bool { return in == ssa.Instruction(st) })
					ok = len(r.Hits) == 0
				}
			}
		}
		if !ok {
			// guarded by a comparison of the stored value itself (`if n > 0 { s.peerCount = n }`)
			as := &eng.Assume{Bool: func(v ssa.Value) eng.Tri { return eng.EvalRel(v, []eng.RelFact{eng.LessThanOneFact(st.Val)}) }}
			r := eng.ReachableSinks(w.Fn, as, nil, func(in ssa.Instruction) bool { return in == ssa.Instruction(st) })
			ok = len(r.Hits) == 0
		}
		c.Decide(ok, rPC, BaseName(w.Fn)+"/peerCount", x.Pos(st), "peerCount stored from a positive value", "peerCount can be stored as 0 (division by zero in updatePeerCounts) or from something other than the number of peers")
	}
	c.Min(rPC, 2)

	// sibling bookkeeping in createSampler
	const rSib = "C13.sibling-bookkeeping"
	cs := x.Fn(rSib, "sample", "SamplerFactory", "createSampler")
	if cs != nil {
		cfgPkg := x.P.ByRel["config"]
		for _, k := range callsIn(cs, "sample.makeDynsamplerKey") {
			var T *types.Named
			for _, a := range eng.CallArgs(k) {
				eng.Derives(a, func(v ssa.Value) bool {
					if fr, _, ok := eng.FieldRefOf(v); ok && fr.Struct != nil && fr.Struct.Obj().Pkg() == cfgPkg.Types {
						T = fr.Struct
					}
					return false
				}, eng.FlowOpts{})
			}
			if T == nil {
				continue
			}
			st := T.Underlying().(*types.Struct)
			hasUCS := false
			for i := 0; i < st.NumFields(); i++ {
				if st.Field(i).Name() == "UseClusterSize" {
					hasUCS = true
				}
			}
			if !hasUCS {
				continue
			}
			c.Examined++
			name := T.Obj().Name()
			ucs := eng.FieldIs("config", name, "UseClusterSize")
			goal := eng.FieldIs("config", name, "GoalThroughputPerSec")
			// the bookkeeping update for this key: a MapUpdate on goalThroughputConfigs in createSampler, or a call of a
			// helper whose body performs that update with its parameters
			var upd ssa.Instruction
			var updValue ssa.Value
			updLocked := false
			mutexF := eng.FieldIs("sample", "SamplerFactory", "mutex")
			eng.Instrs(cs, func(in ssa.Instruction) {
				switch y := in.(type) {
				case *ssa.MapUpdate:
					if loadsField(y.Map, gtc) && y.Key == k.(ssa.Value) {
						upd, updValue, updLocked = in, y.Value, lockedAt(y, mutexF)
					}
				case *ssa.Call:
					h := y.Call.StaticCallee()
					if h == nil || h.Blocks == nil || x.P.FuncRel(h) != "sample" {
						return
					}
					eng.Instrs(h, func(i2 ssa.Instruction) {
						mu, ok := i2.(*ssa.MapUpdate)
						if !ok || !loadsField(mu.Map, gtc) {
							return
						}
						ki, vi := -1, -1
						for i, p := range h.Params {
							if mu.Key == ssa.Value(p) {
								ki = i
							}
							if mu.Value == ssa.Value(p) {
								vi = i
							}
						}
						if ki < 0 || vi < 0 || ki >= len(y.Call.Args) || vi >= len(y.Call.Args) || y.Call.Args[ki] != k.(ssa.Value) {
							return
						}
						upd, updValue, updLocked = in, y.Call.Args[vi], lockedAt(mu, mutexF) || lockedAt(in, mutexF)
					})
				}
			})
			if upd == nil {
				c.Violate(rSib, name, x.Pos(k), name+" has UseClusterSize but the factory never records its configured goal: the goal is never rescaled when the cluster size changes (sibling throughput samplers do record it)")
				continue
			}
			okVal := loadsField(updValue, goal)
			// exactly when UseClusterSize
			mk := func(t eng.Tri) *eng.Assume {
				return &eng.Assume{Bool: func(v ssa.Value) eng.Tri {
					if loadsField(v, ucs) {
						return t
					}
					return eng.Unknown
				}}
			}
			rOff := eng.ReachableSinks(cs, mk(eng.False), k, func(in ssa.Instruction) bool { return in == upd })
			rOn := eng.Explore(eng.Query{Fn: cs, Assume: mk(eng.True), Start: k, Classify: func(in ssa.Instruction, _ eng.Facts) eng.Event {
				if in == upd {
					return eng.EvSink
				}
				if _, ok := eng.IsCall(in, "(sample.Sampler).Start"); ok {
					return eng.EvKill
				}
				return eng.EvNone
			}})
			// under UseClusterSize every path to sampler.Start passes the update: check no path reaches Start without sink
			rOn2 := eng.Explore(eng.Query{Fn: cs, Assume: mk(eng.True), Start: k, Classify: func(in ssa.Instruction, _ eng.Facts) eng.Event {
				if in == upd {
					return eng.EvKill
				}
				if _, ok := eng.IsCall(in, "(sample.Sampler).Start"); ok {
					return eng.EvSink
				}
				return eng.EvNone
			}})
			_ = rOn
			// under the mutex
			locked := updLocked
			switch {
			case !okVal:
				c.Violate(rSib, name, x.Pos(upd), "the recorded goal is not the configuration's GoalThroughputPerSec")
			case len(rOff.Hits) > 0:
				c.Violate(rSib, name, x.Pos(upd), "the goal is recorded although UseClusterSize is off: a sampler that should keep its configured goal is rescaled by cluster size")
			case len(rOn2.Hits) > 0:
				c.Violate(rSib, name, x.Pos(upd), "with UseClusterSize on a path skips recording the configured goal")
			case !locked:
				c.Violate(rSib, name, x.Pos(upd), "the goal bookkeeping map is written without the factory mutex")
			default:
				c.Hold(rSib, name, x.Pos(upd), "goal recorded exactly when UseClusterSize, under the mutex")
			}
		}
		c.Min(rSib, 3)
		// update after create
		const rUp = "C13.update-after-create"
		r := eng.Explore(eng.Query{Fn: cs, Classify: func(in ssa.Instruction, _ eng.Facts) eng.Event {
			if _, ok := eng.IsCall(in, "(*sample.SamplerFactory).updatePeerCounts"); ok {
				return eng.EvSink
			}
			return eng.EvNone
		}})
		bad := false
		for _, e := range r.Exits {
			if ret, ok := e.Instr.(*ssa.Return); ok && e.Facts.Nil(ret.Results[0]) != eng.True && e.Sinks == 0 {
				bad = true
			}
		}
		c.Decide(!bad, rUp, "createSampler/return", x.PosOf(cs.Pos()), "every path returning a sampler recomputed the goals", "a sampler can be returned without updatePeerCounts having run after its creation: a throughput sampler created after a membership change keeps the unscaled goal")
	}
	// callback registration and clearing
	if st := x.Fn("C13.callback-registered", "sample", "SamplerFactory", "Start"); st != nil {
		ok := false
		eng.Instrs(st, func(in ssa.Instruction) {
			if cl, isC := eng.IsCall(in, "(internal/peer.Peers).RegisterUpdatedPeersCallback"); isC {
				a := eng.CallArgs(cl)[0]
				if _, d := eng.Derives(a, func(v ssa.Value) bool {
					f, ok := v.(*ssa.Function)
					return ok && strings.Contains(f.String(), "updatePeerCounts")
				}, eng.FlowOpts{}); d {
					ok = true
				}
				if mc, isMC := a.(*ssa.MakeClosure); isMC && strings.Contains(mc.Fn.String(), "updatePeerCounts") {
					ok = true
				}
			}
		})
		c.Decide(ok, "C13.callback-registered", "Start", x.PosOf(st.Pos()), "updatePeerCounts registered as the peers callback", "updatePeerCounts is not registered for membership changes")
	}
	if cd := x.Fn("C13.clear-both", "sample", "SamplerFactory", "ClearDynsamplers"); cd != nil {
		cleared := map[string]bool{}
		eng.Instrs(cd, func(in ssa.Instruction) {
			if cl, ok := in.(*ssa.Call); ok {
				if b, ok := cl.Call.Value.(*ssa.Builtin); ok && b.Name() == "clear" {
					if fr, _, ok := eng.LoadedField(cl.Call.Args[0]); ok {
						cleared[fr.Name] = true
					}
				}
			}
		})
		c.Decide(cleared["sharedDynsamplers"] && cleared["goalThroughputConfigs"], "C13.clear-both", "ClearDynsamplers", x.PosOf(cd.Pos()), "registry and goal bookkeeping cleared together",
			"reload clears only one of the registry and the goal bookkeeping: stale goals are applied to new samplers with the same key")
	}
}

// lockedAt: the instruction is dominated by Lock() on the given mutex field with no Unlock in between on any path.
func lockedAt(in ssa.Instruction, mutexField func(eng.FieldRef) bool) bool {
	return lockedAtMode(in, mutexField, false)
}

func lockedAtMode(in ssa.Instruction, mutexField func(eng.FieldRef) bool, writeOnly bool) bool {
	f := in.Parent()
	isOn := func(i ssa.Instruction, names ...string) bool {
		cl, ok := i.(ssa.CallInstruction)
		if !ok {
			return false
		}
		if _, isDefer := i.(*ssa.Defer); isDefer {
			return false
		}
		n := eng.CalleeName(cl)
		match := false
		for _, w := range names {
			if n == w {
				match = true
			}
		}
		if !match {
			return false
		}
		recv := eng.Receiver(cl)
		fr, _, ok := eng.FieldRefOf(recv)
		return ok && mutexField(fr)
	}
	// explore from entry: reaching `in` without holding the lock is a violation
	type st struct {
		b    *ssa.BasicBlock
		held bool
	}
	seen := map[st]bool{}
	work := []st{{f.Blocks[0], false}}
	for len(work) > 0 {
		s := work[len(work)-1]
		work = work[:len(work)-1]
		if seen[s] {
			continue
		}
		seen[s] = true
		held := s.held
		for _, i := range s.b.Instrs {
			if i == in && !held {
				return false
			}
			if isOn(i, "(*sync.Mutex).Lock", "(*sync.RWMutex).Lock") || !writeOnly && isOn(i, "(*sync.RWMutex).RLock") {
				held = true
			}
			if isOn(i, "(*sync.Mutex).Unlock", "(*sync.RWMutex).Unlock", "(*sync.RWMutex).RUnlock") {
				held = false
			}
		}
		for _, n := range s.b.Succs {
			work = append(work, st{n, held})
		}
	}
	return true
}
