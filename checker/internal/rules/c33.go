package rules

import (
	"go/ast"
	"go/types"
	"strings"

	"golang.org/x/tools/go/ssa"

	"refcheck/internal/eng"
)

func init() { Register("C33", c33) }

func c33(x *Ctx) {
	c := x.C
	c.Explanation = "C33 (the metrics store reports what was recorded): decides (1) value cells of the store are never replaced – the cell maps of MultiMetrics are written only with LoadOrStore, because a plain Store swaps out a live cell (its value, and concurrent increments on the old cell, are lost); samplers and caches re-register their metrics lazily per worker and per reload; (2) kind agreement over the registration tables – every metric registered with a constant name is recorded through the operation family of its registered type (Counter ↔ Increment/Count, Gauge ↔ Gauge, Histogram ↔ Histogram, UpDown ↔ Up/Down); Get() routes by the registered type, so a value recorded through the wrong family lands in a cell Get never reads and is dropped by the Prometheus child."
	c.NotCovered = "arithmetic of concurrent atomic adds (library); metric names computed at run time (prefix + name idioms)."
	// ---- clause 1 ----------------------------------------------------------------------------------
	const r1 = "C33.no-cell-overwrite"
	cells := eng.FieldIs("metrics", "MultiMetrics", "counters", "gauges", "updowns")
	n := 0
	for _, f := range x.PkgFuncs("metrics") {
		eng.Instrs(f, func(in ssa.Instruction) {
			cl, ok := eng.IsCall(in, "(*sync.Map).Store", "(*sync.Map).Swap", "(*sync.Map).LoadOrStore", "(*sync.Map).Delete", "(*sync.Map).Clear")
			if !ok {
				return
			}
			fr, _, ok := eng.FieldRefOf(eng.Receiver(cl))
			if !ok {
				// a helper that is handed the map: func(vals *sync.Map, …) called with &m.counters
				if p, isP := eng.Receiver(cl).(*ssa.Parameter); isP {
					for _, a := range x.callerArgs(f, p) {
						if fr2, _, ok2 := eng.FieldRefOf(a); ok2 && cells(fr2) {
							fr, ok = fr2, true
						}
					}
				}
			}
			if !ok || !cells(fr) {
				return
			}
			n++
			c.Examined++
			name := eng.MethodBase(eng.CalleeName(cl))
			c.Decide(name == "LoadOrStore", r1, BaseName(f)+"/"+fr.Name+"."+name, x.Pos(in), "cell created only if absent",
				"the cell map "+fr.Name+" is written with "+name+": a metric that is registered again (samplers and caches do so per worker and on every reload) gets a fresh cell, so its accumulated value reads as 0 and concurrent updates on the old cell are lost")
		})
	}
	if n == 0 {
		c.Unresolved(r1, "MultiMetrics/cells", "no writes to the cell maps found")
	}
	c.Min(r1, 4)

	// ---- clause 1b: a recorded value is applied to the cell that is actually in the map ---------------------------
	// (LoadOrStore returns the cell that won; writing the value into the candidate cell before offering it – and not
	// looking at what LoadOrStore returned – loses the value whenever another goroutine's cell, or the one Register
	// put there, wins)
	const r1b = "C33.value-on-stored-cell"
	isAtomicWrite := func(in ssa.Instruction) (ssa.CallInstruction, bool) {
		cl, ok := in.(ssa.CallInstruction)
		if !ok {
			return nil, false
		}
		n := eng.CalleeName(cl)
		if !strings.HasPrefix(n, "(*sync/atomic.") {
			return nil, false
		}
		m := eng.MethodBase(n)
		return cl, m == "Add" || m == "Store" || m == "Swap" || m == "CompareAndSwap"
	}
	nW := 0
	for _, f := range x.PkgFuncs("metrics") {
		if !strings.Contains(FName(f), "MultiMetrics") && f.Signature.Recv() != nil {
			continue
		}
		eng.Instrs(f, func(in ssa.Instruction) {
			cl, ok := isAtomicWrite(in)
			if !ok {
				return
			}
			args := eng.CallArgs(cl)
			if len(args) == 0 {
				return
			}
			// the value written depends on what the caller recorded
			if _, fromParam := eng.Derives(args[len(args)-1], func(v ssa.Value) bool { _, isP := v.(*ssa.Parameter); return isP }, eng.FlowOpts{}); !fromParam {
				if k, isK := eng.ConstInt(args[len(args)-1]); !(isK && k != 0) {
					return // initialisation with zero
				}
			}
			rv := eng.Receiver(cl)
			fresh, _ := rv.(*ssa.Alloc)
			if fresh == nil {
				nW++
				return
			}
			// a locally made cell: is it only a LoadOrStore candidate?
			candidate := false
			for _, ref := range *fresh.Referrers() {
				if c2, ok := ref.(ssa.CallInstruction); ok && eng.MethodBase(eng.CalleeName(c2)) == "LoadOrStore" {
					candidate = true
				}
				if mi, ok := ref.(*ssa.MakeInterface); ok {
					for _, r2 := range *mi.Referrers() {
						if c2, ok := r2.(ssa.CallInstruction); ok && eng.MethodBase(eng.CalleeName(c2)) == "LoadOrStore" {
							candidate = true
						}
					}
				}
			}
			if !candidate {
				return
			}
			nW++
			c.Examined++
			c.Violate(r1b, BaseName(f)+"/"+eng.MethodBase(eng.CalleeName(cl)), x.Pos(in), "the recorded value is written into a freshly made cell that is then only offered to LoadOrStore: when the map already holds a cell for the name (another goroutine's first use, or Register) the fresh cell is discarded and the value with it")
		})
	}
	if nW == 0 {
		c.Unresolved(r1b, "MultiMetrics/writes", "no value writes to metric cells found")
	} else {
		c.Hold(r1b, "MultiMetrics/recording-methods", "metrics/multi_metrics.go", sprintf("%d value writes, all on cells taken from the map", nW))
	}

	// ---- clause 1d: registering a metric records nothing -----------------------------------------------------------
	// (Register is called again for live metrics – per worker, per sampler, on every reload; it may create a cell
	// but must not write a value into a cell that may already be in use, directly or through a recording method)
	const r1d = "C33.register-records-nothing"
	if reg := x.Fn(r1d, "metrics", "MultiMetrics", "Register"); reg != nil {
		var bad ssa.Instruction
		via := ""
		seenF := map[*ssa.Function]bool{}
		var visit func(f *ssa.Function, depth int, path string)
		visit = func(f *ssa.Function, depth int, path string) {
			if seenF[f] || depth > 3 {
				return
			}
			seenF[f] = true
			eng.Instrs(f, func(in ssa.Instruction) {
				if cl, ok := isAtomicWrite(in); ok {
					if _, fresh := eng.Receiver(cl).(*ssa.Alloc); !fresh && bad == nil {
						bad, via = in, path
					}
					return
				}
				if cl, ok := in.(*ssa.Call); ok {
					if cal := cl.Call.StaticCallee(); cal != nil && len(cal.Blocks) > 0 && cal.Signature.Recv() != nil && strings.Contains(cal.Signature.Recv().Type().String(), "MultiMetrics") {
						visit(cal, depth+1, path+" → "+BaseName(cal))
					}
				}
			})
		}
		visit(reg, 0, "Register")
		c.Examined += len(seenF)
		if bad != nil {
			c.Violate(r1d, "Register/"+eng.MethodBase(eng.CalleeName(bad.(ssa.CallInstruction))), x.Pos(bad), "registration writes a value into a metric cell that may already be live ("+via+"): every repeated registration (per worker, per sampler instance, on each reload) resets or alters what was recorded")
		} else {
			c.Hold(r1d, "Register", x.PosOf(reg.Pos()), "registration only creates absent cells; no value is written to a cell taken from the maps")
		}
	}
	c.Min(r1d, 1)

	// ---- clause 1e: a counter baseline belongs to the sampler it was read from ------------------------------------
	// (the dynsampler counters are exported as deltas against the values remembered by the recorder; the recorder
	// that is registered together with a newly created dynsampler must be a new one initialised from that very
	// instance – a recorder kept from the instance's predecessor holds the predecessor's totals, the first delta
	// after a reload is negative and the exported counter goes down)
	const r1e = "C33.delta-baseline-fresh"
	recF := eng.FieldIs("sample", "sharedDynsamplerEntry", "recorder")
	doneRec := map[string]bool{}
	for _, f := range x.PkgFuncs("sample") {
		for _, w := range eng.FieldWrites([]*ssa.Function{f}, recF) {
			if doneRec[BaseName(f)] {
				continue // one instantiation of a generic function stands for all of them
			}
			doneRec[BaseName(f)] = true
			st := w.Instr.(*ssa.Store)
			c.Examined++
			var made *ssa.Alloc
			fresh := x.mustDerive(st.Val, func(v ssa.Value) bool {
				a, ok := v.(*ssa.Alloc)
				if ok && a.Heap && a.Parent() == f {
					made = a
				}
				return ok && a.Heap && a.Parent() == f
			})
			// … and initialised (RegisterMetrics) before it is published
			inited := false
			if fresh && made != nil {
				for _, ref := range *made.Referrers() {
					if cl, ok := ref.(ssa.CallInstruction); ok && strings.HasSuffix(eng.CalleeName(cl), ".RegisterMetrics") && eng.Dominates(ref, st) {
						inited = true
					}
				}
			}
			c.Decide(fresh && inited, r1e, BaseName(f)+"/recorder", x.Pos(st), "the recorder stored with a new dynsampler is created and initialised from it in the same call",
				"the metrics recorder stored with a newly created dynsampler is not a new one initialised from that instance (it can come from remembered state): it keeps the previous instance's totals as its baseline, so the first deltas after the samplers are rebuilt are negative and exported counters decrease")
		}
	}
	c.Min(r1e, 1)

	// ---- clause 1c: up/down values are kept signed ------------------------------------------------------------------
	const r1c = "C33.updown-signed"
	updF := eng.FieldIs("metrics", "MultiMetrics", "updowns")
	{
		bad := ""
		nT := 0
		var visit func(f *ssa.Function, isUpd func(ssa.Value) bool, depth int)
		visit = func(f *ssa.Function, isUpd func(ssa.Value) bool, depth int) {
			eng.Instrs(f, func(in ssa.Instruction) {
				cl, ok := in.(ssa.CallInstruction)
				if !ok {
					return
				}
				n := eng.CalleeName(cl)
				if strings.HasPrefix(n, "(*sync.Map).") && isUpd(eng.Receiver(cl)) {
					m := eng.MethodBase(n)
					// candidate cells offered to the map
					if m == "LoadOrStore" || m == "Store" {
						a := eng.CallArgs(cl)
						if mi, ok := a[len(a)-1].(*ssa.MakeInterface); ok {
							nT++
							if t := typeString(mi.X.Type()); t != "*sync/atomic.Int64" {
								bad = t + " stored at " + x.Pos(in)
							}
						}
					}
					// type assertions on what comes out
					if v, ok := cl.(ssa.Value); ok && v.Referrers() != nil {
						for _, ref := range *v.Referrers() {
							e, ok := ref.(*ssa.Extract)
							if !ok || e.Index != 0 || e.Referrers() == nil {
								continue
							}
							for _, r2 := range *e.Referrers() {
								if ta, ok := r2.(*ssa.TypeAssert); ok {
									nT++
									if t := typeString(ta.AssertedType); t != "*sync/atomic.Int64" {
										bad = "read as " + t + " at " + x.Pos(ta)
									}
								}
							}
						}
					}
					return
				}
				// handed to a helper
				if g := cl.Common().StaticCallee(); g != nil && g.Blocks != nil && x.P.FuncRel(g) == "metrics" && depth < 2 {
					for i, a := range cl.Common().Args {
						if isUpd(a) && i < len(g.Params) {
							p := g.Params[i]
							visit(g, func(v ssa.Value) bool { return v == ssa.Value(p) }, depth+1)
						}
					}
				}
			})
		}
		for _, f := range x.PkgFuncs("metrics") {
			visit(f, func(v ssa.Value) bool {
				fr, _, ok := eng.FieldRefOf(v)
				return ok && updF(fr)
			}, 0)
		}
		c.Examined += nT
		if nT == 0 {
			c.Unresolved(r1c, "MultiMetrics.updowns", "no cell types found for the up/down map")
		} else {
			c.Decide(bad == "", r1c, "MultiMetrics.updowns", "metrics/multi_metrics.go", sprintf("%d cell uses, all *atomic.Int64", nT),
				"an up/down metric cell is "+bad+": up/down values go below zero in normal operation (a batch's Down can precede the enqueue's Up), and an unsigned cell reads back as about 1.8e19 instead of −1")
		}
	}

	// ---- clause 2: kind agreement ---------------------------------------------------------------------
	const r2 = "C33.kind-agreement"
	registered := map[string]string{} // name -> type
	regPos := map[string]string{}
	for _, pk := range x.P.Pkgs {
		rel := strings.TrimPrefix(strings.TrimPrefix(pk.PkgPath, "github.com/honeycombio/refinery"), "/")
		if isDoublePkg(rel) {
			continue
		}
		for i, f := range pk.Syntax {
			if i < len(pk.CompiledGoFiles) && isMockFileName(pk.CompiledGoFiles[i]) {
				continue
			}
			ast.Inspect(f, func(nd ast.Node) bool {
				cl, ok := nd.(*ast.CompositeLit)
				if !ok {
					return true
				}
				tv, ok := pk.TypesInfo.Types[cl]
				if !ok || tv.Type == nil || !strings.HasSuffix(tv.Type.String(), "metrics.Metadata") {
					return true
				}
				name, typ := "", ""
				for _, e := range cl.Elts {
					kv, ok := e.(*ast.KeyValueExpr)
					if !ok {
						continue
					}
					switch types.ExprString(kv.Key) {
					case "Name":
						if s, ok := constLabel(pk.TypesInfo, kv.Value); ok {
							name = s
						}
					case "Type":
						typ = types.ExprString(kv.Value)
						typ = typ[strings.LastIndex(typ, ".")+1:]
					}
				}
				if name != "" && typ != "" && !strings.HasPrefix(name, "_") {
					if old, dup := registered[name]; dup && old != typ {
						c.Violate(r2, "registration:"+name, x.PosOf(cl.Pos()), "metric "+name+" is registered as "+old+" ("+regPos[name]+") and as "+typ)
					}
					registered[name] = typ
					regPos[name] = x.PosOf(cl.Pos())
				}
				return true
			})
		}
	}
	c.Info["registered_constant_names"] = len(registered)
	family := map[string]string{"Increment": "Counter", "Count": "Counter", "Gauge": "Gauge", "Histogram": "Histogram", "Up": "UpDown", "Down": "UpDown"}
	seen := map[string]bool{}
	for _, f := range x.RepoFuncs() {
		eng.Instrs(f, func(in ssa.Instruction) {
			cl, ok := in.(ssa.CallInstruction)
			if !ok {
				return
			}
			nm := eng.CalleeName(cl)
			if !strings.HasPrefix(nm, "(metrics.Metrics).") && !strings.HasPrefix(nm, "(metrics.MetricsBackend).") {
				return
			}
			op := eng.MethodBase(nm)
			want, ok := family[op]
			if !ok {
				return
			}
			args := eng.CallArgs(cl)
			if len(args) == 0 {
				return
			}
			name, ok := eng.ConstString(args[0])
			if !ok {
				return
			}
			c.Examined++
			typ, isReg := registered[name]
			key := name + ":" + op
			if seen[key] {
				return
			}
			seen[key] = true
			if !isReg {
				return // recorded without constant-name registration (prefix idiom or unregistered): not decidable here
			}
			c.Decide(typ == want, r2, key, x.Pos(in), "registered "+typ+", recorded with "+op,
				"metric "+name+" is registered as "+typ+" ("+regPos[name]+") but recorded with "+op+" (the "+want+" family): the value goes into a cell that Get() never reads for this metric and the Prometheus child drops it on its type assertion")
		})
	}
	c.Min(r2, 60)
}

func isDoublePkg(rel string) bool {
	return strings.HasPrefix(rel, "cmd/test_redimem") || strings.HasPrefix(rel, "internal/redimem") || strings.HasPrefix(rel, "smoke-test") || rel == "test" || strings.HasPrefix(rel, "test/")
}

func isMockFileName(name string) bool {
	b := strings.ToLower(name[strings.LastIndex(name, "/")+1:])
	return strings.HasPrefix(b, "mock") || strings.Contains(b, "_mock") || strings.HasSuffix(b, "mock.go")
}
