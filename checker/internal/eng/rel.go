package eng

import (
	"go/token"

	"golang.org/x/tools/go/ssa"
)

// E9 – comparison normaliser. A relation between two symbolic quantities is a
// subset of {LT, EQ, GT}; a test `a OP b` folds to True when the assumed
// relation is contained in OP's set, to False when disjoint, Unknown otherwise.

type RelSet uint8

const (
	LT RelSet = 1 << iota
	EQ
	GT
)

func RelOf(s string) RelSet {
	switch s {
	case "<":
		return LT
	case "<=":
		return LT | EQ
	case ">":
		return GT
	case ">=":
		return GT | EQ
	case "==":
		return EQ
	case "!=":
		return LT | GT
	}
	return LT | EQ | GT
}

func (r RelSet) String() string {
	switch r {
	case LT:
		return "<"
	case LT | EQ:
		return "<="
	case GT:
		return ">"
	case GT | EQ:
		return ">="
	case EQ:
		return "=="
	case LT | GT:
		return "!="
	}
	return "?"
}

func (r RelSet) Flip() RelSet {
	var o RelSet
	if r&LT != 0 {
		o |= GT
	}
	if r&GT != 0 {
		o |= LT
	}
	if r&EQ != 0 {
		o |= EQ
	}
	return o
}

func opSet(op token.Token) (RelSet, bool) {
	switch op {
	case token.LSS:
		return LT, true
	case token.LEQ:
		return LT | EQ, true
	case token.GTR:
		return GT, true
	case token.GEQ:
		return GT | EQ, true
	case token.EQL:
		return EQ, true
	case token.NEQ:
		return LT | GT, true
	}
	return 0, false
}

func foldRel(known, test RelSet) Tri {
	if known&^test == 0 {
		return True
	}
	if known&test == 0 {
		return False
	}
	return Unknown
}

// RelFact: "A rel B" where A and B are recognised by predicates on SSA values
// (conversions are looked through). BConst, when non-nil, makes B the integer constant.
type RelFact struct {
	A      func(ssa.Value) bool
	B      func(ssa.Value) bool
	BConst *int64
	Rel    RelSet
}

func stripConv(v ssa.Value) ssa.Value {
	for {
		switch x := v.(type) {
		case *ssa.Convert:
			v = x.X
		case *ssa.ChangeType:
			v = x.X
		default:
			return v
		}
	}
}

// EvalRel folds a comparison BinOp under a set of relational facts.
func EvalRel(v ssa.Value, facts []RelFact) Tri {
	b, ok := v.(*ssa.BinOp)
	if !ok {
		return Unknown
	}
	test, ok := opSet(b.Op)
	if !ok {
		return Unknown
	}
	x, y := stripConv(b.X), stripConv(b.Y)
	for _, f := range facts {
		isB := func(v ssa.Value) bool {
			if f.BConst != nil {
				c, ok := ConstInt(v)
				return ok && c == *f.BConst
			}
			return f.B != nil && f.B(v)
		}
		if f.A(x) && isB(y) {
			if t := foldRel(f.Rel, test); t != Unknown {
				return t
			}
		}
		if f.A(y) && isB(x) {
			if t := foldRel(f.Rel.Flip(), test); t != Unknown {
				return t
			}
		}
		// constant shifted by one: A >= 1 is A > 0 for integers
		if f.BConst != nil {
			if f.A(x) {
				if c, ok := ConstInt(y); ok {
					if t := foldShift(f.Rel, *f.BConst, test, c); t != Unknown {
						return t
					}
				}
			}
			if f.A(y) {
				if c, ok := ConstInt(x); ok {
					if t := foldShift(f.Rel, *f.BConst, test.Flip(), c); t != Unknown {
						return t
					}
				}
			}
		}
	}
	return Unknown
}

// foldShift: known "A rel k"; test "A op c" for integers.
func foldShift(known RelSet, k int64, test RelSet, c int64) Tri {
	// represent known as an interval [lo, hi] where possible
	const inf = int64(1) << 62
	lo, hi := -inf, inf
	switch known {
	case GT:
		lo = k + 1
	case GT | EQ:
		lo = k
	case LT:
		hi = k - 1
	case LT | EQ:
		hi = k
	case EQ:
		lo, hi = k, k
	default:
		return Unknown
	}
	// test set over A vs c
	all, none := true, true
	check := func(a int64) {
		var r RelSet
		switch {
		case a < c:
			r = LT
		case a == c:
			r = EQ
		default:
			r = GT
		}
		if r&test != 0 {
			none = false
		} else {
			all = false
		}
	}
	// sample the boundary points and c±1
	for _, a := range []int64{lo, hi, c - 1, c, c + 1} {
		if a >= lo && a <= hi {
			check(a)
		}
	}
	if lo == -inf {
		check(-inf + 1)
	}
	if hi == inf {
		check(inf - 1)
	}
	if all && !none {
		return True
	}
	if none && !all {
		return False
	}
	return Unknown
}

// TimeCmp describes a time.Time comparison call normalised to "X rel Y" when the call returns true.
type TimeCmp struct {
	Call *ssa.Call
	X, Y ssa.Value
	Rel  RelSet
}

// NormTimeCmp recognises (time.Time).Before/After/Equal/Compare-free calls.
func NormTimeCmp(v ssa.Value) (TimeCmp, bool) {
	c, ok := v.(*ssa.Call)
	if !ok {
		return TimeCmp{}, false
	}
	var rel RelSet
	switch CalleeName(c) {
	case "(time.Time).Before":
		rel = LT
	case "(time.Time).After":
		rel = GT
	case "(time.Time).Equal":
		rel = EQ
	default:
		return TimeCmp{}, false
	}
	if len(c.Call.Args) != 2 {
		return TimeCmp{}, false
	}
	return TimeCmp{Call: c, X: c.Call.Args[0], Y: c.Call.Args[1], Rel: rel}, true
}

// StripConv removes conversions.
func StripConv(v ssa.Value) ssa.Value { return stripConv(v) }
