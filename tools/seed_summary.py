#!/usr/bin/env python3
"""Prints the DESIGN.md §8 table from /verif/seeded/*/meta.json (run tools/seed_verify.py --recheck first)."""
import json, glob, os, re
rows = []
for d in sorted(glob.glob('/verif/seeded/*/')):
    m = json.load(open(d + 'meta.json'))
    name = m['seed']
    notes = open(d + 'NOTES.md').read() if os.path.exists(d + 'NOTES.md') else ''
    title = next((l.strip('# ').strip() for l in notes.splitlines() if l.strip()), '')
    title = re.sub(r'^' + re.escape(name) + r'\s*[:–-]\s*', '', title)
    own = [f['key'] for f in m.get('checks_fired', []) if f['property'] == m['property']]
    other = [f['key'] for f in m.get('checks_fired', []) if f['property'] != m['property']]
    rows.append((name, m['property'], title[:110].replace('|', '/'), own, other, m.get('steps', {}).get('patch_applies_on_head', True)))
print('| seed | what it does | caught by (own property) | also reported by |')
print('|---|---|---|---|')
caught = own_caught = na = 0
for name, prop, title, own, other, applies in rows:
    if not applies:
        na += 1
        continue_count = True
    if own: own_caught += 1
    if own or other: caught += 1
    o = ', '.join(sorted(set(k.split('/')[0] for k in own))) or ('— (patch does not apply on the fixed tree)' if not applies else '**not caught**')
    x = ', '.join(sorted(set(k.split('/')[0] for k in other)))
    print(f'| {name} | {title} | {o} | {x} |')
print()
print(f'{len(rows)} confirmed seeded changes ({na} of them do not apply on the repaired tree and cannot be re-checked); {own_caught} caught by a check of their own property, {caught} by some check.')
