package rules

import (
	"encoding/json"
	"fmt"
	"go/types"
	"reflect"
	"strconv"
	"strings"
	"time"

	"golang.org/x/tools/go/ssa"

	"refcheck/internal/eng"
)

func init() { Register("C29", c29) }

type cfgField struct {
	Path  string // Group.Field (yaml names)
	GoTyp types.Type
	Tag   reflect.StructTag
	Var   *types.Var
}

// walkConfig enumerates the leaf fields of the configuration struct by yaml name.
func walkConfig(t types.Type, prefix string, out *[]cfgField, allTypes map[string]types.Type, depth int) {
	st, ok := t.Underlying().(*types.Struct)
	if !ok || depth > 4 {
		return
	}
	for i := 0; i < st.NumFields(); i++ {
		f := st.Field(i)
		tag := reflect.StructTag(st.Tag(i))
		name := strings.Split(tag.Get("yaml"), ",")[0]
		if name == "" {
			name = f.Name()
		}
		if name == "-" {
			continue
		}
		p := name
		if prefix != "" {
			p = prefix + "." + name
		}
		allTypes[typeString(f.Type())] = f.Type()
		if _, isStruct := f.Type().Underlying().(*types.Struct); isStruct && typeString(f.Type()) != "time.Time" {
			walkConfig(f.Type(), p, out, allTypes, depth+1)
			continue
		}
		*out = append(*out, cfgField{p, f.Type(), tag, f})
	}
}

func normDefault(v any) string {
	switch x := v.(type) {
	case nil:
		return ""
	case bool:
		if x {
			return "true"
		}
		return "" // false is the zero value
	case int:
		if x == 0 {
			return ""
		}
		return strconv.Itoa(x)
	case float64:
		if x == 0 {
			return ""
		}
		return strconv.FormatFloat(x, 'f', -1, 64)
	case string:
		return normDefaultString(x)
	case []any:
		if len(x) == 0 {
			return ""
		}
		var parts []string
		for _, e := range x {
			parts = append(parts, fmt.Sprint(e))
		}
		return "[" + strings.Join(parts, ",") + "]"
	case map[string]any:
		if len(x) == 0 {
			return ""
		}
	}
	return fmt.Sprint(v)
}

func normDefaultString(s string) string {
	t := strings.TrimSpace(s)
	switch strings.ToLower(t) {
	case "", "0", "false", "0s", "[]", "{}":
		return ""
	case "true":
		return "true"
	}
	if d, err := time.ParseDuration(t); err == nil {
		if d == 0 {
			return ""
		}
		return "dur:" + d.String()
	}
	u := strings.ReplaceAll(t, "_", "")
	if n, err := strconv.ParseInt(u, 10, 64); err == nil {
		return strconv.FormatInt(n, 10)
	}
	if strings.HasPrefix(t, "[") {
		var arr []any
		if json.Unmarshal([]byte(t), &arr) == nil {
			return normDefault(arr)
		}
	}
	return t
}

func c29(x *Ctx) {
	c := x.C
	c.Explanation = "C29 (documented precedence and env expansion): decides by exhaustive table joins over the configuration struct, its tags, the CmdEnv struct and configMeta.yaml that (1) every cmdenv tag names CmdEnv fields of identical type (and slices have a delimiter), so the reflection code's 'programming error' arms are unreachable and the flag/env value really lands in the field; (2) the environment variable and flag documented for a setting are the ones wired to it, in the documented order; (3) documented defaults equal the defaults in code; (4) every field type of the configuration struct is matched by an arm of the env-expansion type switch – none falls to the 'unsupported' arm, and string-carrying types are not in a do-nothing arm; (5) load → defaults → flags/env → expansion happen in that order, and validation applies the same steps."
	c.NotCovered = "go-flags' own flag-over-env precedence (library), merging of several config files (values), and the expansion of ${VAR} inside strings (value-level)."
	cfgT := x.P.Named("config", "configContents")
	cmdT := x.P.Named("config", "CmdEnv")
	if cfgT == nil || cmdT == nil {
		c.Unresolved("C29.cmdenv-names", "config.configContents/CmdEnv", "configuration struct types not found")
		return
	}
	var fields []cfgField
	allTypes := map[string]types.Type{}
	walkConfig(cfgT, "", &fields, allTypes, 0)
	cmdFields := map[string]cfgField{}
	cst := cmdT.Underlying().(*types.Struct)
	for i := 0; i < cst.NumFields(); i++ {
		cmdFields[cst.Field(i).Name()] = cfgField{cst.Field(i).Name(), cst.Field(i).Type(), reflect.StructTag(cst.Tag(i)), cst.Field(i)}
	}
	c.Info["config_fields"] = len(fields)
	pos := func(f cfgField) string { return x.PosOf(f.Var.Pos()) }

	// ---- 1. cmdenv tags ----------------------------------------------------------------------
	const r1 = "C29.cmdenv-names"
	for _, f := range fields {
		tag := f.Tag.Get("cmdenv")
		if tag == "" {
			continue
		}
		for _, name := range strings.Split(tag, ",") {
			c.Examined++
			cf, ok := cmdFields[name]
			switch {
			case !ok:
				c.Violate(r1, f.Path+"→"+name, pos(f), "cmdenv tag names '"+name+"', which is not a field of CmdEnv: loading any configuration fails with a 'programming error', or the flag/env value never reaches the setting")
			case !types.Identical(cf.GoTyp, f.GoTyp):
				c.Violate(r1, f.Path+"→"+name, pos(f), "types differ: setting is "+typeString(f.GoTyp)+", CmdEnv."+name+" is "+typeString(cf.GoTyp)+" – applying a flag/env value aborts startup")
			case isSliceType(f.GoTyp) && cf.Tag.Get("env-delim") == "":
				c.Violate(r1, f.Path+"→"+name, pos(f), "slice-valued CmdEnv."+name+" has no env-delim: applying it aborts startup")
			default:
				c.Hold(r1, f.Path+"→"+name, pos(f), "names an identically typed CmdEnv field")
			}
		}
	}
	c.Min(r1, 15)

	// ---- 2./3. documentation joins -------------------------------------------------------------------
	const r2 = "C29.documented-env-and-flag"
	const r3 = "C29.documented-default"
	meta := x.loadMeta(r2, "config/metadata/configMeta.yaml")
	byPath := map[string]cfgField{}
	for _, f := range fields {
		byPath[f.Path] = f
	}
	if meta != nil {
		nDoc := 0
		removedGroup := map[string]bool{}
		for _, g := range meta.Groups {
			if g.LastVersion != "" {
				removedGroup[g.Name] = true
			}
		}
		for _, mf := range meta.AllFields() {
			if mf.LastVersion != "" || removedGroup[mf.Group] {
				continue // removed option, documented for the converter only
			}
			path := mf.Group + "." + mf.Name
			f, ok := byPath[path]
			if !ok {
				c.Violate("C29.documented-field-exists", path, "config/metadata/configMeta.yaml", "documented setting "+path+" has no field in the configuration struct: a value given for it passes validation and is silently ignored")
				continue
			}
			nDoc++
			// env / flag
			if mf.EnvVar != "" || mf.CommandLine != "" {
				c.Examined++
				var envs, flags []string
				for _, name := range strings.Split(f.Tag.Get("cmdenv"), ",") {
					if cf, ok := cmdFields[name]; ok {
						if e := cf.Tag.Get("env"); e != "" {
							envs = append(envs, e)
						}
						if l := cf.Tag.Get("long"); l != "" {
							flags = append(flags, l)
						}
					}
				}
				wantEnv := splitList(mf.EnvVar)
				wantFlag := splitList(mf.CommandLine)
				okEnv := mf.EnvVar == "" || strings.Join(wantEnv, ",") == strings.Join(envs, ",")
				okFlag := mf.CommandLine == "" || strings.Join(wantFlag, ",") == strings.Join(flags, ",")
				c.Decide(okEnv && okFlag, r2, path, pos(f), "documented env/flag = wired env/flag",
					"documentation says env ["+mf.EnvVar+"] flag ["+mf.CommandLine+"], the code wires env ["+strings.Join(envs, ",")+"] flag ["+strings.Join(flags, ",")+"]: setting the documented variable has no effect")
			}
			// defaults
			c.Examined++
			doc := normDefault(mf.Default)
			_, hasTag := f.Tag.Lookup("default")
			code := normDefaultString(f.Tag.Get("default"))
			if !hasTag {
				code = ""
			}
			required := false
			for _, v := range mf.Validations {
				if v.Type == "required" {
					required = true
				}
			}
			if doc == code {
				c.Hold(r3, path, pos(f), "documented default = default in code ("+doc+")")
			} else if mf.Default == nil {
				c.Hold(r3, path, pos(f), "documentation states no default (code default '"+f.Tag.Get("default")+"')")
			} else if required {
				c.Hold(r3, path, pos(f), "required setting: the documented default is only what generated files start with")
			} else if code == "" && x.getterSuppliesDefault(f, mf.Default) {
				c.Hold(r3, path, pos(f), "documented default supplied by the getter")
			} else {
				c.Violate(r3, path, pos(f), "documented default '"+fmt.Sprint(mf.Default)+"' but the code's default is '"+f.Tag.Get("default")+"': an unset "+path+" behaves differently from what the documentation says")
			}
		}
		c.Info["documented_fields_joined"] = nDoc
		// fields in code without documentation
		docSet := map[string]bool{}
		for _, mf := range meta.AllFields() {
			docSet[mf.Group+"."+mf.Name] = true
		}
		for _, f := range fields {
			if !docSet[f.Path] {
				c.Info["undocumented:"+f.Path] = pos(f)
			}
		}
	}
	c.Min(r3, 100)
	c.Min(r2, 15)

	// ---- 4. expansion exhaustive --------------------------------------------------------------------------
	const r4 = "C29.expansion-exhaustive"
	if ef := x.Fn(r4, "config", "", "expandEnvVarsInConfig"); ef != nil {
		ts := x.switches(x.pkgOf(ef), ef.Syntax(), func(tag string) bool { return strings.HasSuffix(tag, "Interface().(type)") })
		if len(ts) == 0 {
			c.Undecided(r4, "expandEnvVarsInConfig/type-switch", x.PosOf(ef.Pos()), "no type switch on the field value found")
		} else {
			t := ts[0]
			// which clauses do nothing
			noop := map[string]bool{}
			for i, cl := range t.Clauses {
				body := t.Bodies[i]
				if len(body.Body) == 0 {
					for _, l := range cl {
						noop[l] = true
					}
				}
			}
			for name, typ := range allTypes {
				c.Examined++
				_, isStruct := typ.Underlying().(*types.Struct)
				_, has := t.Labels[name]
				carriesString := typeCarriesString(typ)
				switch {
				case has && noop[name] && carriesString:
					c.Violate(r4, name, x.PosOf(t.Pos), "configuration fields of type "+name+" can hold ${VAR} references but are in a do-nothing arm of the expansion switch")
				case has:
					c.Hold(r4, name, x.PosOf(t.Pos), "handled by an arm of the expansion switch")
				case isStruct:
					c.Hold(r4, name, x.PosOf(t.Pos), "struct: expanded recursively")
				default:
					c.Violate(r4, name, x.PosOf(t.Pos), "configuration fields of type "+name+" match no arm of the expansion type switch (a type switch matches exact types only) and fall to the 'unsupported type' arm: ${VAR} references in them are never expanded")
				}
			}
		}
	}
	c.Min(r4, 15)

	// ---- 5. pipeline order and sibling -----------------------------------------------------------------------
	const r5 = "C29.pipeline-order"
	steps := []string{"config.loadConfigsInto", "github.com/creasty/defaults.Set", "(*config.CmdEnv).ApplyTags", "config.expandEnvVarsInConfig"}
	if af := x.Fn(r5, "config", "", "applyConfigInto"); af != nil {
		var seq []ssa.Instruction
		for _, s := range steps {
			cs := callsIn(af, s)
			if len(cs) != 1 {
				c.Violate(r5, "applyConfigInto/"+eng.MethodBase(s), x.PosOf(af.Pos()), sprintf("expected exactly one call of %s, found %d", s, len(cs)))
				seq = nil
				break
			}
			seq = append(seq, cs[0].(ssa.Instruction))
		}
		if seq != nil {
			ok := true
			for i := 0; i+1 < len(seq); i++ {
				if !eng.Dominates(seq[i], seq[i+1]) {
					ok = false
				}
			}
			c.Decide(ok, r5, "applyConfigInto/order", x.PosOf(af.Pos()), "load → defaults → flags/env → ${VAR} expansion", "the configuration pipeline does not run load, defaults, flags/env, expansion in that order: precedence differs from the documentation")
		}
	}
	if vf := x.Fn(r5, "config", "", "validateConfigs"); vf != nil {
		// validation sees flag/env overrides and expansion too
		hasApply := len(callsIn(vf, "(*config.CmdEnv).ApplyTags")) > 0 || len(callsIn(vf, "config.applyCmdEnvTags")) > 0
		hasExpand := len(callsIn(vf, "config.expandEnvVarsInValues")) > 0 || len(callsIn(vf, "config.expandEnvVarsInConfig")) > 0
		c.Decide(hasApply && hasExpand, r5, "validateConfigs/same-steps", x.PosOf(vf.Pos()), "validation applies flags/env and expansion before checking", "validateConfigs does not apply the flag/env overrides and ${VAR} expansion that applyConfigInto applies: what is validated is not what is used")
	}
	c.Min(r5, 2)

	// ---- every step runs on every successful load ----------------------------------------------------------------
	const r6 = "C29.pipeline-unconditional"
	if af := x.P.Func("config", "", "applyConfigInto"); af != nil && af.Blocks != nil {
		for _, step := range steps {
			c.Examined++
			// (the rules files are loaded without options: with opts == nil only the load step is due)
			optsP := param(af, "opts")
			withOpts := &eng.Assume{Nil: func(v ssa.Value) eng.Tri {
				if optsP != nil && v == ssa.Value(optsP) {
					return eng.False
				}
				return eng.Unknown
			}}
			r := eng.Explore(eng.Query{Fn: af, Assume: withOpts, TrackPhi: func(*ssa.Phi) bool { return true }, Classify: func(in ssa.Instruction, _ eng.Facts) eng.Event {
				if _, ok := eng.IsCall(in, step); ok {
					return eng.EvSink
				}
				return eng.EvNone
			}})
			bad := false
			for _, e := range r.Exits {
				ret, isRet := e.Instr.(*ssa.Return)
				if !isRet || len(ret.Results) == 0 || e.Sinks > 0 {
					continue
				}
				// a return that reports an error may stop early
				if e.Facts.Nil(e.Facts.Resolve(ret.Results[len(ret.Results)-1])) == eng.False {
					continue
				}
				bad = true
			}
			c.Decide(!bad, r6, "applyConfigInto/"+eng.MethodBase(step), x.PosOf(af.Pos()), "runs on every successful load",
				"applyConfigInto can succeed without running "+step+" (the step is skipped under some condition): e.g. ${VAR} references in values that came from flags or REFINERY_* variables stay literal although validation saw them expanded")
		}
	}
	c.Min(r6, 4)

	// ---- files are merged in the order of their locations ---------------------------------------------------------
	const r7 = "C29.locations-in-order"
	if gl := x.P.Func("config", "", "getConfigDataForLocations"); gl != nil && gl.Blocks != nil {
		c.Examined++
		bad := ""
		for _, g := range eng.WithAnon(gl) {
			eng.Instrs(g, func(in ssa.Instruction) {
				if _, isGo := in.(*ssa.Go); isGo {
					bad = "a goroutine is started at " + x.Pos(in)
				}
			})
		}
		// the result slice grows inside the loop over the locations, in the loop's own goroutine
		appendInLoop := false
		eng.Instrs(gl, func(in ssa.Instruction) {
			if cl, ok := in.(*ssa.Call); ok {
				if b, ok := cl.Call.Value.(*ssa.Builtin); ok && b.Name() == "append" && loopHeader(in) != nil {
					appendInLoop = true
				}
			}
		})
		if bad == "" && !appendInLoop {
			bad = "the results are not appended inside the loop over the locations"
		}
		c.Decide(bad == "", r7, "getConfigDataForLocations", x.PosOf(gl.Pos()), "locations are read one after the other and appended in that order",
			"the configuration sources are not collected strictly in the order of the configured locations ("+bad+"): 'later files override earlier ones' then depends on which source answers first")
	}

	// ---- a flag / environment value replaces what the files said ------------------------------------------------------
	const r8 = "C29.override-replaces"
	if at := x.P.Func("config", "", "applyCmdEnvTags"); at != nil && at.Blocks != nil {
		// from the point where a non-empty override value passed the type check, the field is Set on every path
		// that goes on to the next field (errors may return)
		var typeCmp ssa.Instruction
		eng.Instrs(at, func(in ssa.Instruction) {
			if cl, ok := in.(*ssa.Call); ok && eng.CalleeName(cl) == "(reflect.Value).Type" && typeCmp == nil {
				// value.Type() – the type agreement test follows it
				if loopHeader(in) != nil {
					typeCmp = in
				}
			}
		})
		if typeCmp == nil {
			c.Undecided(r8, "applyCmdEnvTags", x.PosOf(at.Pos()), "cannot find the point where an override value has been accepted")
		} else {
			c.Examined++
			inner := loopHeader(typeCmp)
			// the loop over the struct's fields is the enclosing loop of the tag loop
			r := eng.Explore(eng.Query{Fn: at, Start: typeCmp, Classify: func(in ssa.Instruction, _ eng.Facts) eng.Event {
				if _, ok := eng.IsCall(in, "(reflect.Value).Set"); ok {
					return eng.EvKill
				}
				// leaving the tag loop towards the recursion into the field = done with this field
				if cl, ok := in.(*ssa.Call); ok && cl.Call.StaticCallee() == at {
					return eng.EvSink
				}
				if inner != nil && in == inner.Instrs[0] {
					return eng.EvKill // next tag of the same field: judged again from there
				}
				return eng.EvNone
			}})
			c.Decide(len(r.Hits) == 0, r8, "applyCmdEnvTags", x.Pos(typeCmp), "an accepted override value is Set on the field on every path",
				"after a flag / environment value for a field has been found and type-checked, a path finishes the field without Set-ting it (e.g. the value is merged into what the file had): the file then wins over the command line or the environment for that field")
		}
	}
}

func splitList(s string) []string {
	var out []string
	for _, p := range strings.FieldsFunc(s, func(r rune) bool { return r == ',' || r == ' ' }) {
		out = append(out, strings.TrimLeft(p, "-"))
	}
	return out
}

func isSliceType(t types.Type) bool { _, ok := t.Underlying().(*types.Slice); return ok }

func typeCarriesString(t types.Type) bool {
	switch u := t.Underlying().(type) {
	case *types.Basic:
		return u.Info()&types.IsString != 0
	case *types.Slice:
		return typeCarriesString(u.Elem())
	case *types.Map:
		return typeCarriesString(u.Elem())
	case *types.Interface:
		return true
	}
	return false
}

// getterSuppliesDefault: a getter of fileConfig reads the field and substitutes a constant when it is zero.
func (x *Ctx) getterSuppliesDefault(f cfgField, docDefault any) bool {
	want := normDefault(docDefault)
	found := false
	for _, fn := range x.PkgFuncs("config") {
		if found {
			break
		}
		reads := false
		eng.Instrs(fn, func(in ssa.Instruction) {
			if v, ok := in.(ssa.Value); ok {
				if fr, _, ok := eng.FieldRefOf(v); ok && fr.Var == f.Var {
					reads = true
				}
			}
		})
		if !reads {
			continue
		}
		eng.Instrs(fn, func(in ssa.Instruction) {
			var ops []*ssa.Value
			for _, op := range in.Operands(ops) {
				if k, ok := (*op).(*ssa.Const); ok && k.Value != nil {
					s := k.Value.ExactString()
					if str, ok := eng.ConstString(k); ok {
						s = str
					}
					if normDefaultString(s) == want {
						found = true
					}
					// durations are int64 nanoseconds
					if n, ok := eng.ConstInt(k); ok && "dur:"+time.Duration(n).String() == want {
						found = true
					}
				}
			}
		})
	}
	return found
}
