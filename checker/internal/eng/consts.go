package eng

import (
	"go/constant"

	"golang.org/x/tools/go/ssa"
)

func constantStringVal(c *ssa.Const) string {
	if c.Value.Kind() == constant.String {
		return constant.StringVal(c.Value)
	}
	return c.Value.ExactString()
}

// ConstInt returns the integer value of a constant SSA value.
func ConstInt(v ssa.Value) (int64, bool) {
	c, ok := v.(*ssa.Const)
	if !ok || c.Value == nil {
		return 0, false
	}
	if c.Value.Kind() == constant.Int {
		i, ok := constant.Int64Val(c.Value)
		return i, ok
	}
	if c.Value.Kind() == constant.Float {
		f, _ := constant.Float64Val(c.Value)
		if f == float64(int64(f)) {
			return int64(f), true
		}
	}
	return 0, false
}

// ConstFloat returns the numeric value of a constant (integer or float kind).
func ConstFloat(v ssa.Value) (float64, bool) {
	c, ok := v.(*ssa.Const)
	if !ok || c.Value == nil {
		return 0, false
	}
	switch c.Value.Kind() {
	case constant.Int, constant.Float:
		f, _ := constant.Float64Val(constant.ToFloat(c.Value))
		return f, true
	}
	return 0, false
}
