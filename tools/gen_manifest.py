#!/usr/bin/env python3
"""Regenerates /verif/MANIFEST.json from tools/claims.json (one entry per claimed property)
and the list of properties in properties.jsonl. Properties without a claim are listed under
not_applicable with the reason recorded in tools/claims.json["not_applicable"] or a default."""
import json, os, sys
V = os.path.dirname(os.path.dirname(os.path.abspath(__file__)))
props = [json.loads(l) for l in open(os.path.join(V, "properties.jsonl"))]
claims = json.load(open(os.path.join(V, "tools", "claims.json")))
checks, na = [], []
for p in props:
    pid = p["id"]
    c = claims["claimed"].get(pid)
    if c is None:
        na.append({"property_id": pid, "reason": claims["not_applicable"].get(pid, "no static rule built yet for this property in this round; see DESIGN.md section 4 for the planned clauses")})
        continue
    checks.append({
        "property_id": pid,
        "quick_cmd": f"./check {pid} quick",
        "thorough_cmd": f"./check {pid} thorough",
        "evidence_file": f"/verif/evidence/{pid}.json",
        "replay_cmd_template": "./check --explain {path}",
        "engine": "refcheck",
        "level_claimed": {"category": "other", "text": c["text"], "design_ref": f"DESIGN.md section 4, {pid}"},
        "level_note": c["note"],
        "technique": c["technique"],
    })
m = {
    "version": 1,
    "setup_cmd": "sh ./setup.sh",
    "hooks": {"guard": "verif", "enable": "none needed: static analysis reads the source; no instrumentation is compiled into /repo",
              "baseline_off_cmd": "cd /repo && go test -mod=mod -vet=off -count=1 -timeout 25m ./...",
              "source_commits": claims.get("hook_commits", []), "add_only": True},
    "engines": [{"name": "refcheck", "path": "/verif/checker", "serves_properties": [c["property_id"] for c in checks],
                 "kind_free_text": "repository-specific static analyser: go/packages + go/types + go/ssa + VTA call graph; path engine with assumptions, provenance dataflow, who-may-call/write, table agreement (YAML metadata, struct tags, switch cases, templates), lock discipline"}],
    "checks": checks,
    "notes": "All claimed properties are decided at level 'other': a statically decided necessary condition (named clauses) of the behavioural property, for every input/schedule at once. Known genuine defects are listed in known_findings.json and printed as KNOWN-FINDING lines.",
    "not_applicable": na,
}
json.dump(m, open(os.path.join(V, "MANIFEST.json"), "w"), indent=1)
print(f"{len(checks)} claimed, {len(na)} not applicable")
