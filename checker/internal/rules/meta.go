package rules

import (
	"fmt"

	"gopkg.in/yaml.v3"
)

// E6 – metadata tables (config/metadata/*.yaml).

type MetaValidation struct {
	Type string `yaml:"type"`
	Arg  any    `yaml:"arg"`
}

type MetaField struct {
	Name         string           `yaml:"name"`
	V1Group      string           `yaml:"v1group"`
	V1Name       string           `yaml:"v1name"`
	FirstVersion string           `yaml:"firstversion"`
	LastVersion  string           `yaml:"lastversion"`
	Type         string           `yaml:"type"`
	ValueType    string           `yaml:"valuetype"`
	Default      any              `yaml:"default"`
	Choices      []string         `yaml:"choices"`
	Example      any              `yaml:"example"`
	Validations  []MetaValidation `yaml:"validations"`
	Reload       *bool            `yaml:"reload"`
	EnvVar       string           `yaml:"envvar"`
	CommandLine  string           `yaml:"commandLine"`
	Unpublished  bool             `yaml:"unpublished"`
	Pattern      string           `yaml:"pattern"`
	Group        string           `yaml:"-"`
	Line         int              `yaml:"-"`
}

type MetaGroup struct {
	Name        string      `yaml:"name"`
	Type        string      `yaml:"type"`
	LastVersion string      `yaml:"lastversion"`
	Fields      []MetaField `yaml:"fields"`
}

type Meta struct {
	Groups []MetaGroup `yaml:"groups"`
}

func (m *Meta) Field(group, name string) *MetaField {
	for gi := range m.Groups {
		if m.Groups[gi].Name != group {
			continue
		}
		for fi := range m.Groups[gi].Fields {
			if m.Groups[gi].Fields[fi].Name == name {
				return &m.Groups[gi].Fields[fi]
			}
		}
	}
	return nil
}

// AllFields returns every field with its group name filled in.
func (m *Meta) AllFields() []*MetaField {
	var out []*MetaField
	for gi := range m.Groups {
		for fi := range m.Groups[gi].Fields {
			f := &m.Groups[gi].Fields[fi]
			f.Group = m.Groups[gi].Name
			out = append(out, f)
		}
	}
	return out
}

func (x *Ctx) loadMeta(rule, rel string) *Meta {
	b, err := x.P.ReadFile(rel)
	if err != nil {
		x.C.Unresolved(rule, rel, "metadata file unreadable: "+err.Error())
		return nil
	}
	var m Meta
	if err := yaml.Unmarshal(b, &m); err != nil {
		x.C.Unresolved(rule, rel, fmt.Sprintf("metadata file does not parse: %v", err))
		return nil
	}
	if len(m.Groups) == 0 {
		x.C.Unresolved(rule, rel, "metadata file has no groups")
		return nil
	}
	return &m
}
