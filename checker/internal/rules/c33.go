package rules

import (
	"go/ast"
	"go/types"
	"strings"

	"golang.org/x/tools/go/ssa"

	"refcheck/internal/eng"
)

func init() { Register("C33", c33) }

func c33(x *Ctx) {
	c := x.C
	c.Explanation = "C33 (the metrics store reports what was recorded): decides (1) value cells of the store are never replaced – the cell maps of MultiMetrics are written only with LoadOrStore, because a plain Store swaps out a live cell (its value, and concurrent increments on the old cell, are lost); samplers and caches re-register their metrics lazily per worker and per reload; (2) kind agreement over the registration tables – every metric registered with a constant name is recorded through the operation family of its registered type (Counter ↔ Increment/Count, Gauge ↔ Gauge, Histogram ↔ Histogram, UpDown ↔ Up/Down); Get() routes by the registered type, so a value recorded through the wrong family lands in a cell Get never reads and is dropped by the Prometheus child."
	c.NotCovered = "arithmetic of concurrent atomic adds (library); metric names computed at run time (prefix + name idioms)."
	// ---- clause 1 ----------------------------------------------------------------------------------
	const r1 = "C33.no-cell-overwrite"
	cells := eng.FieldIs("metrics", "MultiMetrics", "counters", "gauges", "updowns")
	n := 0
	for _, f := range x.PkgFuncs("metrics") {
		eng.Instrs(f, func(in ssa.Instruction) {
			cl, ok := eng.IsCall(in, "(*sync.Map).Store", "(*sync.Map).Swap", "(*sync.Map).LoadOrStore", "(*sync.Map).Delete", "(*sync.Map).Clear")
			if !ok {
				return
			}
			fr, _, ok := eng.FieldRefOf(eng.Receiver(cl))
			if !ok || !cells(fr) {
				return
			}
			n++
			c.Examined++
			name := eng.MethodBase(eng.CalleeName(cl))
			c.Decide(name == "LoadOrStore", r1, BaseName(f)+"/"+fr.Name+"."+name, x.Pos(in), "cell created only if absent",
				"the cell map "+fr.Name+" is written with "+name+": a metric that is registered again (samplers and caches do so per worker and on every reload) gets a fresh cell, so its accumulated value reads as 0 and concurrent updates on the old cell are lost")
		})
	}
	if n == 0 {
		c.Unresolved(r1, "MultiMetrics/cells", "no writes to the cell maps found")
	}
	c.Min(r1, 6)

	// ---- clause 2: kind agreement ---------------------------------------------------------------------
	const r2 = "C33.kind-agreement"
	registered := map[string]string{} // name -> type
	regPos := map[string]string{}
	for _, pk := range x.P.Pkgs {
		rel := strings.TrimPrefix(strings.TrimPrefix(pk.PkgPath, "github.com/honeycombio/refinery"), "/")
		if isDoublePkg(rel) {
			continue
		}
		for i, f := range pk.Syntax {
			if i < len(pk.CompiledGoFiles) && isMockFileName(pk.CompiledGoFiles[i]) {
				continue
			}
			ast.Inspect(f, func(nd ast.Node) bool {
				cl, ok := nd.(*ast.CompositeLit)
				if !ok {
					return true
				}
				tv, ok := pk.TypesInfo.Types[cl]
				if !ok || tv.Type == nil || !strings.HasSuffix(tv.Type.String(), "metrics.Metadata") {
					return true
				}
				name, typ := "", ""
				for _, e := range cl.Elts {
					kv, ok := e.(*ast.KeyValueExpr)
					if !ok {
						continue
					}
					switch types.ExprString(kv.Key) {
					case "Name":
						if s, ok := constLabel(pk.TypesInfo, kv.Value); ok {
							name = s
						}
					case "Type":
						typ = types.ExprString(kv.Value)
						typ = typ[strings.LastIndex(typ, ".")+1:]
					}
				}
				if name != "" && typ != "" && !strings.HasPrefix(name, "_") {
					if old, dup := registered[name]; dup && old != typ {
						c.Violate(r2, "registration:"+name, x.PosOf(cl.Pos()), "metric "+name+" is registered as "+old+" ("+regPos[name]+") and as "+typ)
					}
					registered[name] = typ
					regPos[name] = x.PosOf(cl.Pos())
				}
				return true
			})
		}
	}
	c.Info["registered_constant_names"] = len(registered)
	family := map[string]string{"Increment": "Counter", "Count": "Counter", "Gauge": "Gauge", "Histogram": "Histogram", "Up": "UpDown", "Down": "UpDown"}
	seen := map[string]bool{}
	for _, f := range x.RepoFuncs() {
		eng.Instrs(f, func(in ssa.Instruction) {
			cl, ok := in.(ssa.CallInstruction)
			if !ok {
				return
			}
			nm := eng.CalleeName(cl)
			if !strings.HasPrefix(nm, "(metrics.Metrics).") && !strings.HasPrefix(nm, "(metrics.MetricsBackend).") {
				return
			}
			op := eng.MethodBase(nm)
			want, ok := family[op]
			if !ok {
				return
			}
			args := eng.CallArgs(cl)
			if len(args) == 0 {
				return
			}
			name, ok := eng.ConstString(args[0])
			if !ok {
				return
			}
			c.Examined++
			typ, isReg := registered[name]
			key := name + ":" + op
			if seen[key] {
				return
			}
			seen[key] = true
			if !isReg {
				return // recorded without constant-name registration (prefix idiom or unregistered): not decidable here
			}
			c.Decide(typ == want, r2, key, x.Pos(in), "registered "+typ+", recorded with "+op,
				"metric "+name+" is registered as "+typ+" ("+regPos[name]+") but recorded with "+op+" (the "+want+" family): the value goes into a cell that Get() never reads for this metric and the Prometheus child drops it on its type assertion")
		})
	}
	c.Min(r2, 60)
}

func isDoublePkg(rel string) bool {
	return strings.HasPrefix(rel, "cmd/test_redimem") || strings.HasPrefix(rel, "internal/redimem") || strings.HasPrefix(rel, "smoke-test") || rel == "test" || strings.HasPrefix(rel, "test/")
}

func isMockFileName(name string) bool {
	b := strings.ToLower(name[strings.LastIndex(name, "/")+1:])
	return strings.HasPrefix(b, "mock") || strings.Contains(b, "_mock") || strings.HasSuffix(b, "mock.go")
}
