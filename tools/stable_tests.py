#!/usr/bin/env python3
"""Runs the repository test suite (minus the redis-dependent pubsub package, which hangs offline) in a
worktree and reports which of the pinned stable-pass tests (BASELINE.json) did not pass.
usage: stable_tests.py <worktree> [pkg ...]      exit 0 iff every stable test that ran passed and none is missing"""
import json, subprocess, sys, os
wt = sys.argv[1]
pkgs = sys.argv[2:]
base = json.load(open("/root/.vp/BASELINE.json"))
stable = set(base["stable_pass"])
env = dict(os.environ, GOFLAGS="-mod=mod")
if not pkgs:
    out = subprocess.run(["go", "list", "./..."], cwd=wt, env=env, capture_output=True, text=True).stdout.split()
    pkgs = [p for p in out if not p.endswith("/pubsub") and "LICENSES" not in p]
res = {}
def run(pk, par):
    p = subprocess.run(["go", "test", "-json", "-vet=off", "-count=1", "-timeout", "10m", "-p", str(par)] + pk, cwd=wt, env=env, capture_output=True, text=True)
    failed = set()
    for line in p.stdout.splitlines():
        try:
            e = json.loads(line)
        except Exception:
            continue
        if e.get("Action") in ("pass", "fail", "skip") and e.get("Test"):
            k = e["Package"] + "::" + e["Test"]
            if res.get(k) != "pass":
                res[k] = e["Action"]
        if e.get("Action") == "fail":
            failed.add(e.get("Package"))
    return failed
failed = run(pkgs, 4)
# timing-sensitive integration tests fail under load: retry failing packages alone, twice
import time
for attempt in range(4):
    if failed:
        time.sleep(5 * attempt)  # integration tests bind fixed ports; another job may hold them briefly
        failed = run(sorted(failed), 1)
ran_pkgs = set(pkgs)
bad = sorted(t for t in stable if t.split("::")[0] in ran_pkgs and res.get(t) != "pass")
print(f"stable tests in scope: {sum(1 for t in stable if t.split('::')[0] in ran_pkgs)}, not passing: {len(bad)}")
for t in bad[:40]:
    print("  NOT PASSING:", t, res.get(t, "missing"))
sys.exit(1 if bad else 0)
