package rules

import (
	"go/token"
	"go/types"
	"strings"

	"golang.org/x/tools/go/ssa"

	"refcheck/internal/eng"
)

func init() { Register("C30", c30) }

// C30 – liveness and readiness follow subsystem reports.
//
// The timing half of the property ("shorter than timeout minus one tick is never
// dead, longer than timeout plus one tick is dead") quantifies over schedules
// against a clock and is not decided. What is decided are the structural
// necessary conditions of the bookkeeping it rests on, and the whole of the
// readiness sentence, which is a statement about what the code looks at.
func c30(x *Ctx) {
	c := x.C
	c.Explanation = "C30 (liveness and readiness follow subsystem reports): decides the bookkeeping the property rests on – Register starts a subsystem unready with a 'not yet reported' (negative) counter; a report from a registered subsystem records the ready flag, re-arms the counter from the subsystem's own timeout and marks it alive, on every path; a report from a subsystem that has unregistered (or never registered) changes nothing; Unregister leaves a permanent 'not ready' entry and nothing ever deletes from the readiness map; the ticker decrements by exactly the ticker's own period, only positive counters, and clamps at zero; checkAlive answers false exactly on a zero counter; checkReady answers false when nobody registered, when any counter is not positive, and when any recorded flag is false; the /alive and /ready handlers answer 503 exactly when the health object says no."
	c.NotCovered = "the timing clause itself (a report interval shorter than timeout − tick is never dead, longer than timeout + tick is dead) – it quantifies over report schedules against a clock; the values of the timeouts subsystems register with."
	const pkg = "internal/health"
	// The four maps of Health are identified by what the code does with them, not by their names (a rename of an
	// unexported field must not change the verdict):
	//   timeouts – map[string]Duration that Register fills from its Duration parameter
	//   timeLeft – the other map[string]Duration (the counters)
	//   readies  – map[string]bool that Ready fills from its bool parameter
	//   alives   – the other map[string]bool
	role := map[string]string{}
	if hn := x.P.Named(pkg, "Health"); hn != nil {
		if st, ok := hn.Underlying().(*types.Struct); ok {
			var durMaps, boolMaps []string
			for i := 0; i < st.NumFields(); i++ {
				if m, ok := st.Field(i).Type().Underlying().(*types.Map); ok {
					switch m.Elem().String() {
					case "time.Duration":
						durMaps = append(durMaps, st.Field(i).Name())
					case "bool":
						boolMaps = append(boolMaps, st.Field(i).Name())
					}
				}
			}
			fromParam := func(fn string, names []string) string {
				f := x.P.Func(pkg, "Health", fn)
				found := ""
				if f == nil {
					return ""
				}
				eng.Instrs(f, func(in ssa.Instruction) {
					mu, ok := in.(*ssa.MapUpdate)
					if !ok {
						return
					}
					if _, isP := mu.Value.(*ssa.Parameter); !isP {
						return
					}
					for _, n := range names {
						if loadsField(mu.Map, eng.FieldIs(pkg, "Health", n)) {
							found = n
						}
					}
				})
				return found
			}
			other := func(names []string, not string) string {
				if len(names) == 2 && not != "" {
					if names[0] == not {
						return names[1]
					}
					return names[0]
				}
				return ""
			}
			role["timeouts"] = fromParam("Register", durMaps)
			role["timeLeft"] = other(durMaps, role["timeouts"])
			// readies: the bool map Register initialises (alives is first written by a report), else the one Ready fills from its flag
			if f := x.P.Func(pkg, "Health", "Register"); f != nil {
				eng.Instrs(f, func(in ssa.Instruction) {
					if mu, ok := in.(*ssa.MapUpdate); ok {
						for _, n := range boolMaps {
							if loadsField(mu.Map, eng.FieldIs(pkg, "Health", n)) {
								role["readies"] = n
							}
						}
					}
				})
			}
			if role["readies"] == "" {
				role["readies"] = fromParam("Ready", boolMaps)
			}
			role["alives"] = other(boolMaps, role["readies"])
		}
	}
	for _, r := range []string{"timeouts", "timeLeft", "readies", "alives"} {
		if role[r] == "" {
			c.Unresolved("C30.anchors", "Health."+r, "cannot identify the health map that plays the role of "+r+" (two map[string]time.Duration and two map[string]bool fields, told apart by what Register and Ready store in them)")
		}
	}
	if len(c.Obs) > 0 {
		return
	}
	fld := func(n string) func(eng.FieldRef) bool { return eng.FieldIs(pkg, "Health", role[n]) }
	isUpd := func(in ssa.Instruction, f string) (*ssa.MapUpdate, bool) {
		mu, ok := in.(*ssa.MapUpdate)
		if !ok || !loadsField(mu.Map, fld(f)) {
			return nil, false
		}
		return mu, true
	}
	lookupOK := func(v ssa.Value, f string) bool { // the comma-ok of m[k] on field f
		e, ok := v.(*ssa.Extract)
		if !ok || e.Index != 1 {
			return false
		}
		lk, ok := e.Tuple.(*ssa.Lookup)
		return ok && lk.CommaOk && loadsField(lk.X, fld(f))
	}
	allReturns := func(r *eng.PathResult, want eng.Tri, onlyWithSinks bool) (ok bool, n int) {
		ok = true
		for _, e := range r.Exits {
			ret, isRet := e.Instr.(*ssa.Return)
			if !isRet || len(ret.Results) != 1 {
				continue
			}
			if onlyWithSinks && e.Sinks == 0 {
				continue
			}
			n++
			if e.Facts.Bool(e.Facts.Resolve(ret.Results[0])) != want {
				ok = false
			}
		}
		return
	}
	trackAll := func(*ssa.Phi) bool { return true }

	// ---- Register -------------------------------------------------------------------------------------
	const rReg = "C30.register-starts-unready"
	if f := x.Fn(rReg, pkg, "Health", "Register"); f != nil {
		c.Examined++
		unready, negative := false, false
		eng.Instrs(f, func(in ssa.Instruction) {
			if mu, ok := isUpd(in, "readies"); ok {
				if k, isK := mu.Value.(*ssa.Const); isK && k.Value != nil && k.Value.String() == "false" {
					unready = true
				}
			}
			if mu, ok := isUpd(in, "timeLeft"); ok {
				if k, isK := eng.ConstInt(mu.Value); isK && k < 0 {
					negative = true
				}
			}
		})
		c.Decide(unready && negative, rReg, "Register", x.PosOf(f.Pos()), "registered ⇒ not ready, counter negative (not yet reported)",
			"Register does not start the subsystem as 'not ready' with a negative 'not yet reported' counter: a subsystem that has never reported would count as ready, or as dead at once")
	}

	// ---- Ready ------------------------------------------------------------------------------------------
	const rRep = "C30.report-recorded"
	const rIgn = "C30.report-after-unregister-ignored"
	if f := x.Fn(rRep, pkg, "Health", "Ready"); f != nil && len(f.Params) >= 3 {
		sub, flag := f.Params[1], f.Params[2]
		registered := func(t eng.Tri) *eng.Assume {
			return &eng.Assume{Bool: func(v ssa.Value) eng.Tri {
				if lookupOK(v, "timeouts") {
					return t
				}
				return eng.Unknown
			}}
		}
		type want struct {
			name string
			is   func(in ssa.Instruction) bool
		}
		wants := []want{
			{"flag", func(in ssa.Instruction) bool {
				mu, ok := isUpd(in, "readies")
				return ok && mu.Key == ssa.Value(sub) && mu.Value == ssa.Value(flag)
			}},
			{"counter", func(in ssa.Instruction) bool {
				mu, ok := isUpd(in, "timeLeft")
				if !ok || mu.Key != ssa.Value(sub) {
					return false
				}
				lk, isLk := mu.Value.(*ssa.Lookup)
				return isLk && loadsField(lk.X, fld("timeouts")) && lk.Index == ssa.Value(sub)
			}},
		}
		changed := &eng.Assume{Bool: func(v ssa.Value) eng.Tri {
			if lookupOK(v, "timeouts") {
				return eng.True
			}
			// the recorded flag differs from the reported one (skipping the store when they are equal is harmless)
			if b, ok := v.(*ssa.BinOp); ok && (b.Op == token.NEQ || b.Op == token.EQL) {
				isOld := func(u ssa.Value) bool {
					lk, ok := u.(*ssa.Lookup)
					return ok && loadsField(lk.X, fld("readies"))
				}
				if isOld(b.X) && b.Y == ssa.Value(flag) || isOld(b.Y) && b.X == ssa.Value(flag) {
					return triOf(b.Op == token.NEQ)
				}
			}
			return eng.Unknown
		}}
		for _, w := range wants {
			c.Examined++
			as := registered(eng.True)
			if w.name == "flag" {
				as = changed
			}
			r := eng.Explore(eng.Query{Fn: f, Assume: as, Classify: func(in ssa.Instruction, _ eng.Facts) eng.Event {
				if w.is(in) {
					return eng.EvSink
				}
				return eng.EvNone
			}})
			bad := false
			for _, e := range r.Exits {
				if _, isRet := e.Instr.(*ssa.Return); isRet && e.Sinks == 0 {
					bad = true
				}
			}
			c.Decide(!bad, rRep, "Ready/"+w.name, x.PosOf(f.Pos()), "recorded on every path for a registered subsystem",
				"a report from a registered subsystem can return without recording its "+w.name+" (the ready flag as given / the counter re-armed from the subsystem's own timeout): readiness or liveness no longer follows the reports")
		}
		// alive: on every path either alives[sub] is already true or it is set to true
		c.Examined++
		r := eng.Explore(eng.Query{Fn: f, Assume: &eng.Assume{Bool: func(v ssa.Value) eng.Tri {
			if lookupOK(v, "timeouts") {
				return eng.True
			}
			if lk, ok := v.(*ssa.Lookup); ok && !lk.CommaOk && loadsField(lk.X, fld("alives")) {
				return eng.False // was not alive
			}
			return eng.Unknown
		}}, Classify: func(in ssa.Instruction, _ eng.Facts) eng.Event {
			if mu, ok := isUpd(in, "alives"); ok && mu.Key == ssa.Value(sub) {
				if k, isK := mu.Value.(*ssa.Const); isK && k.Value != nil && k.Value.String() == "true" {
					return eng.EvSink
				}
			}
			return eng.EvNone
		}})
		bad := false
		for _, e := range r.Exits {
			if _, isRet := e.Instr.(*ssa.Return); isRet && e.Sinks == 0 {
				bad = true
			}
		}
		c.Decide(!bad, rRep, "Ready/alive", x.PosOf(f.Pos()), "a report marks a subsystem that was not alive as alive",
			"a report from a subsystem recorded as dead does not mark it alive again on every path: it stays dead although it reports")
		// unregistered ⇒ nothing changes
		c.Examined++
		r = eng.Explore(eng.Query{Fn: f, Assume: registered(eng.False), Classify: func(in ssa.Instruction, _ eng.Facts) eng.Event {
			for _, m := range []string{"readies", "timeLeft", "alives", "timeouts"} {
				if _, ok := isUpd(in, m); ok {
					return eng.EvSink
				}
			}
			return eng.EvNone
		}})
		c.Decide(len(r.Hits) == 0, rIgn, "Ready", x.PosOf(f.Pos()), "a report from an unregistered subsystem changes nothing",
			"a report from a subsystem that has unregistered (or never registered) updates the health maps: an unregistered subsystem can make Refinery ready again, or is tracked for liveness without a timeout")
	}

	// ---- Unregister ---------------------------------------------------------------------------------------
	const rUn = "C30.unregister-sticks"
	if f := x.Fn(rUn, pkg, "Health", "Unregister"); f != nil {
		c.Examined++
		r := eng.Explore(eng.Query{Fn: f, Classify: func(in ssa.Instruction, _ eng.Facts) eng.Event {
			if mu, ok := isUpd(in, "readies"); ok {
				if k, isK := mu.Value.(*ssa.Const); isK && k.Value != nil && k.Value.String() == "false" {
					return eng.EvSink
				}
			}
			return eng.EvNone
		}})
		bad := false
		for _, e := range r.Exits {
			if _, isRet := e.Instr.(*ssa.Return); isRet && e.Sinks == 0 {
				bad = true
			}
		}
		c.Decide(!bad, rUn, "Unregister/not-ready", x.PosOf(f.Pos()), "unregistering records 'not ready'",
			"Unregister does not leave a 'not ready' entry for the subsystem on every path: after a subsystem has unregistered Refinery can still report ready")
		// it stops being tracked for liveness
		gone := map[string]bool{}
		eng.Instrs(f, func(in ssa.Instruction) {
			if cl, ok := in.(*ssa.Call); ok {
				if b, ok := cl.Call.Value.(*ssa.Builtin); ok && b.Name() == "delete" {
					for _, m := range []string{"timeouts", "timeLeft"} {
						if loadsField(cl.Call.Args[0], fld(m)) {
							gone[m] = true
						}
					}
				}
			}
		})
		c.Decide(gone["timeouts"] && gone["timeLeft"], rUn, "Unregister/untracked", x.PosOf(f.Pos()), "timeout and counter removed",
			"Unregister keeps the subsystem's timeout or counter: a component that has shut down on purpose is reported dead when its counter runs out")
	}
	// nothing deletes from (or clears) the readiness map
	for _, f := range x.PkgFuncs(pkg) {
		eng.Instrs(f, func(in ssa.Instruction) {
			cl, ok := in.(*ssa.Call)
			if !ok {
				return
			}
			if b, ok := cl.Call.Value.(*ssa.Builtin); ok && (b.Name() == "delete" || b.Name() == "clear") && len(cl.Call.Args) > 0 && loadsField(cl.Call.Args[0], fld("readies")) {
				c.Violate(rUn, BaseName(f)+"/readies-deleted", x.Pos(in), "an entry is removed from the readiness map: the permanent 'not ready' mark of an unregistered subsystem is lost, so Refinery can report ready after a subsystem has unregistered")
			}
		})
	}
	c.Min(rUn, 2)

	// ---- ticker ----------------------------------------------------------------------------------------------
	const rTick = "C30.tick-decrement"
	if f := x.Fn(rTick, pkg, "Health", "ticker"); f != nil {
		var period ssa.Value
		eng.Instrs(f, func(in ssa.Instruction) {
			if cl, ok := in.(ssa.CallInstruction); ok && strings.HasSuffix(eng.CalleeName(cl), ".NewTicker") {
				if a := eng.CallArgs(cl); len(a) == 1 {
					period = a[0]
				}
			}
		})
		same := func(a, b ssa.Value) bool {
			if a == nil || b == nil {
				return false
			}
			if ka, ok := eng.ConstInt(a); ok {
				kb, ok2 := eng.ConstInt(b)
				return ok2 && ka == kb
			}
			ga, ok1 := a.(*ssa.UnOp)
			gb, ok2 := b.(*ssa.UnOp)
			return ok1 && ok2 && ga.X == gb.X
		}
		// the decrement stored into a counter: `x - period`, possibly wrapped in max(…, 0) (decrement and clamp in one)
		subOf := func(v ssa.Value) (*ssa.BinOp, bool) {
			if bo, ok := v.(*ssa.BinOp); ok && bo.Op == token.SUB {
				return bo, false
			}
			if cl, ok := v.(*ssa.Call); ok {
				if bi, ok := cl.Call.Value.(*ssa.Builtin); ok && bi.Name() == "max" {
					var sub *ssa.BinOp
					zero := false
					for _, a := range cl.Call.Args {
						if bo, ok := a.(*ssa.BinOp); ok && bo.Op == token.SUB {
							sub = bo
						}
						if k, ok := eng.ConstInt(a); ok && k == 0 {
							zero = true
						}
					}
					if sub != nil {
						return sub, zero
					}
				}
			}
			return nil, false
		}
		// the tick's work may be a method the goroutine calls: the decrement is looked for there too
		body := f
		found := false
		eng.Instrs(f, func(in ssa.Instruction) {
			if _, ok := isUpd(in, "timeLeft"); ok {
				found = true
			}
		})
		if !found {
			eng.Instrs(f, func(in ssa.Instruction) {
				if cl, ok := in.(*ssa.Call); ok && !found {
					if g := cl.Call.StaticCallee(); g != nil && g.Blocks != nil && x.P.FuncRel(g) == pkg {
						eng.Instrs(g, func(i2 ssa.Instruction) {
							if _, ok := isUpd(i2, "timeLeft"); ok && !found {
								found, body = true, g
							}
						})
					}
				}
			})
		}
		tickerFn := f
		f = body
		_ = tickerFn
		var decs []*ssa.MapUpdate
		eng.Instrs(f, func(in ssa.Instruction) {
			if mu, ok := isUpd(in, "timeLeft"); ok {
				decs = append(decs, mu)
			}
		})
		nDec := 0
		for _, mu := range decs {
			bo, _ := subOf(mu.Value)
			if bo == nil {
				continue
			}
			nDec++
			c.Examined++
			c.Decide(same(bo.Y, period), rTick, "ticker/amount", x.Pos(mu), "counters go down by the ticker's own period",
				"the health counters are decremented by an amount that is not the period the ticker fires with: subsystems are declared dead earlier or later than their timeout")
		}
		if nDec == 0 {
			c.Undecided(rTick, "ticker/amount", x.PosOf(f.Pos()), "cannot find the counter decrement")
		}
		// only positive counters are decremented (0 = dead and -1 = not yet reported keep their meaning)
		c.Examined++
		r := eng.Explore(eng.Query{Fn: f, Assume: &eng.Assume{Bool: func(v ssa.Value) eng.Tri {
			if b, ok := v.(*ssa.BinOp); ok && strings.HasSuffix(b.X.Type().String(), "time.Duration") {
				if k, isK := eng.ConstInt(b.Y); isK && k == 0 {
					switch b.Op {
					case token.GTR:
						return eng.False // the counter is not positive
					case token.LEQ:
						return eng.True
					}
				}
			}
			return eng.Unknown
		}}, Classify: func(in ssa.Instruction, _ eng.Facts) eng.Event {
			if mu, ok := isUpd(in, "timeLeft"); ok {
				if bo, _ := subOf(mu.Value); bo != nil {
					return eng.EvSink
				}
			}
			return eng.EvNone
		}})
		c.Decide(len(r.Hits) == 0, rTick, "ticker/only-positive", x.PosOf(f.Pos()), "counters that are not positive are left alone",
			"a counter that is zero (dead) or negative (not yet reported) is decremented: a dead subsystem's counter leaves zero and it is reported alive again without having reported")
		// a counter that went below zero is clamped to zero (zero is what checkAlive recognises)
		clamp := false
		for _, mu := range decs {
			if k, ok := eng.ConstInt(mu.Value); ok && k == 0 {
				clamp = true
			}
			if _, clamped := subOf(mu.Value); clamped {
				clamp = true
			}
		}
		c.Decide(clamp, rTick, "ticker/clamp", x.PosOf(f.Pos()), "a counter that passes zero is set to zero",
			"a counter decremented below zero is not clamped to zero: checkAlive only recognises exactly zero, so a subsystem whose timeout is not a multiple of the tick is never reported dead")
	}
	c.Min(rTick, 3)

	// ---- checkAlive ---------------------------------------------------------------------------------------------
	const rAlive = "C30.alive-iff-no-zero-counter"
	if f := x.Fn(rAlive, pkg, "Health", "checkAlive"); f != nil {
		isZeroCmp := func(v ssa.Value) bool {
			b, ok := v.(*ssa.BinOp)
			if !ok || b.Op != token.EQL || !strings.HasSuffix(b.X.Type().String(), "time.Duration") {
				return false
			}
			k, isK := eng.ConstInt(b.Y)
			return isK && k == 0
		}
		for _, sc := range []struct {
			name string
			zero eng.Tri
			want eng.Tri
		}{{"zero-counter", eng.True, eng.False}, {"no-zero-counter", eng.False, eng.True}} {
			c.Examined++
			hit := false
			r := eng.Explore(eng.Query{Fn: f, TrackPhi: trackAll, Assume: &eng.Assume{Bool: func(v ssa.Value) eng.Tri {
				if isZeroCmp(v) {
					return sc.zero
				}
				return eng.Unknown
			}}, Classify: func(in ssa.Instruction, _ eng.Facts) eng.Event {
				if iff, ok := in.(*ssa.If); ok && isZeroCmp(iff.Cond) {
					hit = true
					return eng.EvSink
				}
				return eng.EvNone
			}})
			ok, n := allReturns(r, sc.want, sc.zero == eng.True)
			c.Decide(ok && n > 0 && hit, rAlive, "checkAlive/"+sc.name, x.PosOf(f.Pos()), "answers "+map[eng.Tri]string{eng.True: "alive", eng.False: "dead"}[sc.want],
				"checkAlive does not answer "+map[eng.Tri]string{eng.True: "alive when no counter is zero", eng.False: "dead when a counter is zero"}[sc.want]+": liveness no longer follows the counters the reports maintain")
		}
	}
	c.Min(rAlive, 2)

	// ---- checkReady ----------------------------------------------------------------------------------------------
	const rReady = "C30.ready-requires"
	if f := x.Fn(rReady, pkg, "Health", "checkReady"); f != nil {
		// nobody registered
		c.Examined++
		isEmptyCmp := func(v ssa.Value) bool {
			b, ok := v.(*ssa.BinOp)
			if !ok || b.Op != token.EQL {
				return false
			}
			cl, ok := b.X.(*ssa.Call)
			if !ok {
				return false
			}
			bi, ok := cl.Call.Value.(*ssa.Builtin)
			k, isK := eng.ConstInt(b.Y)
			return ok && bi.Name() == "len" && loadsField(cl.Call.Args[0], fld("readies")) && isK && k == 0
		}
		seen := false
		r := eng.Explore(eng.Query{Fn: f, TrackPhi: trackAll, Assume: &eng.Assume{Bool: func(v ssa.Value) eng.Tri {
			if isEmptyCmp(v) {
				seen = true
				return eng.True
			}
			return eng.Unknown
		}}})
		ok, n := allReturns(r, eng.False, false)
		c.Decide(ok && n > 0 && seen, rReady, "checkReady/nobody-registered", x.PosOf(f.Pos()), "no registered subsystem ⇒ not ready",
			"with no subsystem registered checkReady does not answer 'not ready' on every path")
		// a counter that is not positive: not yet reported (negative) or dead (zero)
		c.Examined++
		isNonPos := func(v ssa.Value) bool {
			b, ok := v.(*ssa.BinOp)
			if !ok || b.Op != token.LEQ || !strings.HasSuffix(b.X.Type().String(), "time.Duration") {
				return false
			}
			k, isK := eng.ConstInt(b.Y)
			return isK && k == 0
		}
		r = eng.Explore(eng.Query{Fn: f, TrackPhi: trackAll, Assume: &eng.Assume{Bool: func(v ssa.Value) eng.Tri {
			if isNonPos(v) {
				return eng.True
			}
			return eng.Unknown
		}}, Classify: func(in ssa.Instruction, _ eng.Facts) eng.Event {
			if iff, ok := in.(*ssa.If); ok && isNonPos(iff.Cond) {
				return eng.EvSink
			}
			return eng.EvNone
		}})
		ok, n = allReturns(r, eng.False, true)
		c.Decide(ok && n > 0, rReady, "checkReady/counter-not-positive", x.PosOf(f.Pos()), "a subsystem that has not reported (or is dead) ⇒ not ready",
			"checkReady does not answer 'not ready' when a registered subsystem's counter is not positive (it has never reported, or it is dead)")
		// a recorded flag that is false
		c.Examined++
		isFlag := func(v ssa.Value) bool {
			e, ok := v.(*ssa.Extract)
			if !ok || e.Index != 2 || e.Type().String() != "bool" {
				return false
			}
			nx, ok := e.Tuple.(*ssa.Next)
			if !ok {
				return false
			}
			rg, ok := nx.Iter.(*ssa.Range)
			return ok && loadsField(rg.X, fld("readies"))
		}
		r = eng.Explore(eng.Query{Fn: f, TrackPhi: trackAll, Assume: &eng.Assume{Bool: func(v ssa.Value) eng.Tri {
			if isFlag(v) {
				return eng.False
			}
			if isNonPos(v) || isEmptyCmp(v) {
				return eng.False
			}
			return eng.Unknown
		}}, Classify: func(in ssa.Instruction, _ eng.Facts) eng.Event {
			if e, ok := in.(*ssa.Extract); ok && isFlag(e) {
				return eng.EvSink
			}
			return eng.EvNone
		}})
		ok, n = allReturns(r, eng.False, true)
		// once a false flag has been seen the answer stays false: the accumulator carried around the loop over the
		// flags, when false, is still false after another iteration whatever that iteration's flag is
		mono := true
		for _, b := range f.Blocks {
			for _, in := range b.Instrs {
				hp, isPhi := in.(*ssa.Phi)
				if !isPhi {
					break
				}
				if hp.Type().String() != "bool" {
					continue
				}
				// a loop-header phi: has an edge from a block it dominates
				for i, pred := range b.Preds {
					if !(pred == b || b.Dominates(pred)) {
						continue
					}
					back := hp.Edges[i]
					rr := eng.Explore(eng.Query{Fn: f, TrackPhi: trackAll, Start: b.Instrs[len(b.Instrs)-1], Assume: &eng.Assume{Bool: func(v ssa.Value) eng.Tri {
						if v == ssa.Value(hp) {
							return eng.False
						}
						return eng.Unknown
					}}, Classify: func(i2 ssa.Instruction, F eng.Facts) eng.Event {
						// evaluated per state (hits are de-duplicated per instruction, states are not)
						if i2 == pred.Instrs[len(pred.Instrs)-1] {
							if F.Bool(F.Resolve(back)) != eng.False {
								mono = false
							}
							return eng.EvKill
						}
						return eng.EvNone
					}})
					_ = rr
				}
			}
		}
		c.Decide(ok && n > 0 && mono, rReady, "checkReady/flag-false", x.PosOf(f.Pos()), "a subsystem recorded as not ready ⇒ not ready",
			"checkReady can answer 'ready' although it has looked at a subsystem whose recorded flag is false (not ready, or unregistered) – e.g. a later subsystem's flag overwrites an earlier false one")
	}
	c.Min(rReady, 3)

	// ---- handlers ------------------------------------------------------------------------------------------------
	const rH = "C30.handler-status"
	for _, h := range []struct{ fn, call string }{{"alive", "IsAlive"}, {"ready", "IsReady"}} {
		f := x.Fn(rH, "route", "Router", h.fn)
		if f == nil {
			continue
		}
		for _, sc := range []struct {
			name string
			val  eng.Tri
		}{{"no", eng.False}, {"yes", eng.True}} {
			c.Examined++
			asked := false
			r := eng.Explore(eng.Query{Fn: f, Assume: &eng.Assume{Bool: func(v ssa.Value) eng.Tri {
				if cl, ok := v.(*ssa.Call); ok && strings.HasSuffix(eng.CalleeName(cl), "."+h.call) {
					asked = true
					return sc.val
				}
				return eng.Unknown
			}}, Classify: func(in ssa.Instruction, _ eng.Facts) eng.Event {
				if cl, ok := eng.IsCall(in, "(net/http.ResponseWriter).WriteHeader"); ok {
					if k, isK := eng.ConstInt(eng.CallArgs(cl)[0]); isK && k == 503 {
						return eng.EvSink
					}
				}
				return eng.EvNone
			}})
			good := true
			n := 0
			for _, e := range r.Exits {
				if _, isRet := e.Instr.(*ssa.Return); !isRet {
					continue
				}
				n++
				if sc.val == eng.False && e.Sinks == 0 || sc.val == eng.True && e.Sinks > 0 {
					good = false
				}
			}
			c.Decide(good && n > 0 && asked, rH, h.fn+"/"+sc.name, x.PosOf(f.Pos()), "503 exactly when the health object says no",
				"the /"+h.fn+" handler does not answer 503 exactly when Health."+h.call+" is false: the orchestrator is told something other than what the health system knows")
		}
	}
	c.Min(rH, 4)
}
