package rules

import (
	"go/token"
	"go/types"
	"strings"

	"golang.org/x/tools/go/ssa"

	"refcheck/internal/eng"
)

func init() { Register("C27", c27) }

func c27(x *Ctx) {
	c := x.C
	c.Explanation = "C27 (reloads apply exactly the acceptable changes): newFileConfig has a two-level result (nil config = rejected; non-nil config with a non-nil error = accepted with warnings). Decides (1) that its callers agree: with a non-nil config and a warning error no caller returns before using the configuration – start-up accepts such a file, so reload must too; (2) in Reload the running configuration and hashes are overwritten only with the freshly validated configuration, only when a hash differs, and the listeners are called after the stores, never when nothing changed; (3) check-then-apply is atomic: the hash comparison and the stores happen under one uninterrupted hold of the configuration lock (timer and pubsub goroutines call Reload concurrently), and the callback list is read under the lock."
	c.NotCovered = "file/URL reading failures and the content of validation itself (C28/C29)."
	const nNew = "config.newFileConfig"
	cfgFuncs := x.PkgFuncs("config")
	// ---- clause 1 ---------------------------------------------------------------------------------
	const r1 = "C27.warnings-accepted"
	for _, s := range eng.CallSites(cfgFuncs, func(n string, _ ssa.CallInstruction) bool { return n == nNew }) {
		c.Examined++
		call := s.Instr.(ssa.CallInstruction)
		cfgs, errs := extractOf(call, 0), extractOf(call, 1)
		as := &eng.Assume{Nil: func(v ssa.Value) eng.Tri {
			for _, e := range cfgs {
				if v == e {
					return eng.False
				}
			}
			for _, e := range errs {
				if v == e {
					return eng.False
				}
			}
			return eng.Unknown
		}}
		usesCfg := func(in ssa.Instruction) bool {
			var ops []*ssa.Value
			for _, op := range in.Operands(ops) {
				for _, e := range cfgs {
					if *op == e {
						if _, isIf := in.(*ssa.If); isIf {
							return false
						}
						if b, isB := in.(*ssa.BinOp); isB && (b.Op == token.EQL || b.Op == token.NEQ) {
							return false // nil test, not a use
						}
						return true
					}
				}
			}
			return false
		}
		r := eng.Explore(eng.Query{Fn: s.Fn, Assume: as, Start: s.Instr, Classify: func(in ssa.Instruction, _ eng.Facts) eng.Event {
			if usesCfg(in) || eng.IsProcessExit(in) {
				return eng.EvKill
			}
			if _, ok := in.(*ssa.Return); ok {
				return eng.EvSink
			}
			return eng.EvNone
		}})
		if len(r.Hits) > 0 {
			o := c.Violate(r1, BaseName(s.Fn), x.Pos(r.Hits[0].Instr), "when validation produces only warnings (non-nil config together with a non-nil error) "+BaseName(s.Fn)+" returns without using the configuration, while start-up accepts the same files: a changed configuration that merely carries a deprecation warning is never applied by reload")
			o.Path = eng.DescribePath(x.P.Pos, r.Hits[0].Path)
		} else {
			c.Hold(r1, BaseName(s.Fn), x.Pos(s.Instr), "warning-only result is used")
		}
	}
	c.Min(r1, 2)

	rl := x.Fn("C27.validated-before-apply", "config", "fileConfig", "Reload")
	if rl == nil {
		return
	}
	fld := func(names ...string) func(eng.FieldRef) bool { return eng.FieldIs("config", "fileConfig", names...) }
	state := fld("mainConfig", "rulesConfig", "mainHash", "rulesHash")
	hashes := fld("mainHash", "rulesHash")
	recv := rl.Params[0]
	onRecv := func(base ssa.Value) bool { return base == ssa.Value(recv) }
	var newCall ssa.CallInstruction
	for _, cl := range callsIn(rl, nNew) {
		newCall = cl
	}
	if newCall == nil {
		c.Violate("C27.validated-before-apply", "Reload/newFileConfig", x.PosOf(rl.Pos()), "Reload does not build the new configuration through newFileConfig (validation is bypassed)")
		return
	}
	fresh := extractOf(newCall, 0)
	// The compare-and-replace critical section may live in Reload itself or in a helper method Reload calls with the
	// fresh configuration (`core`): the rules about the comparison, the stores and the lock are decided inside core;
	// the rules that relate them to validation and to the listeners use the helper's call site in Reload.
	isHashCmp0 := func(v ssa.Value) bool {
		b, ok := v.(*ssa.BinOp)
		if !ok || (b.Op != token.EQL && b.Op != token.NEQ) {
			return false
		}
		return loadsField(b.X, hashes) && loadsField(b.Y, hashes)
	}
	hasCmp := func(f *ssa.Function) bool {
		found := false
		eng.Instrs(f, func(in ssa.Instruction) {
			if v, ok := in.(ssa.Value); ok && isHashCmp0(v) {
				found = true
			}
		})
		return found
	}
	core := rl
	var coreCall *ssa.Call
	bind := map[*ssa.Parameter]ssa.Value{}
	if !hasCmp(rl) {
		eng.Instrs(rl, func(in ssa.Instruction) {
			cl, ok := in.(*ssa.Call)
			if !ok || coreCall != nil {
				return
			}
			g := cl.Call.StaticCallee()
			if g == nil || g.Blocks == nil || x.P.FuncRel(g) != "config" || !hasCmp(g) {
				return
			}
			core, coreCall = g, cl
			for i, p := range g.Params {
				if i < len(cl.Call.Args) {
					bind[p] = cl.Call.Args[i]
				}
			}
		})
	}
	site := func(in ssa.Instruction) ssa.Instruction {
		if coreCall != nil {
			return coreCall
		}
		return in
	}
	if coreCall != nil {
		recv = core.Params[0]
		if bind[recv] != ssa.Value(rl.Params[0]) {
			c.Undecided("C27.validated-before-apply", "Reload/helper-receiver", x.Pos(coreCall), "the compare-and-replace helper is not called on Reload's own receiver")
			return
		}
	}
	fromFresh := func(v ssa.Value) bool {
		_, ok := eng.Derives(v, func(w ssa.Value) bool {
			for _, e := range fresh {
				if w == e {
					return true
				}
			}
			return false
		}, eng.FlowOpts{Callers: func(p *ssa.Parameter) []ssa.Value {
			if a, ok := bind[p]; ok {
				return []ssa.Value{a}
			}
			return nil
		}})
		return ok
	}
	// the helper's "changed" result: the bool result that is constant false on every return under equal hashes
	changedIdx := -1
	// ---- clause 2 --------------------------------------------------------------------------------------
	const r2 = "C27.validated-before-apply"
	var stores []*ssa.Store
	for _, w := range eng.FieldWrites([]*ssa.Function{core}, state) {
		st := w.Instr.(*ssa.Store)
		if _, base, _ := eng.FieldRefOf(st.Addr); !onRecv(base) {
			continue
		}
		stores = append(stores, st)
		c.Examined++
		fr, _, _ := eng.FieldRefOf(st.Addr)
		okVal := fromFresh(st.Val) && eng.Dominates(newCall.(ssa.Instruction), site(st))
		// not reachable when newFileConfig rejected the files
		asRej := &eng.Assume{Nil: func(v ssa.Value) eng.Tri {
			for _, e := range fresh {
				if v == e {
					return eng.True
				}
			}
			if isExtractOf(v, 1, nNew) {
				return eng.False
			}
			return eng.Unknown
		}}
		rr := eng.ReachableSinks(rl, asRej, newCall.(ssa.Instruction), func(in ssa.Instruction) bool { return in == site(st) })
		c.Decide(okVal && len(rr.Hits) == 0, r2, "Reload/"+fr.Name, x.Pos(st), "overwritten only with the freshly validated value", "the running "+fr.Name+" can be overwritten with a value that did not come out of a successful newFileConfig (a rejected configuration is applied)")
	}
	c.Min(r2, 4)
	// hash unchanged ⇒ nothing stored, nobody notified
	const r3 = "C27.only-when-changed"
	isHashCmp := func(v ssa.Value) bool {
		b, ok := v.(*ssa.BinOp)
		if !ok || (b.Op != token.EQL && b.Op != token.NEQ) {
			return false
		}
		return loadsField(b.X, hashes) && loadsField(b.Y, hashes)
	}
	same := &eng.Assume{Bool: func(v ssa.Value) eng.Tri {
		if isHashCmp(v) {
			if v.(*ssa.BinOp).Op == token.EQL {
				return eng.True
			}
			return eng.False
		}
		return eng.Unknown
	}}
	isCallback := func(in ssa.Instruction) bool {
		cl, ok := in.(*ssa.Call)
		if !ok || cl.Call.IsInvoke() || cl.Call.StaticCallee() != nil {
			return false
		}
		isList := func(w ssa.Value) bool {
			if loadsField(w, fld("callbacks")) {
				return true
			}
			// the list handed back by the compare-and-replace helper
			if e, ok := w.(*ssa.Extract); ok && coreCall != nil && e.Tuple == ssa.Value(coreCall) {
				for _, rv := range returnedValues(core, e.Index) {
					if _, d := eng.Derives(rv, func(u ssa.Value) bool { return loadsField(u, fld("callbacks")) }, eng.FlowOpts{}); d {
						return true
					}
				}
			}
			return false
		}
		_, fromList := eng.Derives(cl.Call.Value, isList, eng.FlowOpts{})
		if fromList {
			return true
		}
		// a copy of the list taken earlier
		return rangeElemOf(cl.Call.Value, func(v ssa.Value) bool {
			_, d := eng.Derives(v, isList, eng.FlowOpts{})
			return d
		})
	}
	isStore := func(in ssa.Instruction) bool {
		for _, st := range stores {
			if in == ssa.Instruction(st) {
				return true
			}
		}
		return false
	}
	// what the helper tells Reload: its bool result that is false whenever the hashes are equal and true otherwise
	changedAssume := func(t eng.Tri) *eng.Assume { return same }
	if coreCall != nil {
		res := core.Signature.Results()
		for i := 0; i < res.Len(); i++ {
			if res.At(i).Type().String() != "bool" {
				continue
			}
			rs := eng.Explore(eng.Query{Fn: core, Assume: same, TrackPhi: func(*ssa.Phi) bool { return true }})
			allFalse, n := true, 0
			for _, e := range rs.Exits {
				if ret, ok := e.Instr.(*ssa.Return); ok && i < len(ret.Results) {
					n++
					if e.Facts.Bool(e.Facts.Resolve(ret.Results[i])) != eng.False {
						allFalse = false
					}
				}
			}
			if allFalse && n > 0 {
				changedIdx = i
			}
		}
		if changedIdx < 0 {
			c.Undecided(r3, "Reload/helper-result", x.Pos(coreCall), "the compare-and-replace helper does not report 'unchanged' to Reload through a bool result")
			return
		}
		flags := extractOf(coreCall, changedIdx)
		changedAssume = func(t eng.Tri) *eng.Assume {
			return &eng.Assume{Bool: func(v ssa.Value) eng.Tri {
				for _, f := range flags {
					if v == f {
						return t
					}
				}
				return eng.Unknown
			}}
		}
	}
	r := eng.ReachableSinks(core, same, nil, isStore)
	rcb := eng.ReachableSinks(rl, changedAssume(eng.False), nil, isCallback)
	c.Decide(len(r.Hits) == 0 && len(rcb.Hits) == 0, r3, "Reload/unchanged", x.PosOf(rl.Pos()), "equal hashes ⇒ no store, no notification", "with unchanged hashes Reload still overwrites the configuration or notifies listeners")
	// a difference in either hash alone makes the change applied
	for _, hf := range []string{"mainHash", "rulesHash"} {
		one := fld(hf)
		as := &eng.Assume{
			Bool: func(v ssa.Value) eng.Tri {
				if !isHashCmp(v) {
					return eng.Unknown
				}
				b := v.(*ssa.BinOp)
				differs := loadsField(b.X, one) || loadsField(b.Y, one)
				eq := !differs
				if b.Op == token.NEQ {
					eq = !eq
				}
				if eq {
					return eng.True
				}
				return eng.False
			},
			Nil: func(v ssa.Value) eng.Tri {
				for _, e := range fresh {
					if v == e {
						return eng.False
					}
				}
				return eng.Unknown
			},
		}
		var from ssa.Instruction
		if coreCall == nil {
			from = newCall.(ssa.Instruction)
		}
		rr := eng.Explore(eng.Query{Fn: core, Assume: as, Start: from, Classify: func(in ssa.Instruction, _ eng.Facts) eng.Event {
			if isStore(in) {
				return eng.EvSink
			}
			return eng.EvNone
		}})
		bad := false
		for _, e := range rr.Exits {
			if _, isRet := e.Instr.(*ssa.Return); isRet && e.Sinks == 0 {
				bad = true
			}
		}
		c.Decide(!bad, "C27.applied-when-changed", "Reload/"+hf+"-differs", x.PosOf(rl.Pos()), "a change of "+hf+" alone is applied", "when only "+hf+" differs Reload can return without applying the new configuration: that change is lost until something else changes too")
	}
	// callbacks after the stores
	const r4 = "C27.notify-once"
	var cbCalls []ssa.Instruction
	eng.Instrs(rl, func(in ssa.Instruction) {
		if isCallback(in) {
			cbCalls = append(cbCalls, in)
		}
	})
	if len(cbCalls) != 1 {
		c.Violate(r4, "Reload/callbacks", x.PosOf(rl.Pos()), sprintf("expected exactly one listener-notification site, found %d", len(cbCalls)))
	} else {
		okAfter := len(stores) > 0
		for _, st := range stores {
			if !eng.Dominates(site(st), cbCalls[0]) {
				okAfter = false
			}
		}
		inRange := loopHeader(cbCalls[0]) != nil
		// one call per listener per iteration
		c.Decide(okAfter && inRange, r4, "Reload/callbacks", x.Pos(cbCalls[0]), "every listener is called once, after the new configuration is in place", "listeners are notified before the new configuration is stored (they read the old values), or not in a loop over all listeners")
		// once the new configuration is stored every path reaches the notification loop (no return in between)
		if h := loopHeader(cbCalls[0]); h != nil && len(stores) > 0 {
			var asChanged *eng.Assume
			if coreCall != nil {
				asChanged = changedAssume(eng.True)
			}
			r := eng.Explore(eng.Query{Fn: rl, Assume: asChanged, Start: site(stores[len(stores)-1]), Classify: func(in ssa.Instruction, _ eng.Facts) eng.Event {
				if in == h.Instrs[0] {
					return eng.EvKill
				}
				return eng.EvNone
			}})
			skipped := false
			var path []*ssa.BasicBlock
			for _, e := range r.Exits {
				if _, isRet := e.Instr.(*ssa.Return); isRet {
					skipped, path = true, e.Path
				}
			}
			if skipped {
				o := c.Violate(r4, "Reload/applied-then-notified", x.Pos(cbCalls[0]), "after the new configuration has been stored a path returns without notifying the listeners (e.g. because validation left a warning): the change is applied, components keep running on the old values, and since the hashes have moved no later reload repeats the notification")
				o.Path = eng.DescribePath(x.P.Pos, path)
			} else {
				c.Hold(r4, "Reload/applied-then-notified", x.Pos(cbCalls[0]), "stored ⇒ the notification loop is reached on every path")
			}
		}
	}
	// ---- reload validates exactly as startup does: the same validator with the same arguments -----------------
	// (startup hands the running version to newFileConfig, which turns "removed in version ≤ running" fields into
	// hard errors; a reload that omits it accepts what startup rejects)
	const r7 = "C27.same-validation-as-startup"
	if nfc := x.P.Func("config", "", "newFileConfig"); nfc != nil && nfc.Signature.Variadic() {
		vp := nfc.Params[len(nfc.Params)-1]
		nSites := 0
		for _, e := range x.Callers(nfc) {
			if e.Site == nil {
				continue
			}
			nSites++
			c.Examined++
			args := e.Site.Common().Args
			va := args[len(args)-1]
			caller := e.Caller.Func
			ok, why := false, "passes no version"
			if k, isK := va.(*ssa.Const); !(isK && k.IsNil()) {
				// the version comes from the caller's own parameter (startup) or from a field of the running
				// configuration that was stored from such a parameter
				if _, fromParam := eng.Derives(va, func(v ssa.Value) bool {
					_, isP := v.(*ssa.Parameter)
					return isP && v.Type().String() == vp.Type().String()
				}, eng.FlowOpts{}); fromParam {
					ok = true
				} else if _, fromField := eng.Derives(va, func(v ssa.Value) bool {
					fr, _, isF := eng.LoadedField(v)
					if !isF {
						return false
					}
					for _, w := range eng.FieldWrites(x.PkgFuncs("config"), func(q eng.FieldRef) bool { return q.Var == fr.Var }) {
						if _, d := eng.Derives(w.Instr.(*ssa.Store).Val, func(u ssa.Value) bool { _, isP := u.(*ssa.Parameter); return isP }, eng.FlowOpts{}); d {
							return true
						}
					}
					return false
				}, eng.FlowOpts{}); fromField {
					ok = true
				} else {
					why = "passes a version that does not come from what startup was given"
				}
			}
			c.Decide(ok, r7, BaseName(caller)+"/newFileConfig", x.Pos(e.Site), "validates with the running version, as startup does",
				BaseName(caller)+" "+why+" to newFileConfig: a field whose `lastversion` is at or before the running version is a hard error at startup but only a warning here, so a reload applies a configuration that startup would reject")
		}
		if nSites < 2 {
			c.Undecided(r7, "newFileConfig/callers", x.PosOf(nfc.Pos()), "expected the startup and the reload call site of newFileConfig")
		}
	}

	// ---- the periodic trigger keeps firing --------------------------------------------------------------------
	const r6 = "C27.timer-keeps-firing"
	if mon := x.Fn(r6, "internal/configwatcher", "ConfigWatcher", "monitor"); mon != nil {
		n := 0
		for _, l := range serviceLoops(mon) {
			for b := range l.Blocks {
				for _, in := range b.Instrs {
					sel, ok := in.(*ssa.Select)
					if !ok {
						continue
					}
					for idx, st := range sel.States {
						if st.Dir != types.RecvOnly {
							continue
						}
						// a channel read from the C field of a time.Ticker / time.Timer
						fr, base, ok := eng.LoadedField(st.Chan)
						if !ok || fr.Name != "C" {
							continue
						}
						tname := typeString(base.Type())
						switch {
						case strings.Contains(tname, "time.Ticker"):
							n++
							c.Hold(r6, "monitor/ticker", x.Pos(sel), "a Ticker fires every interval without being re-armed")
						case strings.Contains(tname, "time.Timer"):
							n++
							// from this case every path back to the loop head re-arms the timer
							as := &eng.Assume{Bool: func(v ssa.Value) eng.Tri {
								if bo, ok := v.(*ssa.BinOp); ok && bo.Op == token.EQL {
									if e, ok := bo.X.(*ssa.Extract); ok && e.Tuple == ssa.Value(sel) && e.Index == 0 {
										if k, ok := eng.ConstInt(bo.Y); ok {
											return triOf(int(k) == idx)
										}
									}
								}
								return eng.Unknown
							}}
							r := eng.Explore(eng.Query{Fn: mon, Assume: as, Start: sel, Classify: func(i2 ssa.Instruction, _ eng.Facts) eng.Event {
								if cl, ok := i2.(ssa.CallInstruction); ok && eng.CalleeName(cl) == "(*time.Timer).Reset" {
									return eng.EvKill
								}
								if i2 == l.Header.Instrs[0] {
									return eng.EvSink
								}
								return eng.EvNone
							}})
							c.Decide(len(r.Hits) == 0, r6, "monitor/timer", x.Pos(sel), "the timer is re-armed on every path back to the wait",
								"the reload timer is a one-shot time.Timer and some path from its case back to the select (e.g. the error branch) does not Reset it: after one failed reload the periodic trigger never fires again, so a repaired configuration is never applied")
						}
					}
				}
			}
		}
		if n == 0 {
			c.Undecided(r6, "monitor", x.PosOf(mon.Pos()), "cannot find the periodic reload trigger (a Ticker or Timer channel in the watcher's select loop)")
		}
	}
	// ---- clause 3: atomic check-then-apply ---------------------------------------------------------------
	const r5 = "C27.atomic-check-then-apply"
	rlAndCore := []*ssa.Function{rl}
	if core != rl {
		rlAndCore = append(rlAndCore, core)
	}
	mux := fld("mux")
	var cmps []ssa.Instruction
	eng.Instrs(core, func(in ssa.Instruction) {
		if v, ok := in.(ssa.Value); ok && isHashCmp(v) {
			cmps = append(cmps, in)
		}
	})
	if len(cmps) == 0 {
		c.Violate(r5, "Reload/hash-comparison", x.PosOf(rl.Pos()), "Reload does not compare the new hashes with the current ones")
	}
	for _, cmp := range cmps {
		c.Examined++
		locked := wlockedAt(cmp, mux)
		// no unlock between the comparison and the stores
		interrupted := false
		if locked {
			rr := eng.Explore(eng.Query{Fn: core, Start: cmp, Classify: func(in ssa.Instruction, _ eng.Facts) eng.Event {
				for _, st := range stores {
					if in == ssa.Instruction(st) {
						return eng.EvSink
					}
				}
				return eng.EvNone
			}})
			for _, h := range rr.Hits {
				if !wlockedAt(h.Instr, mux) {
					interrupted = true
				}
			}
			// an Unlock strictly between comparison and a store
			for _, st := range stores {
				eng.Instrs(core, func(in ssa.Instruction) {
					if cl, ok := eng.IsCall(in, "(*sync.RWMutex).Unlock", "(*sync.Mutex).Unlock"); ok {
						if _, isDefer := in.(*ssa.Defer); isDefer {
							return
						}
						if fr, _, ok := eng.FieldRefOf(eng.Receiver(cl)); ok && mux(fr) && eng.MayPrecede(cmp, in) && eng.MayPrecede(in, st) && eng.Dominates(cmp, st) {
							interrupted = true
						}
					}
				})
			}
		}
		c.Decide(locked && !interrupted, r5, "Reload/hash-comparison", x.Pos(cmp), "hashes compared and configuration replaced under one hold of the write lock",
			"the current hashes are compared outside the configuration lock (or the lock is released before the stores): two concurrent Reload calls (timer goroutine and a pubsub message) can both see 'changed', apply the same change twice and notify every listener twice")
	}
	// callbacks list read under the lock
	for _, a := range eng.FieldAccesses(rlAndCore, fld("callbacks")) {
		c.Decide(lockedAt(a.Instr, mux), r5, "Reload/callbacks-read", x.Pos(a.Instr), "listener list read under the lock", "the listener list is read without the lock while RegisterReloadCallback may append to it")
	}
	c.Min(r5, 2)
}
