// Package report holds obligations, verdicts, known findings and the evidence writer.
package report

import (
	"encoding/json"
	"fmt"
	"os"
	"path/filepath"
	"sort"
	"strings"
	"time"
)

type Verdict string

const (
	Holds      Verdict = "holds"
	Violation  Verdict = "violation"
	Undecided  Verdict = "undecided"
	Unresolved Verdict = "anchor-unresolved"
)

// Obligation is one rule instance.
type Obligation struct {
	Key     string  `json:"key"`  // rule/function/construct – never a line number
	Rule    string  `json:"rule"` // rule id, e.g. C23.return-after-error
	Pos     string  `json:"pos"`  // file:line of the construct (diagnostic only)
	Verdict Verdict `json:"verdict"`
	Detail  string  `json:"detail,omitempty"`
	Path    string  `json:"path,omitempty"` // for path rules: entry -> offending exit
	Known   bool    `json:"known_finding,omitempty"`
}

// Check accumulates the obligations of one property run.
type Check struct {
	Property    string
	Obs         []Obligation
	Examined    int            // constructs examined (call sites, stores, closures, rows…)
	Info        map[string]any // extra evidence keys
	Minimum     map[string]int // rule -> minimum instance count confirmed by hand
	Explanation string
	NotCovered  string
	Assumptions []string
	seen        map[string]int
}

func NewCheck(prop string) *Check {
	return &Check{Property: prop, Info: map[string]any{}, Minimum: map[string]int{}, seen: map[string]int{}}
}

func (c *Check) add(rule, key, pos string, v Verdict, detail string) *Obligation {
	full := rule + "/" + key
	c.seen[full]++
	if n := c.seen[full]; n > 1 {
		full = fmt.Sprintf("%s#%d", full, n)
	}
	c.Obs = append(c.Obs, Obligation{Key: full, Rule: rule, Pos: pos, Verdict: v, Detail: detail})
	return &c.Obs[len(c.Obs)-1]
}

func (c *Check) Hold(rule, key, pos, detail string) { c.add(rule, key, pos, Holds, detail) }
func (c *Check) Violate(rule, key, pos, detail string) *Obligation {
	return c.add(rule, key, pos, Violation, detail)
}
func (c *Check) Undecided(rule, key, pos, detail string) { c.add(rule, key, pos, Undecided, detail) }
func (c *Check) Unresolved(rule, key, detail string)     { c.add(rule, key, "?", Unresolved, detail) }

// Decide records holds/violation from a boolean.
func (c *Check) Decide(ok bool, rule, key, pos, okDetail, badDetail string) {
	if ok {
		c.Hold(rule, key, pos, okDetail)
	} else {
		c.Violate(rule, key, pos, badDetail)
	}
}

// Min declares the minimum number of instances a rule must produce.
func (c *Check) Min(rule string, n int) { c.Minimum[rule] = n }

// KnownFindings is the committed file /verif/known_findings.json.
type KnownFindings struct {
	Findings []struct {
		Property string `json:"property"`
		Key      string `json:"key"`
		What     string `json:"what"`
	} `json:"findings"`
	Fixed []string `json:"fixed"`
}

func LoadKnown(path string) (*KnownFindings, error) {
	k := &KnownFindings{}
	b, err := os.ReadFile(path)
	if err != nil {
		if os.IsNotExist(err) {
			return k, nil
		}
		return nil, err
	}
	if err := json.Unmarshal(b, k); err != nil {
		return nil, fmt.Errorf("%s: %w", path, err)
	}
	return k, nil
}

// Result of finishing a check.
type Result struct {
	Violations int
	Known      int
	ExitCode   int
}

// Finish applies minimum-instance rules and known findings, prints the report,
// writes evidence and the replay report, and returns the exit code.
func (c *Check) Finish(verifDir, tier string, seed int64, t0 time.Time, kf *KnownFindings, extra map[string]any) Result {
	// minimum instance counts: a rule matching too few sites must not pass vacuously
	counts := map[string]int{}
	for _, o := range c.Obs {
		counts[o.Rule]++
	}
	var rules []string
	for r := range c.Minimum {
		rules = append(rules, r)
	}
	sort.Strings(rules)
	for _, r := range rules {
		if counts[r] < c.Minimum[r] {
			c.add(r, "instance-count", "?", Unresolved,
				fmt.Sprintf("rule matched %d instances, expected at least %d (a rule that matches nothing must not pass vacuously)", counts[r], c.Minimum[r]))
		}
	}
	known := map[string]string{}
	if kf != nil {
		for _, f := range kf.Findings {
			if f.Property == c.Property {
				known[f.Key] = f.What
			}
		}
	}
	res := Result{}
	var bad []Obligation
	holds := 0
	for i := range c.Obs {
		o := &c.Obs[i]
		switch o.Verdict {
		case Holds:
			holds++
		case Violation:
			if what, ok := known[o.Key]; ok {
				o.Known = true
				res.Known++
				fmt.Printf("KNOWN-FINDING: property=%s %s: %s (%s)\n", c.Property, o.Key, what, o.Pos)
				continue
			}
			bad = append(bad, *o)
		default:
			bad = append(bad, *o)
		}
	}
	res.Violations = len(bad)
	ruleCount := map[string][2]int{}
	for _, o := range c.Obs {
		rc := ruleCount[o.Rule]
		rc[0]++
		if o.Verdict == Holds {
			rc[1]++
		}
		ruleCount[o.Rule] = rc
	}
	var rs []string
	for r := range ruleCount {
		rs = append(rs, r)
	}
	sort.Strings(rs)
	fmt.Printf("%s %s: %d obligations, %d hold, %d known findings, %d failing; %d constructs examined\n",
		c.Property, tier, len(c.Obs), holds, res.Known, len(bad), c.Examined)
	for _, r := range rs {
		fmt.Printf("  rule %-42s %3d instances, %3d hold\n", r, ruleCount[r][0], ruleCount[r][1])
	}
	if os.Getenv("REFCHECK_VERBOSE") != "" {
		for _, o := range c.Obs {
			fmt.Printf("  %-9s %s at %s: %s\n", o.Verdict, o.Key, o.Pos, o.Detail)
		}
	}
	reportPath := ""
	if len(bad) > 0 {
		os.MkdirAll(filepath.Join(verifDir, "reports"), 0o755)
		reportPath = filepath.Join(verifDir, "reports", fmt.Sprintf("%s-%s.json", c.Property, tier))
		b, _ := json.MarshalIndent(map[string]any{"property": c.Property, "tier": tier, "failing": bad}, "", " ")
		os.WriteFile(reportPath, b, 0o644)
		for _, o := range bad {
			fmt.Printf("  %s %s at %s: %s\n", strings.ToUpper(string(o.Verdict)), o.Key, o.Pos, o.Detail)
			if o.Path != "" {
				fmt.Printf("      path: %s\n", o.Path)
			}
		}
		for _, o := range bad {
			reason := ""
			if o.Verdict != Violation {
				reason = " reason=" + string(o.Verdict)
			}
			fmt.Printf("VIOLATION property=%s replay=%s key=%s%s\n", c.Property, reportPath, o.Key, reason)
		}
		res.ExitCode = 1
	}

	// evidence
	samples := []any{}
	pick := func(o Obligation) {
		samples = append(samples, map[string]any{"key": o.Key, "pos": o.Pos, "verdict": o.Verdict, "detail": o.Detail, "known_finding": o.Known})
	}
	perRule := map[string]int{}
	for _, o := range c.Obs {
		if o.Verdict != Holds || perRule[o.Rule] < 2 {
			if len(samples) < 60 {
				pick(o)
			}
			perRule[o.Rule]++
		}
	}
	distinct := map[string]bool{}
	for _, o := range c.Obs {
		distinct[o.Key] = true
	}
	rulesOut := map[string]any{}
	for _, r := range rs {
		rulesOut[r] = map[string]int{"instances": ruleCount[r][0], "hold": ruleCount[r][1], "minimum": c.Minimum[r]}
	}
	expl := c.Explanation
	if c.NotCovered != "" {
		expl += " NOT COVERED: " + c.NotCovered
	}
	cov := map[string]any{
		"explanation":         expl,
		"obligations":         len(c.Obs),
		"discharged":          holds,
		"known_findings":      res.Known,
		"evaluations":         max(c.Examined, len(c.Obs)),
		"distinct_nontrivial": len(distinct),
		"rule":                "one obligation per (rule, function, construct) found by resolving the rule's anchors through go/types and go/ssa on /repo's working tree; distinct = distinct obligation keys",
		"samples":             samples,
		"rules":               rulesOut,
		"checker_cmd":         fmt.Sprintf("./check %s %s", c.Property, tier),
		"trusted_base":        []string{"go/types", "golang.org/x/tools/go/ssa", "golang.org/x/tools/go/callgraph/vta", "gopkg.in/yaml.v3", "rule tables in /verif/checker/internal/rules"},
	}
	for k, v := range c.Info {
		cov[k] = v
	}
	for k, v := range extra {
		cov[k] = v
	}
	ev := map[string]any{
		"property_id": c.Property,
		"tier":        tier,
		"seed":        seed,
		"level":       "other",
		"coverage":    cov,
		"assumptions": append([]string{"the Go toolchain's type checker and x/tools' SSA construction are faithful to the source", "test doubles in non-test files (mock*.go, internal/redimem, smoke-test, test) carry no obligations"}, c.Assumptions...),
		"wall_s":      time.Since(t0).Seconds(),
		"violations":  len(bad),
	}
	os.MkdirAll(filepath.Join(verifDir, "evidence"), 0o755)
	b, _ := json.MarshalIndent(ev, "", " ")
	if err := os.WriteFile(filepath.Join(verifDir, "evidence", c.Property+".json"), b, 0o644); err != nil {
		fmt.Fprintln(os.Stderr, "cannot write evidence:", err)
		res.ExitCode = 2
	}
	return res
}
