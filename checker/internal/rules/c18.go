package rules

import (
	"go/constant"
	"go/token"
	"go/types"
	"strings"

	"golang.org/x/tools/go/ssa"

	"refcheck/internal/eng"
)

func init() { Register("C18", c18) }

// C18 – Redis peer membership converges.
//
// Convergence itself quantifies over histories of delay, reordering, crash and
// expiry across processes and is not decided. Decided are the per-node
// necessary conditions without which no history converges to the live set.
func c18(x *Ctx) {
	c := x.C
	c.Explanation = "C18 (Redis peer membership converges): decides the per-node necessary conditions of convergence – membership is keyed by instance ID, so that a late unregister of an old instance cannot remove a newer one at the same address: a register message sets, and an unregister message deletes, exactly the entry of the ID it carries; entries live in a TTL map built with PeerEntryTimeout; the periodic re-registration interval including its jitter is shorter than PeerEntryTimeout (so a live node never expires) and publishes this node's own address and instance ID; on shutdown the refresh goroutine publishes an unregister for the same ID on every path out of its loop; the actions the decoder accepts are exactly the actions the encoder emits; listeners are notified exactly when the hash of the sorted member list changed."
	c.NotCovered = "convergence within the stated bound over histories of message delay, reordering, crash and expiry; exact round-trip of the message codec for every address/ID string (value-level; reading shows an address containing a comma does not round-trip because the decoder splits at the first comma)."
	const pkg = "internal/peer"
	peersF := eng.FieldIs(pkg, "RedisPubsubPeers", "peers")
	isMapCall := func(in ssa.Instruction, m string) (ssa.CallInstruction, bool) {
		cl, ok := in.(ssa.CallInstruction)
		if !ok {
			return nil, false
		}
		n := eng.CalleeName(cl)
		if !strings.HasPrefix(n, "(*generics.MapWithTTL") || !strings.HasSuffix(n, ")."+m) {
			return nil, false
		}
		rv := eng.Receiver(cl)
		return cl, rv != nil && loadsField(rv, peersF)
	}
	cmdField := func(v ssa.Value, name string) bool {
		fr, _, ok := eng.LoadedField(v)
		return ok && fr.Name == name && fr.Struct != nil && fr.Struct.Obj().Name() == "peerCommand"
	}

	// ---- listen ------------------------------------------------------------------------------------------
	const rL = "C18.keyed-by-instance-id"
	if f := x.Fn(rL, pkg, "RedisPubsubPeers", "listen"); f != nil {
		nSet, nDel := 0, 0
		eng.Instrs(f, func(in ssa.Instruction) {
			if cl, ok := isMapCall(in, "Set"); ok {
				nSet++
				c.Examined++
				a := eng.CallArgs(cl)
				c.Decide(len(a) == 2 && cmdField(a[0], "id") && cmdField(a[1], "address"), rL, "listen/register", x.Pos(in), "register ⇒ Set(message id, message address)",
					"a register message does not store the message's address under the message's instance ID: with entries keyed by anything else, a late unregister of an old instance removes a newer instance at the same address (or two instances collapse into one entry)")
			}
			if cl, ok := isMapCall(in, "Delete"); ok {
				nDel++
				c.Examined++
				a := eng.CallArgs(cl)
				c.Decide(len(a) == 1 && cmdField(a[0], "id"), rL, "listen/unregister", x.Pos(in), "unregister ⇒ Delete(message id)",
					"an unregister message does not delete exactly the entry of the instance ID it carries")
			}
		})
		if nSet == 0 || nDel == 0 {
			c.Undecided(rL, "listen", x.PosOf(f.Pos()), "cannot find where register/unregister messages update the member map")
		}
		// dispatch: under action == Register only Set is reachable, under Unregister only Delete
		for _, sc := range []struct{ act, want, other string }{{"Register", "Set", "Delete"}, {"Unregister", "Delete", "Set"}} {
			actVal, okc := x.constStr(rL, pkg, sc.act)
			if !okc {
				continue
			}
			c.Examined++
			as := &eng.Assume{Bool: func(v ssa.Value) eng.Tri {
				b, ok := v.(*ssa.BinOp)
				if !ok || b.Op != token.EQL {
					return eng.Unknown
				}
				if cmdField(b.X, "action") {
					if k, ok := eng.ConstString(b.Y); ok {
						return triOf(k == actVal)
					}
				}
				return eng.Unknown
			}}
			r := eng.ReachableSinks(f, as, nil, func(in ssa.Instruction) bool { _, ok := isMapCall(in, sc.other); return ok })
			r2 := eng.ReachableSinks(f, as, nil, func(in ssa.Instruction) bool { _, ok := isMapCall(in, sc.want); return ok })
			c.Decide(len(r.Hits) == 0 && len(r2.Hits) > 0, rL, "listen/dispatch-"+sc.act, x.PosOf(f.Pos()), sc.act+" ⇒ "+sc.want+" only",
				"a "+sc.act+" message does not lead to "+sc.want+" (and only "+sc.want+") on the member map")
		}
	}
	c.Min(rL, 4)

	// ---- every accepted message ends in the change check (expiries are only noticed there) ----------------------
	const rH = "C18.message-then-check"
	if f := x.P.Func(pkg, "RedisPubsubPeers", "listen"); f != nil && f.Blocks != nil {
		c.Examined++
		as := &eng.Assume{Bool: func(v ssa.Value) eng.Tri {
			if cl, ok := v.(*ssa.Call); ok && strings.HasSuffix(eng.CalleeName(cl), "peerCommand).unmarshal") {
				return eng.True
			}
			return eng.Unknown
		}}
		r := eng.Explore(eng.Query{Fn: f, Assume: as, Classify: func(in ssa.Instruction, _ eng.Facts) eng.Event {
			if cl, ok := in.(ssa.CallInstruction); ok && strings.HasSuffix(eng.CalleeName(cl), "RedisPubsubPeers).checkHash") {
				return eng.EvSink
			}
			return eng.EvNone
		}})
		bad := false
		var path []*ssa.BasicBlock
		for _, e := range r.Exits {
			if _, isRet := e.Instr.(*ssa.Return); isRet && e.Sinks == 0 {
				bad, path = true, e.Path
			}
		}
		if bad {
			o := c.Violate(rH, "listen", x.PosOf(f.Pos()), "a membership message that parsed can be handled without the change check (checkHash): entries only expire lazily when the list is read there, so in a quiet cluster – where refreshes of known peers are the only traffic – a crashed peer drops out of the map but the listeners (sharder, samplers) are never told")
			o.Path = eng.DescribePath(x.P.Pos, path)
		} else {
			c.Hold(rH, "listen", x.PosOf(f.Pos()), "parsed message ⇒ checkHash on every path")
		}
	}

	// ---- TTL and refresh interval -------------------------------------------------------------------------------
	const rT = "C18.refresh-faster-than-expiry"
	timeout, okT := lookupIntConst(x, pkg, "PeerEntryTimeout")
	refresh, okR := lookupIntConst(x, pkg, "refreshCacheInterval")
	if !okT || !okR {
		c.Unresolved(rT, pkg+".PeerEntryTimeout/refreshCacheInterval", "the two interval constants were not found")
	} else {
		if st := x.Fn(rT, pkg, "RedisPubsubPeers", "Start"); st != nil {
			c.Examined++
			ok := false
			eng.Instrs(st, func(in ssa.Instruction) {
				if cl, isC := in.(*ssa.Call); isC && strings.HasPrefix(eng.CalleeName(cl), "generics.NewMapWithTTL") && len(cl.Call.Args) >= 1 {
					if k, isK := eng.ConstInt(cl.Call.Args[0]); isK && k == timeout {
						ok = true
					}
				}
			})
			c.Decide(ok, rT, "Start/ttl", x.PosOf(st.Pos()), "member entries expire after PeerEntryTimeout", "the member map is not built with PeerEntryTimeout as its entry lifetime")
		}
		if rd := x.Fn(rT, pkg, "RedisPubsubPeers", "Ready"); rd != nil {
			// the refresh ticker's interval: constant + rand.Int63n(bound) – maximum = constant + bound − 1
			var loops []*ssa.Function
			loops = append(loops, rd)
			loops = append(loops, rd.AnonFuncs...)
			found := false
			for _, g := range loops {
				eng.Instrs(g, func(in ssa.Instruction) {
					cl, ok := in.(ssa.CallInstruction)
					if !ok || !strings.HasSuffix(eng.CalleeName(cl), ".NewTicker") {
						return
					}
					a := eng.CallArgs(cl)[0]
					// which ticker drives the Register publication? the one whose channel case reaches Publish
					max, known := maxDuration(a)
					if !known {
						return
					}
					// only the ticker built from refreshCacheInterval is the refresh ticker
					if _, d := eng.Derives(a, func(v ssa.Value) bool { k, ok := eng.ConstInt(v); return ok && k == refresh }, eng.FlowOpts{}); !d {
						return
					}
					found = true
					c.Examined++
					c.Decide(max < timeout, rT, "Ready/interval", x.Pos(in), sprintf("longest refresh interval %dms < entry lifetime %dms", max/1e6, timeout/1e6),
						sprintf("the re-registration interval can be as long as %dms, which is not shorter than the entry lifetime of %dms: a live node that publishes on time still expires from its peers' lists", max/1e6, timeout/1e6))
				})
			}
			if !found {
				c.Undecided(rT, "Ready/interval", x.PosOf(rd.Pos()), "cannot find the refresh ticker built from refreshCacheInterval")
			}
		}
	}
	c.Min(rT, 2)

	// ---- what is published ------------------------------------------------------------------------------------------
	const rP = "C18.publishes-own-identity"
	idF := eng.FieldIs(pkg, "RedisPubsubPeers", "InstanceID")
	nPub := 0
	for _, f := range x.PkgFuncs(pkg) {
		if !strings.Contains(FName(f), "RedisPubsubPeers") {
			continue
		}
		eng.Instrs(f, func(in ssa.Instruction) {
			cl, ok := in.(*ssa.Call)
			if !ok || eng.CalleeName(cl) != pkg+".newPeerCommand" || len(cl.Call.Args) != 3 {
				return
			}
			nPub++
			c.Examined++
			addrOK := x.mustDerive(cl.Call.Args[1], func(v ssa.Value) bool { return isExtractOf(v, 0, pkg+".publicAddr") })
			idOK := loadsField(cl.Call.Args[2], idF)
			act, _ := eng.ConstString(cl.Call.Args[0])
			c.Decide(addrOK && idOK, rP, BaseName(eng.Root(f))+"/"+act, x.Pos(in), "publishes this node's public address under its own instance ID",
				"a membership message is not built from this node's public address and its own instance ID: peers register or remove the wrong entry")
		})
	}
	c.Min(rP, 2)

	// ---- unregister on shutdown -----------------------------------------------------------------------------------------
	const rS = "C18.unregister-on-stop"
	if rd := x.Fn(rS, pkg, "RedisPubsubPeers", "Ready"); rd != nil {
		doneF := eng.FieldIs(pkg, "RedisPubsubPeers", "Done")
		n := 0
		for _, g := range rd.AnonFuncs {
			eng.Instrs(g, func(in ssa.Instruction) {
				sel, ok := in.(*ssa.Select)
				if !ok {
					return
				}
				for idx, st := range sel.States {
					if st.Dir != types.RecvOnly || !loadsField(st.Chan, doneF) {
						continue
					}
					n++
					c.Examined++
					as := &eng.Assume{Bool: func(v ssa.Value) eng.Tri {
						if bo, ok := v.(*ssa.BinOp); ok && bo.Op == token.EQL {
							if e, ok := bo.X.(*ssa.Extract); ok && e.Tuple == ssa.Value(sel) && e.Index == 0 {
								if k, ok := eng.ConstInt(bo.Y); ok {
									return triOf(int(k) == idx)
								}
							}
						}
						return eng.Unknown
					}}
					r := eng.Explore(eng.Query{Fn: g, Assume: as, Start: sel, Classify: func(i2 ssa.Instruction, _ eng.Facts) eng.Event {
						if cl, ok := i2.(*ssa.Call); ok {
							if cal := cl.Call.StaticCallee(); cal != nil && publishesUnregister(x, cal, 2) {
								return eng.EvSink
							}
						}
						return eng.EvNone
					}})
					bad := false
					for _, e := range r.Exits {
						if _, isRet := e.Instr.(*ssa.Return); isRet && e.Sinks == 0 {
							bad = true
						}
					}
					c.Decide(!bad && len(r.Exits) > 0, rS, "Ready/done", x.Pos(sel), "Done ⇒ an unregister message is published before the goroutine ends",
						"when the node is told to stop, the refresh goroutine can end without publishing an unregister message: peers keep routing traces to the stopped node until its entry expires")
				}
			})
		}
		if n == 0 {
			c.Undecided(rS, "Ready/done", x.PosOf(rd.Pos()), "cannot find the Done case of the refresh goroutine")
		}
	}
	c.Min(rS, 1)

	// ---- codec action tables ------------------------------------------------------------------------------------------
	const rC = "C18.codec-actions-agree"
	if um := x.Fn(rC, pkg, "peerCommand", "unmarshal"); um != nil {
		c.Examined++
		accepted := map[string]bool{}
		eng.Instrs(um, func(in ssa.Instruction) {
			if b, ok := in.(*ssa.BinOp); ok && b.Op == token.EQL {
				if k, ok := eng.ConstString(b.Y); ok && len(k) == 1 && strings.HasSuffix(b.X.Type().String(), "peerAction") {
					accepted[k] = true
				}
			}
		})
		emitted := map[string]bool{}
		pk := x.P.ByRel[pkg]
		if pk != nil {
			sc := pk.Types.Scope()
			for _, n := range sc.Names() {
				if k, ok := sc.Lookup(n).(*types.Const); ok && strings.HasSuffix(k.Type().String(), "peerAction") && k.Val().Kind() == constant.String {
					emitted[constant.StringVal(k.Val())] = true
				}
			}
		}
		same := len(accepted) == len(emitted) && len(emitted) > 0
		for k := range emitted {
			if !accepted[k] {
				same = false
			}
		}
		c.Decide(same, rC, "unmarshal/actions", x.PosOf(um.Pos()), sprintf("decoder accepts exactly the %d declared actions", len(emitted)),
			sprintf("the decoder accepts actions %v but the declared (emitted) actions are %v: a membership message some node sends is dropped by its peers", keys(accepted), keys(emitted)))
	}

	// ---- the decoder hands back pieces of the message, untouched ---------------------------------------------------------
	const rV = "C18.codec-fields-verbatim"
	if um := x.P.Func(pkg, "peerCommand", "unmarshal"); um != nil && um.Blocks != nil && len(um.Params) >= 2 {
		msg := um.Params[1]
		var verbatim func(v ssa.Value) bool
		verbatim = func(v ssa.Value) bool {
			switch y := v.(type) {
			case *ssa.Parameter:
				return y == msg
			case *ssa.Slice:
				return verbatim(y.X)
			case *ssa.Phi:
				for _, e := range y.Edges {
					if !verbatim(e) {
						return false
					}
				}
				return len(y.Edges) > 0
			}
			return false
		}
		n := 0
		eng.Instrs(um, func(in ssa.Instruction) {
			st, ok := in.(*ssa.Store)
			if !ok {
				return
			}
			fr, _, ok := eng.FieldRefOf(st.Addr)
			if !ok || fr.Struct == nil || fr.Struct.Obj().Name() != "peerCommand" || st.Val.Type().String() != "string" {
				return
			}
			n++
			c.Examined++
			c.Decide(verbatim(st.Val), rV, "unmarshal/"+fr.Name, x.Pos(in), "a slice of the received message",
				"the decoded "+fr.Name+" is not a plain slice of the received message (it is transformed on the way): addresses or IDs no longer round-trip, so a node's own refresh overwrites its entry with a different string and peers disagree with the node about its identity")
		})
		if n < 2 {
			c.Undecided(rV, "unmarshal", x.PosOf(um.Pos()), "cannot find where the decoder stores address and id")
		}
	}

	// ---- change notification -----------------------------------------------------------------------------------------------
	const rN = "C18.notify-on-change"
	if ch := x.Fn(rN, pkg, "RedisPubsubPeers", "checkHash"); ch != nil {
		hashF := eng.FieldIs(pkg, "RedisPubsubPeers", "hash")
		isChanged := func(v ssa.Value) (bool, token.Token) {
			b, ok := v.(*ssa.BinOp)
			if !ok || (b.Op != token.NEQ && b.Op != token.EQL) {
				return false, 0
			}
			if loadsField(b.X, hashF) || loadsField(b.Y, hashF) {
				return true, b.Op
			}
			return false, 0
		}
		isCb := func(in ssa.Instruction) bool {
			g, ok := in.(*ssa.Go)
			if ok && g.Call.StaticCallee() == nil {
				return true
			}
			cl, ok := in.(*ssa.Call)
			if !ok || cl.Call.StaticCallee() != nil || cl.Call.IsInvoke() {
				return false
			}
			_, isB := cl.Call.Value.(*ssa.Builtin)
			return !isB
		}
		for _, sc := range []struct {
			name    string
			changed bool
		}{{"changed", true}, {"unchanged", false}} {
			c.Examined++
			seen := false
			as := &eng.Assume{Bool: func(v ssa.Value) eng.Tri {
				if is, op := isChanged(v); is {
					seen = true
					return triOf((op == token.NEQ) == sc.changed)
				}
				return eng.Unknown
			}}
			r := eng.ReachableSinks(ch, as, nil, isCb)
			ok := seen && (sc.changed && len(r.Hits) > 0 || !sc.changed && len(r.Hits) == 0)
			c.Decide(ok, rN, "checkHash/"+sc.name, x.PosOf(ch.Pos()), map[bool]string{true: "hash changed ⇒ listeners called", false: "hash unchanged ⇒ no listener called"}[sc.changed],
				map[bool]string{true: "when the member list's hash changed the listeners (sharder, samplers) are not called: the node keeps routing with the old member list", false: "listeners are called although the member list is unchanged"}[sc.changed])
		}
		// the hash is taken over the sorted member list
		c.Examined++
		sorted := false
		eng.Instrs(ch, func(in ssa.Instruction) {
			if cl, ok := in.(*ssa.Call); ok && eng.CalleeName(cl) == pkg+".hashList" {
				if _, d := eng.Derives(cl.Call.Args[0], func(v ssa.Value) bool {
					c2, ok := v.(*ssa.Call)
					return ok && strings.Contains(eng.CalleeName(c2), ").Sorted")
				}, eng.FlowOpts{}); d {
					sorted = true
				}
			}
		})
		c.Decide(sorted, rN, "checkHash/sorted", x.PosOf(ch.Pos()), "hash over the sorted member list", "the change hash is not computed over a sorted member list: the same membership hashes differently from call to call (map order), so listeners are notified spuriously or changes are compared unreliably")
	}
	c.Min(rN, 3)
}

// publishesUnregister: f (or a repository callee, to the given depth) publishes a command built with the Unregister action.
func publishesUnregister(x *Ctx, f *ssa.Function, depth int) bool {
	if f == nil || f.Blocks == nil || depth < 0 {
		return false
	}
	unreg, ok := x.constStr("C18.unregister-on-stop", "internal/peer", "Unregister")
	if !ok {
		return false
	}
	found := false
	eng.Instrs(f, func(in ssa.Instruction) {
		cl, ok := in.(ssa.CallInstruction)
		if !ok {
			return
		}
		if strings.HasSuffix(eng.CalleeName(cl), ".Publish") {
			for _, a := range eng.CallArgs(cl) {
				if _, d := eng.Derives(a, func(v ssa.Value) bool {
					c2, ok := v.(*ssa.Call)
					if !ok || !strings.HasSuffix(eng.CalleeName(c2), ".newPeerCommand") {
						return false
					}
					k, ok := eng.ConstString(c2.Call.Args[0])
					return ok && k == unreg
				}, eng.FlowOpts{ThroughCalls: true}); d {
					found = true
				}
			}
		}
		if cal := cl.Common().StaticCallee(); cal != nil && x.P.Funcs()[cal] && publishesUnregister(x, cal, depth-1) {
			found = true
		}
	})
	return found
}

// maxDuration evaluates the largest value of an interval expression built from
// constants, +, and rand.Int63n/Intn(bound) (whose maximum is bound−1).
func maxDuration(v ssa.Value) (int64, bool) {
	switch y := v.(type) {
	case *ssa.Const:
		return eng.ConstInt(y)
	case *ssa.Convert:
		return maxDuration(y.X)
	case *ssa.ChangeType:
		return maxDuration(y.X)
	case *ssa.BinOp:
		a, ok1 := maxDuration(y.X)
		b, ok2 := maxDuration(y.Y)
		if !ok1 || !ok2 {
			return 0, false
		}
		switch y.Op {
		case token.ADD:
			return a + b, true
		case token.MUL:
			return a * b, true
		case token.QUO:
			if b != 0 {
				return a / b, true
			}
		}
	case *ssa.Call:
		n := eng.CalleeName(y)
		if (strings.HasSuffix(n, "rand.Int63n") || strings.HasSuffix(n, "rand.Intn") || strings.HasSuffix(n, "rand.Int64N") || strings.HasSuffix(n, "rand.IntN")) && len(y.Call.Args) == 1 {
			b, ok := maxDuration(y.Call.Args[0])
			if ok && b > 0 {
				return b - 1, true
			}
		}
	}
	return 0, false
}
