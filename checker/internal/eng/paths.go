package eng

import (
	"fmt"
	"go/constant"
	"go/token"
	"go/types"
	"sort"
	"strings"

	"golang.org/x/tools/go/ssa"
)

// E2 – conditional path engine over go/ssa control-flow graphs.
//
// The engine enumerates (block, fact-set, sink-count) states reachable from a
// start point, pruning only edges whose branch condition folds to a constant
// under the rule's assumptions and the facts learned along the path. It
// therefore over-approximates the feasible paths: it can only err towards
// reporting.

type Tri int8

const (
	Unknown Tri = iota
	True
	False
)

func (t Tri) Not() Tri {
	switch t {
	case True:
		return False
	case False:
		return True
	}
	return Unknown
}

func triOf(b bool) Tri {
	if b {
		return True
	}
	return False
}

// Assume supplies the rule's assumptions. Either function may be nil.
type Assume struct {
	Bool func(v ssa.Value) Tri // truth of a boolean SSA value
	Nil  func(v ssa.Value) Tri // True = value is nil, False = non-nil
}

type facts struct {
	b   map[ssa.Value]Tri       // boolean facts
	n   map[ssa.Value]Tri       // nil-ness facts (True = nil)
	sel map[ssa.Value]ssa.Value // tracked phi -> value of the edge taken most recently
}

func (f facts) clone() facts {
	g := facts{b: make(map[ssa.Value]Tri, len(f.b)+2), n: make(map[ssa.Value]Tri, len(f.n)+2), sel: make(map[ssa.Value]ssa.Value, len(f.sel)+1)}
	for k, v := range f.sel {
		g.sel[k] = v
	}
	for k, v := range f.b {
		g.b[k] = v
	}
	for k, v := range f.n {
		g.n[k] = v
	}
	return g
}

func (f facts) key() string {
	if len(f.b) == 0 && len(f.n) == 0 && len(f.sel) == 0 {
		return ""
	}
	var parts []string
	for k, v := range f.sel {
		parts = append(parts, fmt.Sprintf("s%s=%s", k.Name(), v.Name()))
	}
	for k, v := range f.b {
		parts = append(parts, fmt.Sprintf("b%s=%d", k.Name(), v))
	}
	for k, v := range f.n {
		parts = append(parts, fmt.Sprintf("n%s=%d", k.Name(), v))
	}
	sort.Strings(parts)
	return strings.Join(parts, ",")
}

// Facts is the read-only view of a path's facts handed to rules.
type Facts struct {
	f  facts
	as *Assume
}

func (F Facts) Bool(v ssa.Value) Tri { return evalBool(v, F.f, F.as, 0) }

// Resolve returns the value a tracked phi carries on this path (or v itself).
func (F Facts) Resolve(v ssa.Value) ssa.Value {
	for i := 0; i < 8; i++ {
		if u, ok := v.(*ssa.UnOp); ok && u.Op == token.MUL {
			if a, ok := u.X.(*ssa.Alloc); ok {
				if w, ok := F.f.sel[a]; ok {
					v = w
					continue
				}
			}
		}
		w, ok := F.f.sel[v]
		if !ok {
			return v
		}
		v = w
	}
	return v
}
func (F Facts) Nil(v ssa.Value) Tri { return evalNil(v, F.f, F.as, 0) }

// nonNilCallees are library constructors whose result is never nil.
var nonNilCallees = map[string]bool{
	"fmt.Errorf": true, "errors.New": true, "errors.Join": false,
}

func evalNil(v ssa.Value, f facts, as *Assume, depth int) Tri {
	if depth > 8 {
		return Unknown
	}
	if t, ok := f.n[v]; ok {
		return t
	}
	if as != nil && as.Nil != nil {
		if t := as.Nil(v); t != Unknown {
			return t
		}
	}
	switch x := v.(type) {
	case *ssa.Const:
		if x.IsNil() {
			return True
		}
		return False
	case *ssa.Alloc, *ssa.MakeInterface, *ssa.MakeMap, *ssa.MakeSlice, *ssa.MakeClosure, *ssa.MakeChan,
		*ssa.FieldAddr, *ssa.IndexAddr, *ssa.Function, *ssa.Global:
		return False
	case *ssa.ChangeInterface:
		return evalNil(x.X, f, as, depth+1)
	case *ssa.ChangeType:
		return evalNil(x.X, f, as, depth+1)
	case *ssa.Call:
		if nonNilCallees[CalleeName(x)] {
			return False
		}
	case *ssa.UnOp:
		// load of a local variable whose content is tracked along the path
		if a, ok := x.X.(*ssa.Alloc); ok && x.Op == token.MUL {
			if t, ok := f.n[a]; ok {
				return t
			}
		}
	}
	return Unknown
}

func evalBool(v ssa.Value, f facts, as *Assume, depth int) Tri {
	if depth > 8 {
		return Unknown
	}
	if t, ok := f.b[v]; ok {
		return t
	}
	if as != nil && as.Bool != nil {
		if t := as.Bool(v); t != Unknown {
			return t
		}
	}
	switch x := v.(type) {
	case *ssa.Const:
		if x.Value != nil && x.Value.Kind() == constant.Bool {
			return triOf(constant.BoolVal(x.Value))
		}
	case *ssa.UnOp:
		if x.Op == token.NOT {
			return evalBool(x.X, f, as, depth+1).Not()
		}
		if a, ok := x.X.(*ssa.Alloc); ok && x.Op == token.MUL {
			if t, ok := f.b[a]; ok {
				return t
			}
		}
	case *ssa.BinOp:
		if x.Op == token.EQL || x.Op == token.NEQ {
			var r Tri
			cx, okx := x.X.(*ssa.Const)
			cy, oky := x.Y.(*ssa.Const)
			switch {
			case oky && cy.IsNil():
				r = evalNil(x.X, f, as, depth+1)
			case okx && cx.IsNil():
				r = evalNil(x.Y, f, as, depth+1)
			case okx && oky && cx.Value != nil && cy.Value != nil:
				r = triOf(constant.Compare(cx.Value, token.EQL, cy.Value))
			case isBool(x.X) && (okx || oky):
				// b == true / b == false
				a, b := evalBool(x.X, f, as, depth+1), evalBool(x.Y, f, as, depth+1)
				if a != Unknown && b != Unknown {
					r = triOf(a == b)
				}
			}
			if r == Unknown {
				return Unknown
			}
			if x.Op == token.NEQ {
				return r.Not()
			}
			return r
		}
	}
	return Unknown
}

func nilable(t types.Type) bool {
	switch t.Underlying().(type) {
	case *types.Pointer, *types.Interface, *types.Slice, *types.Map, *types.Chan, *types.Signature:
		return true
	}
	return false
}

func isBool(v ssa.Value) bool {
	b, ok := v.Type().Underlying().(*types.Basic)
	return ok && b.Info()&types.IsBoolean != 0
}

// learn records what a branch outcome tells about the operands of the condition.
func learn(v ssa.Value, val bool, f facts, depth int) {
	if depth > 6 {
		return
	}
	if _, isConst := v.(*ssa.Const); isConst {
		return
	}
	f.b[v] = triOf(val)
	switch x := v.(type) {
	case *ssa.UnOp:
		if x.Op == token.NOT {
			learn(x.X, !val, f, depth+1)
		}
	case *ssa.BinOp:
		if x.Op == token.EQL || x.Op == token.NEQ {
			eq := val == (x.Op == token.EQL)
			if c, ok := x.Y.(*ssa.Const); ok && c.IsNil() {
				f.n[x.X] = triOf(eq)
				propagateNil(x.X, eq, f)
			} else if c, ok := x.X.(*ssa.Const); ok && c.IsNil() {
				f.n[x.Y] = triOf(eq)
				propagateNil(x.Y, eq, f)
			}
		}
	}
}

func propagateNil(v ssa.Value, isNil bool, f facts) {
	switch x := v.(type) {
	case *ssa.ChangeInterface:
		f.n[x.X] = triOf(isNil)
	case *ssa.ChangeType:
		f.n[x.X] = triOf(isNil)
	}
}

// Event classification of an instruction by the rule.
type Event int

const (
	EvNone Event = iota
	EvSink       // counts as a sink
	EvKill       // path ends here (process exit, or the rule does not care beyond)
)

// Query describes one exploration.
type Query struct {
	Fn       *ssa.Function
	Assume   *Assume
	Start    ssa.Instruction // nil = function entry; otherwise exploration starts *after* this instruction
	Classify func(in ssa.Instruction, F Facts) Event
	TrackPhi func(*ssa.Phi) bool // phis whose chosen edge is remembered along the path
	MaxState int
}

// Exit is a way the exploration left the function.
type Exit struct {
	Instr ssa.Instruction // *ssa.Return, or *ssa.Panic
	Sinks int             // sinks passed (capped at 2)
	Facts Facts
	Path  []*ssa.BasicBlock
}

type SinkHit struct {
	Instr  ssa.Instruction
	Before int // sinks passed before this one (capped at 2)
	Facts  Facts
	Path   []*ssa.BasicBlock
}

type PathResult struct {
	Exits    []Exit
	Hits     []SinkHit
	Visited  map[*ssa.BasicBlock]bool
	Overflow bool
	States   int
}

type pstate struct {
	blk    *ssa.BasicBlock
	idx    int
	f      facts
	cnt    int
	parent *pstate
}

func (s *pstate) path() []*ssa.BasicBlock {
	var out []*ssa.BasicBlock
	for x := s; x != nil; x = x.parent {
		if len(out) == 0 || out[len(out)-1] != x.blk {
			out = append(out, x.blk)
		}
	}
	for i, j := 0, len(out)-1; i < j; i, j = i+1, j-1 {
		out[i], out[j] = out[j], out[i]
	}
	return out
}

// Explore runs the query.
func Explore(q Query) *PathResult {
	res := &PathResult{Visited: map[*ssa.BasicBlock]bool{}}
	if q.MaxState == 0 {
		q.MaxState = 400000
	}
	if len(q.Fn.Blocks) == 0 {
		return res
	}
	rc := newReachCache(q.Fn)
	seen := map[string]bool{}
	exitSeen := map[string]bool{}
	hitSeen := map[string]bool{}
	var work []*pstate
	start := &pstate{blk: q.Fn.Blocks[0], f: facts{b: map[ssa.Value]Tri{}, n: map[ssa.Value]Tri{}, sel: map[ssa.Value]ssa.Value{}}}
	if q.Start != nil {
		start.blk = q.Start.Block()
		start.idx = IndexIn(q.Start) + 1
	}
	work = append(work, start)
	for len(work) > 0 {
		s := work[len(work)-1]
		work = work[:len(work)-1]
		key := fmt.Sprintf("%d.%d|%d|%s", s.blk.Index, s.idx, s.cnt, s.f.key())
		if seen[key] {
			continue
		}
		seen[key] = true
		res.States++
		if res.States > q.MaxState {
			res.Overflow = true
			return res
		}
		res.Visited[s.blk] = true
		cnt := s.cnt
		killed := false
		F := Facts{s.f, q.Assume}
		for i := s.idx; i < len(s.blk.Instrs) && !killed; i++ {
			in := s.blk.Instrs[i]
			ev := EvNone
			if q.Classify != nil {
				ev = q.Classify(in, F)
			}
			switch ev {
			case EvSink:
				hk := fmt.Sprintf("%p|%d", in, cnt)
				if !hitSeen[hk] {
					hitSeen[hk] = true
					res.Hits = append(res.Hits, SinkHit{in, cnt, F, s.path()})
				}
				if cnt < 2 {
					cnt++
				}
			case EvKill:
				killed = true
			}
			if killed {
				break
			}
			switch x := in.(type) {
			case *ssa.Store:
				// content of local variables (named results spilled because of defer, address-taken locals)
				if a, ok := x.Addr.(*ssa.Alloc); ok {
					if q.TrackPhi != nil {
						if s.f.sel == nil {
							s.f.sel = map[ssa.Value]ssa.Value{}
						}
						s.f.sel[a] = F.Resolve(x.Val)
					}
					if isBool(x.Val) {
						if t := evalBool(x.Val, s.f, q.Assume, 0); t != Unknown {
							s.f.b[a] = t
						} else {
							delete(s.f.b, a)
						}
					} else if nilable(x.Val.Type()) {
						if t := evalNil(x.Val, s.f, q.Assume, 0); t != Unknown {
							s.f.n[a] = t
						} else {
							delete(s.f.n, a)
						}
					}
				}
			case *ssa.Return, *ssa.Panic:
				ek := fmt.Sprintf("%p|%d|%s", in, cnt, s.f.key())
				if !exitSeen[ek] {
					exitSeen[ek] = true
					res.Exits = append(res.Exits, Exit{in, cnt, F, s.path()})
				}
				_ = x
			}
		}
		if killed {
			continue
		}
		last := s.blk.Instrs[len(s.blk.Instrs)-1]
		var cond ssa.Value
		var tri Tri
		if iff, ok := last.(*ssa.If); ok {
			cond = iff.Cond
			tri = evalBool(cond, s.f, q.Assume, 0)
		}
		for si, succ := range s.blk.Succs {
			if cond != nil {
				if tri == True && si == 1 || tri == False && si == 0 {
					continue
				}
			}
			nf := s.f.clone()
			if cond != nil && tri == Unknown {
				learn(cond, si == 0, nf, 0)
			}
			// phi facts, evaluated simultaneously under the old facts
			pi := -1
			for k, p := range succ.Preds {
				if p == s.blk {
					pi = k
					break
				}
			}
			type upd struct {
				v    ssa.Value
				b, n Tri
				sel  ssa.Value
			}
			var upds []upd
			for _, in := range succ.Instrs {
				phi, ok := in.(*ssa.Phi)
				if !ok {
					break
				}
				if pi < 0 {
					continue
				}
				e := phi.Edges[pi]
				u := upd{v: phi}
				if q.TrackPhi != nil && q.TrackPhi(phi) {
					if w, ok := nf.sel[e]; ok {
						u.sel = w
					} else {
						u.sel = e
					}
				}
				if isBool(phi) {
					u.b = evalBool(e, nf, q.Assume, 0)
				} else {
					u.n = evalNil(e, nf, q.Assume, 0)
				}
				upds = append(upds, u)
			}
			// values defined in the block being (re-)entered lose their facts
			for _, in := range succ.Instrs {
				if v, ok := in.(ssa.Value); ok {
					delete(nf.b, v)
					delete(nf.n, v)
					delete(nf.sel, v)
				}
			}
			for _, u := range upds {
				if u.b != Unknown {
					nf.b[u.v] = u.b
				}
				if u.n != Unknown {
					nf.n[u.v] = u.n
				}
				if u.sel != nil {
					if nf.sel == nil {
						nf.sel = map[ssa.Value]ssa.Value{}
					}
					nf.sel[u.v] = u.sel
				}
			}
			// drop facts that no instruction reachable from succ can consult
			for v := range nf.b {
				if !rc.useful(v, succ) {
					delete(nf.b, v)
				}
			}
			for v := range nf.n {
				if !rc.useful(v, succ) {
					delete(nf.n, v)
				}
			}
			for v := range nf.sel {
				if !rc.useful(v, succ) {
					delete(nf.sel, v)
				}
			}
			work = append(work, &pstate{blk: succ, f: nf, cnt: cnt, parent: s})
		}
	}
	return res
}

// DescribePath renders a block path as source lines.
func DescribePath(pos func(token.Pos) string, path []*ssa.BasicBlock) string {
	var parts []string
	lastLine := ""
	for _, b := range path {
		p := token.NoPos
		for _, in := range b.Instrs {
			if in.Pos().IsValid() {
				p = in.Pos()
				break
			}
		}
		s := fmt.Sprintf("b%d", b.Index)
		if p.IsValid() {
			l := pos(p)
			if i := strings.LastIndex(l, ":"); i >= 0 {
				l = l[i+1:]
			}
			if l == lastLine {
				continue
			}
			lastLine = l
			s += "@" + l
		}
		parts = append(parts, s)
	}
	if len(parts) > 24 {
		parts = append(append(parts[:10:10], "…"), parts[len(parts)-10:]...)
	}
	return strings.Join(parts, "→")
}

// ---- convenience wrappers -------------------------------------------------

// ReachableSinks returns sink hits reachable from the start under the assumptions.
func ReachableSinks(fn *ssa.Function, as *Assume, start ssa.Instruction, isSink func(ssa.Instruction) bool) *PathResult {
	return Explore(Query{Fn: fn, Assume: as, Start: start, Classify: func(in ssa.Instruction, _ Facts) Event {
		if isSink(in) {
			return EvSink
		}
		return EvNone
	}})
}

// IsProcessExit reports calls that never return (os.Exit, log.Fatal*, panic-like helpers).
func IsProcessExit(in ssa.Instruction) bool {
	c, ok := in.(ssa.CallInstruction)
	if !ok {
		return false
	}
	switch CalleeName(c) {
	case "os.Exit", "log.Fatal", "log.Fatalf", "log.Fatalln", "runtime.Goexit":
		return true
	}
	return false
}

// reachCache answers "is some use of v located in a block reachable from b".
type reachCache struct {
	fn    *ssa.Function
	reach []map[int]bool
	memo  map[ssa.Value]map[int]bool
}

func newReachCache(fn *ssa.Function) *reachCache {
	rc := &reachCache{fn: fn, reach: make([]map[int]bool, len(fn.Blocks)), memo: map[ssa.Value]map[int]bool{}}
	return rc
}

func (rc *reachCache) from(b *ssa.BasicBlock) map[int]bool {
	if r := rc.reach[b.Index]; r != nil {
		return r
	}
	r := map[int]bool{b.Index: true}
	work := []*ssa.BasicBlock{b}
	for len(work) > 0 {
		x := work[len(work)-1]
		work = work[:len(work)-1]
		for _, s := range x.Succs {
			if !r[s.Index] {
				r[s.Index] = true
				work = append(work, s)
			}
		}
	}
	rc.reach[b.Index] = r
	return r
}

func (rc *reachCache) useful(v ssa.Value, b *ssa.BasicBlock) bool {
	ub, ok := rc.memo[v]
	if !ok {
		ub = map[int]bool{}
		if refs := v.Referrers(); refs != nil {
			for _, r := range *refs {
				if r.Block() != nil && r.Parent() == rc.fn {
					ub[r.Block().Index] = true
				}
			}
		}
		rc.memo[v] = ub
	}
	r := rc.from(b)
	for i := range ub {
		if r[i] {
			return true
		}
	}
	return false
}
