package rules

import (
	"go/token"
	"go/types"
	"strings"

	"golang.org/x/tools/go/ssa"

	"refcheck/internal/eng"
)

func init() { Register("C32", c32) }

func c32(x *Ctx) {
	c := x.C
	c.Explanation = "C32 (TTL sets and maps agree on membership at every instant): collects every comparison between an item's expiry time and the clock in the methods of SetWithTTL and MapWithTTL (point lookups, clean-up behind Members/Keys/Length), normalises each to 'present iff now REL expiry' and requires a single relation per type – otherwise at the expiry instant one method says the item is there and another says it is not."
	c.NotCovered = "clock behaviour and the TTL arithmetic (values)."
	const r = "C32.one-predicate"
	for _, typ := range []string{"SetWithTTL", "MapWithTTL"} {
		type found struct {
			fn   *ssa.Function
			at   ssa.Instruction
			rel  eng.RelSet
			text string
		}
		var all []found
		// generic bodies exist only as instantiations: analyse one instantiation per method
		var fns []*ssa.Function
		seenM := map[string]bool{}
		for _, f := range x.PkgFuncs("generics") {
			if f.Parent() != nil || f.Signature.Recv() == nil || !strings.Contains(f.Signature.Recv().Type().String(), "generics."+typ+"[") {
				continue
			}
			if f.Synthetic != "" && !strings.Contains(f.Synthetic, "instance") {
				continue
			}
			if len(f.Blocks) < 2 && len(f.AnonFuncs) == 0 {
				// thin wrappers
			}
			if seenM[f.Name()] {
				continue
			}
			seenM[f.Name()] = true
			fns = append(fns, eng.WithAnon(f)...)
		}
		for _, f := range fns {
			eng.Instrs(f, func(in ssa.Instruction) {
				v, ok := in.(ssa.Value)
				if !ok {
					return
				}
				tc, ok := eng.NormTimeCmp(v)
				if !ok {
					return
				}
				isNow := func(u ssa.Value) bool {
					_, d := eng.Derives(u, func(w ssa.Value) bool {
						return isCallValue(w, "(github.com/jonboulle/clockwork.Clock).Now")
					}, eng.FlowOpts{})
					return d
				}
				xNow, yNow := isNow(tc.X), isNow(tc.Y)
				if xNow == yNow {
					return
				}
				c.Examined++
				relNow := tc.Rel
				if !xNow {
					relNow = relNow.Flip()
				}
				// which outcome means "present"?
				presentWhenTrue, decided := false, false
				isDeletePredicate := false
				if f.Parent() != nil {
					// closure passed to maps.DeleteFunc: returning true deletes
					eng.Instrs(f.Parent(), func(i2 ssa.Instruction) {
						if cl, ok := i2.(ssa.CallInstruction); ok && strings.HasSuffix(eng.CalleeName(cl), "maps.DeleteFunc") {
							for _, a := range cl.Common().Args {
								if mc, ok := a.(*ssa.MakeClosure); ok && mc.Fn == f {
									isDeletePredicate = true
								}
							}
						}
					})
				}
				eng.Instrs(f, func(i2 ssa.Instruction) {
					ret, ok := i2.(*ssa.Return)
					if !ok || len(ret.Results) == 0 {
						return
					}
					last := ret.Results[len(ret.Results)-1]
					neg := false
					if u, ok := last.(*ssa.UnOp); ok && u.Op == token.NOT {
						last, neg = u.X, true
					}
					if last == v {
						presentWhenTrue = !neg
						if isDeletePredicate {
							presentWhenTrue = !presentWhenTrue
						}
						decided = true
					}
				})
				if !decided {
					absentUnder := func(t eng.Tri) bool {
						as := &eng.Assume{Bool: func(w ssa.Value) eng.Tri {
							if w == v {
								return t
							}
							return eng.Unknown
						}}
						h := loopHeader(in)
						hit := false
						eng.Explore(eng.Query{Fn: f, Assume: as, Start: in, Classify: func(i2 ssa.Instruction, F eng.Facts) eng.Event {
							if h != nil && i2 == h.Instrs[0] {
								return eng.EvKill
							}
							if cl, ok := i2.(*ssa.Call); ok {
								if b, ok := cl.Call.Value.(*ssa.Builtin); ok && b.Name() == "delete" {
									hit = true
								}
							}
							if ret, ok := i2.(*ssa.Return); ok && len(ret.Results) > 0 {
								last := ret.Results[len(ret.Results)-1]
								if b, isB := last.Type().Underlying().(*types.Basic); isB && b.Kind() == types.Bool && F.Bool(last) == eng.False {
									hit = true
								}
							}
							return eng.EvNone
						}})
						return hit
					}
					at, af := absentUnder(eng.True), absentUnder(eng.False)
					if at != af {
						presentWhenTrue = !at
						decided = true
					}
				}
				if !decided {
					c.Undecided(r, typ+"/"+BaseName(f), x.Pos(in), "cannot tell which outcome of this expiry comparison means 'present'")
					return
				}
				rel := relNow
				if !presentWhenTrue {
					rel = (eng.LT | eng.EQ | eng.GT) &^ relNow
				}
				all = append(all, found{f, in, rel, "present iff now " + rel.String() + " expiry"})
			})
		}
		c.Info["comparisons_"+typ] = len(all)
		if len(all) < 2 {
			c.Unresolved(r, typ, "fewer than two expiry comparisons found in "+typ)
			continue
		}
		// majority relation is the reference; every deviation is reported at its site
		count := map[eng.RelSet]int{}
		for _, f := range all {
			count[f.rel]++
		}
		ref := all[0].rel
		for rel, n := range count {
			if n > count[ref] || n == count[ref] && rel == (eng.LT|eng.EQ) {
				ref = rel
			}
		}
		for _, f := range all {
			key := typ + "/" + BaseName(f.fn)
			c.Decide(f.rel == ref, r, key, x.Pos(f.at), f.text,
				f.text+" here, but 'present iff now "+ref.String()+" expiry' in the type's other methods: at the expiry instant this method and the others disagree about whether the item is in the "+strings.ToLower(strings.TrimSuffix(typ, "WithTTL")))
		}
	}
	c.Min(r, 4)

	// ---- a (re-)insert always gives the element a new lease; a sweep looks at every element ------------------------
	// Both are necessary for "the listings and the point look-ups agree": an insert that can return without storing
	// leaves the old expiry (all queries agree, all are wrong); a sweep that can return without visiting the items
	// leaves expired items in Members/Keys/Length while Contains/Get already say absent.
	const r2 = "C32.insert-always-stores"
	const r3 = "C32.sweep-visits-all"
	for _, typ := range []string{"SetWithTTL", "MapWithTTL"} {
		seenM := map[string]bool{}
		for _, f := range x.PkgFuncs("generics") {
			if f.Parent() != nil || f.Blocks == nil || f.Signature.Recv() == nil || !strings.Contains(f.Signature.Recv().Type().String(), "generics."+typ+"[") || seenM[f.Name()] {
				continue
			}
			if f.Synthetic != "" && !strings.Contains(f.Synthetic, "instance") {
				continue // wrappers and bound-method thunks
			}
			name := f.Name()
			isInsert := name == "Add" || name == "Set"
			isSweep := name == "cleanup"
			if !isInsert && !isSweep {
				continue
			}
			seenM[name] = true
			itemsOf := func(v ssa.Value) bool {
				fr, _, ok := eng.LoadedField(v)
				return ok && fr.Name == "Items"
			}
			// the construct every path has to pass: for an insert the MapUpdate on Items (or the loop it sits in),
			// for a sweep the range over Items (or a maps.DeleteFunc over it)
			var must []ssa.Instruction
			eng.Instrs(f, func(in ssa.Instruction) {
				switch y := in.(type) {
				case *ssa.MapUpdate:
					if isInsert && itemsOf(y.Map) {
						if h := loopHeader(in); h != nil {
							must = append(must, h.Instrs[0])
						} else {
							must = append(must, in)
						}
					}
				case *ssa.Range:
					if isSweep && itemsOf(y.X) {
						must = append(must, in)
					}
				case *ssa.Call:
					if isSweep && strings.HasSuffix(eng.CalleeName(y), "maps.DeleteFunc") && len(y.Call.Args) > 0 && itemsOf(y.Call.Args[0]) {
						must = append(must, in)
					}
				}
			})
			rule, what := r2, "stores the element's new expiry"
			if isSweep {
				rule, what = r3, "visits the items"
			}
			c.Examined++
			if len(must) == 0 {
				c.Violate(rule, typ+"/"+name, x.PosOf(f.Pos()), typ+"."+name+" never "+what)
				continue
			}
			r := eng.Explore(eng.Query{Fn: f, Classify: func(in ssa.Instruction, _ eng.Facts) eng.Event {
				for _, m := range must {
					if in == m {
						return eng.EvSink
					}
				}
				return eng.EvNone
			}})
			bad := false
			var path []*ssa.BasicBlock
			for _, e := range r.Exits {
				if _, isRet := e.Instr.(*ssa.Return); isRet && e.Sinks == 0 {
					bad, path = true, e.Path
				}
			}
			if bad {
				msg := typ + "." + name + " can return without storing the element's new expiry: a re-insert that is skipped leaves the old lease, so the element expires a full TTL after its first insert instead of its latest one"
				if isSweep {
					msg = typ + "." + name + " can return without visiting the items (a shortcut in front of the scan): expired items stay in the listings and the length while the point look-up already answers absent"
				}
				o := c.Violate(rule, typ+"/"+name, x.PosOf(f.Pos()), msg)
				o.Path = eng.DescribePath(x.P.Pos, path)
			} else {
				c.Hold(rule, typ+"/"+name, x.PosOf(f.Pos()), "every path "+what)
			}
		}
	}
	c.Min(r2, 2)
	c.Min(r3, 2)
}
