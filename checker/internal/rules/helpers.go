package rules

import (
	"go/constant"
	"go/token"
	"go/types"
	"strings"

	"golang.org/x/tools/go/ssa"

	"refcheck/internal/eng"
)

// Normalised callee names used by several rules (resolved through go/types).
const (
	nRecord       = "(collect/cache.TraceSentCache).Record"
	nCheckSpan    = "(collect/cache.TraceSentCache).CheckSpan"
	nCheckTrace   = "(collect/cache.TraceSentCache).CheckTrace"
	nCacheGet     = "(collect/cache.Cache).Get"
	nCacheSet     = "(collect/cache.Cache).Set"
	nCacheGetAll  = "(collect/cache.Cache).GetAll"
	nTakeExpired  = "(collect/cache.Cache).TakeExpiredTraces"
	nRemoveTraces = "(collect/cache.Cache).RemoveTraces"
	nEnqueueSpan  = "(transmit.Transmission).EnqueueSpan"
	nEnqueueEvent = "(transmit.Transmission).EnqueueEvent"
	nIsDryRun     = "(config.Config).GetIsDryRun"
	nSamplerRate  = "(sample.Sampler).GetSampleRate"
	nMakeDecision = "(*collect.CollectorWorker).makeDecision"
	nSend         = "(*collect.InMemCollector).send"
	nDealWithSent = "(*collect.InMemCollector).dealWithSentTrace"
	nMerge        = "collect.mergeTraceAndSpanSampleRates"
	nAddAttrs     = "(*collect.InMemCollector).addAdditionalAttributes"
	nPayloadSet   = "(*types.Payload).Set"
)

func callNamed(names ...string) func(ssa.Instruction) bool {
	return func(in ssa.Instruction) bool {
		_, ok := eng.IsCall(in, names...)
		return ok
	}
}

// callsIn lists call instructions in fn (not nested closures) with one of the names.
func callsIn(fn *ssa.Function, names ...string) []ssa.CallInstruction {
	var out []ssa.CallInstruction
	eng.Instrs(fn, func(in ssa.Instruction) {
		if c, ok := eng.IsCall(in, names...); ok {
			out = append(out, c)
		}
	})
	return out
}

// extractOf returns the Extract #idx values of a tuple-valued call.
func extractOf(c ssa.CallInstruction, idx int) []ssa.Value {
	v, ok := c.(ssa.Value)
	if !ok {
		return nil
	}
	var out []ssa.Value
	if refs := v.Referrers(); refs != nil {
		for _, r := range *refs {
			if e, ok := r.(*ssa.Extract); ok && e.Index == idx {
				out = append(out, e)
			}
		}
	}
	return out
}

func isExtractOf(v ssa.Value, idx int, names ...string) bool {
	e, ok := v.(*ssa.Extract)
	if !ok || e.Index != idx {
		return false
	}
	c, ok := e.Tuple.(*ssa.Call)
	if !ok {
		return false
	}
	n := eng.CalleeName(c)
	for _, w := range names {
		if n == w {
			return true
		}
	}
	return false
}

func isCallValue(v ssa.Value, names ...string) bool {
	c, ok := v.(*ssa.Call)
	if !ok {
		return false
	}
	n := eng.CalleeName(c)
	for _, w := range names {
		if n == w {
			return true
		}
	}
	return false
}

// param returns the named parameter of fn.
func param(fn *ssa.Function, name string) *ssa.Parameter {
	for _, p := range fn.Params {
		if p.Name() == name {
			return p
		}
	}
	return nil
}

// derivesFromParam: v derives from the parameter (through the heap cell go/ssa
// creates when a closure captures it).
func derivesFrom(v ssa.Value, target ssa.Value) bool {
	_, ok := eng.Derives(v, func(w ssa.Value) bool { return w == target }, eng.FlowOpts{})
	return ok
}

// loadsField reports whether v is a load of struct field rel.Struct.Field.
func loadsField(v ssa.Value, pred func(eng.FieldRef) bool) bool {
	fr, _, ok := eng.LoadedField(v)
	return ok && pred(fr)
}

// isRangeIndex recognises the induction variable go/ssa creates for
// `for i := range s` / `for _, x := range s`: phi(-1, phi+1).
func isRangeIndex(v ssa.Value) bool {
	b, ok := v.(*ssa.BinOp)
	if ok && b.Op == token.ADD {
		if c, ok := eng.ConstInt(b.Y); ok && c == 1 {
			v = b.X
		}
	}
	phi, ok := v.(*ssa.Phi)
	if !ok {
		return false
	}
	hasInit, hasStep := false, false
	for _, e := range phi.Edges {
		if c, ok := eng.ConstInt(e); ok && c == -1 {
			hasInit = true
			continue
		}
		if bo, ok := e.(*ssa.BinOp); ok && bo.Op == token.ADD && bo.X == phi {
			hasStep = true
			continue
		}
		return false
	}
	return hasInit && hasStep
}

// isCountingIndex recognises the variable of a classic `for i := 0; …; i++` loop.
func isCountingIndex(v ssa.Value) bool {
	phi, ok := v.(*ssa.Phi)
	if !ok || len(phi.Edges) != 2 {
		return false
	}
	hasInit, hasStep := false, false
	for _, e := range phi.Edges {
		if c, ok := eng.ConstInt(e); ok && c == 0 {
			hasInit = true
			continue
		}
		if bo, ok := e.(*ssa.BinOp); ok && bo.Op == token.ADD && bo.X == phi {
			if c, ok := eng.ConstInt(bo.Y); ok && c == 1 {
				hasStep = true
				continue
			}
		}
		return false
	}
	return hasInit && hasStep
}

// leaves collects the leaf values (parameters, constants, field loads, calls
// without operands to follow, globals…) a value is computed from, walking
// through pure operators and – when throughCalls – call arguments.
func leaves(v ssa.Value, throughCall func(c *ssa.Call) bool) []ssa.Value {
	seen := map[ssa.Value]bool{}
	var out []ssa.Value
	var walk func(v ssa.Value)
	walk = func(v ssa.Value) {
		if v == nil || seen[v] {
			return
		}
		seen[v] = true
		switch x := v.(type) {
		case *ssa.Phi:
			for _, e := range x.Edges {
				walk(e)
			}
		case *ssa.BinOp:
			walk(x.X)
			walk(x.Y)
		case *ssa.UnOp:
			if x.Op == token.MUL {
				out = append(out, x) // a load is a leaf (field / variable read)
				return
			}
			walk(x.X)
		case *ssa.Convert:
			walk(x.X)
		case *ssa.ChangeType:
			walk(x.X)
		case *ssa.MakeInterface:
			walk(x.X)
		case *ssa.Slice:
			walk(x.X)
		case *ssa.Extract:
			walk(x.Tuple)
		case *ssa.Call:
			if throughCall != nil && throughCall(x) {
				if x.Call.IsInvoke() {
					walk(x.Call.Value)
				}
				for _, a := range x.Call.Args {
					walk(a)
				}
				return
			}
			out = append(out, x)
		default:
			out = append(out, v)
		}
	}
	walk(v)
	return out
}

func typeString(t types.Type) string { return eng.Short(t.String()) }

func hasSuffixAny(s string, suf ...string) bool {
	for _, x := range suf {
		if strings.HasSuffix(s, x) {
			return true
		}
	}
	return false
}

// callerBindings returns, for parameter index i of fn (receiver excluded from
// the count when method), the argument values at every production call site.
func (x *Ctx) callerArgs(fn *ssa.Function, p *ssa.Parameter) []ssa.Value {
	idx := -1
	for i, q := range fn.Params {
		if q == p {
			idx = i
		}
	}
	if idx < 0 {
		return nil
	}
	var out []ssa.Value
	for _, e := range x.Callers(fn) {
		if e.Site == nil {
			continue
		}
		cc := e.Site.Common()
		args := cc.Args
		if cc.IsInvoke() {
			// receiver is cc.Value; params[0] is receiver
			if idx == 0 {
				out = append(out, cc.Value)
				continue
			}
			if idx-1 < len(args) {
				out = append(out, args[idx-1])
			}
			continue
		}
		if idx < len(args) {
			out = append(out, args[idx])
		}
	}
	return out
}

// constStr resolves a package-level string constant.
func (x *Ctx) constStr(rule, rel, name string) (string, bool) {
	pk := x.P.ByRel[rel]
	if pk != nil {
		if c, ok := pk.Types.Scope().Lookup(name).(*types.Const); ok && c.Val().Kind() == constant.String {
			return constant.StringVal(c.Val()), true
		}
	}
	x.C.Unresolved(rule, rel+"."+name, "constant "+rel+"."+name+" not found")
	return "", false
}

// payloadSetKey returns the constant key of a (*types.Payload).Set call.
func payloadSetKey(in ssa.Instruction) (string, ssa.CallInstruction, bool) {
	cl, ok := eng.IsCall(in, nPayloadSet)
	if !ok {
		return "", nil, false
	}
	a := eng.CallArgs(cl)
	if len(a) < 2 {
		return "", nil, false
	}
	k, ok := eng.ConstString(a[0])
	return k, cl, ok
}

// implementations returns production methods named `method` on types of
// package rel that implement the interface ifaceRel.iface.
func (x *Ctx) implementations(ifaceRel, iface, method string, rels ...string) []*ssa.Function {
	in := x.P.Named(ifaceRel, iface)
	if in == nil {
		return nil
	}
	it, ok := in.Underlying().(*types.Interface)
	if !ok {
		return nil
	}
	var out []*ssa.Function
	for _, rel := range rels {
		pk := x.P.ByRel[rel]
		if pk == nil {
			continue
		}
		sc := pk.Types.Scope()
		for _, n := range sc.Names() {
			tn, ok := sc.Lookup(n).(*types.TypeName)
			if !ok || tn.IsAlias() {
				continue
			}
			nt, ok := tn.Type().(*types.Named)
			if !ok || nt.TypeParams().Len() > 0 {
				continue
			}
			if _, isI := nt.Underlying().(*types.Interface); isI {
				continue
			}
			if !types.Implements(types.NewPointer(nt), it) && !types.Implements(nt, it) {
				continue
			}
			f := x.P.Func(rel, n, method)
			if f == nil || f.Blocks == nil || x.P.IsDoubleFunc(f) {
				continue
			}
			out = append(out, f)
		}
	}
	return out
}

// lookupIntConst resolves a package-level integer constant.
func lookupIntConst(x *Ctx, rel, name string) (int64, bool) {
	pk := x.P.ByRel[rel]
	if pk == nil {
		return 0, false
	}
	c, ok := pk.Types.Scope().Lookup(name).(*types.Const)
	if !ok {
		return 0, false
	}
	return constant.Int64Val(constant.ToInt(c.Val()))
}

// mustDerive reports whether EVERY definition that can reach v satisfies pred:
// φ-nodes need all edges, spilled locals all stores, parameters all callers'
// arguments (two levels), struct fields all their writes in the repository.
// Values read out of maps, slices, channels or other calls do not derive.
func (x *Ctx) mustDerive(v ssa.Value, pred func(ssa.Value) bool) bool {
	return x.mustDeriveOpt(v, pred, false)
}

// mustDeriveOpt with strict set also refuses conversions, type assertions and re-boxing: the value must be the
// very value that satisfied pred.
func (x *Ctx) mustDeriveOpt(v ssa.Value, pred func(ssa.Value) bool, strict bool) bool {
	seen := map[ssa.Value]bool{}
	var walk func(v ssa.Value, depth int) bool
	walk = func(v ssa.Value, depth int) bool {
		if v == nil {
			return false
		}
		if pred(v) {
			return true
		}
		if seen[v] {
			return true // a cycle adds no new definition
		}
		seen[v] = true
		switch y := v.(type) {
		case *ssa.Phi:
			for _, e := range y.Edges {
				if !walk(e, depth) {
					return false
				}
			}
			return len(y.Edges) > 0
		case *ssa.Extract:
			return walk(y.Tuple, depth)
		case *ssa.ChangeType:
			return !strict && walk(y.X, depth)
		case *ssa.Convert:
			return !strict && walk(y.X, depth)
		case *ssa.MakeInterface:
			return !strict && walk(y.X, depth)
		case *ssa.ChangeInterface:
			return !strict && walk(y.X, depth)
		case *ssa.TypeAssert:
			return !strict && walk(y.X, depth)
		case *ssa.Parameter:
			if depth >= 2 {
				return false
			}
			args := x.callerArgs(y.Parent(), y)
			if len(args) == 0 {
				return false
			}
			for _, a := range args {
				if !walk(a, depth+1) {
					return false
				}
			}
			return true
		case *ssa.FreeVar:
			// bound at the MakeClosure in the parent
			fn := y.Parent()
			idx := -1
			for i, fv := range fn.FreeVars {
				if fv == y {
					idx = i
				}
			}
			ok, n := true, 0
			if p := fn.Parent(); p != nil && idx >= 0 {
				eng.Instrs(p, func(in ssa.Instruction) {
					if mc, isMC := in.(*ssa.MakeClosure); isMC && mc.Fn == ssa.Value(fn) && idx < len(mc.Bindings) {
						n++
						if !walk(mc.Bindings[idx], depth) {
							ok = false
						}
					}
				})
			}
			return ok && n > 0
		case *ssa.Alloc:
			// a variable cell (captured by a closure): everything stored into it
			sts := eng.StoresTo(y, nil)
			if len(sts) == 0 {
				return false
			}
			for _, st := range sts {
				if !walk(st.Val, depth) {
					return false
				}
			}
			return true
		case *ssa.UnOp:
			if y.Op != token.MUL {
				return false
			}
			switch a := y.X.(type) {
			case *ssa.Alloc:
				sts := eng.StoresTo(a, nil)
				if len(sts) == 0 {
					return false
				}
				for _, st := range sts {
					if !walk(st.Val, depth) {
						return false
					}
				}
				return true
			case *ssa.FreeVar, *ssa.Parameter:
				return walk(a, depth)
			case *ssa.FieldAddr:
				fr, _, ok := eng.FieldRefOf(a)
				if !ok || depth >= 2 {
					return false
				}
				ws := eng.FieldWrites(x.RepoFuncs(), func(q eng.FieldRef) bool { return q.Var == fr.Var })
				if len(ws) == 0 {
					return false
				}
				for _, w := range ws {
					if !walk(w.Instr.(*ssa.Store).Val, depth+1) {
						return false
					}
				}
				return true
			}
		}
		return false
	}
	return walk(v, 0)
}

// returnedValues lists every value the function may return as result idx, one
// per definition: with `defer` go/ssa spills results to a local and returns a
// load of it, so each store to that local is a returned value of its own.
func returnedValues(f *ssa.Function, idx int) []ssa.Value {
	seen := map[ssa.Value]bool{}
	var out []ssa.Value
	add := func(v ssa.Value) {
		if !seen[v] {
			seen[v] = true
			out = append(out, v)
		}
	}
	eng.Instrs(f, func(in ssa.Instruction) {
		ret, ok := in.(*ssa.Return)
		if !ok || idx >= len(ret.Results) {
			return
		}
		v := ret.Results[idx]
		if u, ok := v.(*ssa.UnOp); ok && u.Op == token.MUL {
			if a, ok := u.X.(*ssa.Alloc); ok {
				for _, st := range eng.StoresTo(a, nil) {
					add(st.Val)
				}
				return
			}
		}
		add(v)
	})
	return out
}
