package rules

import (
	"go/ast"
	"go/token"
	"go/types"
	"strings"

	"golang.org/x/tools/go/ssa"

	"refcheck/internal/eng"
)

func init() { Register("C20", c20); Register("C21", c21) }

func c20(x *Ctx) {
	c := x.C
	c.Explanation = "C20 (forwarded events carry exactly the client's fields): decides (1) the metadata field table is consistent – each entry's key equals the key its constructor serialises under, has the meta. prefix, targets a distinct Payload field of the constructor's type, and every Meta* constant has an entry – a mismatch renames or duplicates a field on re-encoding; (2) the payload owns its raw bytes – every store to the raw-bytes field is a clone or a caller-owned buffer that does not come from a pooled buffer; (3) re-encoding emits each source at most once – memoized keys are skipped in the raw pass, metadata keys in both; (4) memoized values are re-encoded type-preservingly – a time.Time (which the msgpack decoder produces for the standard timestamp extension) must not reach msgp.AppendIntf, whose time arm writes a library-private extension that other decoders cannot read."
	c.NotCovered = "byte-level round-trip equality for arbitrary payloads; nested times inside maps/arrays of memoized values."
	tp := x.P.ByRel["types"]
	if tp == nil {
		c.Unresolved("C20.meta-table", "types", "package types not loaded")
		return
	}
	// ---- clause 1: metadata table ---------------------------------------------------------------
	const r1 = "C20.meta-table"
	var lit *ast.CompositeLit
	for _, f := range tp.Syntax {
		for _, d := range f.Decls {
			gd, ok := d.(*ast.GenDecl)
			if !ok {
				continue
			}
			for _, sp := range gd.Specs {
				vs, ok := sp.(*ast.ValueSpec)
				if !ok {
					continue
				}
				for i, n := range vs.Names {
					if n.Name == "metadataFields" && i < len(vs.Values) {
						lit, _ = vs.Values[i].(*ast.CompositeLit)
					}
				}
			}
		}
	}
	if lit == nil {
		c.Unresolved(r1, "types.metadataFields", "the metadata field table was not found")
	} else {
		payload := x.P.Named("types", "Payload")
		ctorType := map[string]string{"stringField": "string", "boolField": "types.nullableBool", "int64Field": "int64"}
		seenField := map[string]string{}
		keys := map[string]bool{}
		for _, e := range lit.Elts {
			kv, ok := e.(*ast.KeyValueExpr)
			if !ok {
				continue
			}
			c.Examined++
			kname := types.ExprString(kv.Key)
			kval, _ := constLabel(tp.TypesInfo, kv.Key)
			keys[kname] = true
			call, ok := kv.Value.(*ast.CallExpr)
			pos := x.PosOf(kv.Pos())
			if !ok || len(call.Args) != 2 {
				c.Undecided(r1, kname, pos, "entry is not a constructor call")
				continue
			}
			ctor := types.ExprString(call.Fun)
			a0 := types.ExprString(call.Args[0])
			field := ""
			ast.Inspect(call.Args[1], func(n ast.Node) bool {
				if u, ok := n.(*ast.UnaryExpr); ok {
					if sel, ok := u.X.(*ast.SelectorExpr); ok {
						field = sel.Sel.Name
					}
				}
				return true
			})
			var ftype string
			if payload != nil {
				st := payload.Underlying().(*types.Struct)
				for i := 0; i < st.NumFields(); i++ {
					if st.Field(i).Name() == field {
						ftype = typeString(st.Field(i).Type())
					}
				}
			}
			switch {
			case a0 != kname:
				c.Violate(r1, kname, pos, "entry "+kname+" is built with key "+a0+": the field is read under one name and re-encoded under another")
			case !strings.HasPrefix(kval, "meta."):
				c.Violate(r1, kname, pos, "metadata key '"+kval+"' lacks the meta. prefix: lookups that pre-filter on the prefix never find it")
			case seenField[field] != "":
				c.Violate(r1, kname, pos, "entries "+seenField[field]+" and "+kname+" share the Payload field "+field+": one overwrites the other")
			case ctorType[ctor] == "" || ftype != ctorType[ctor]:
				c.Violate(r1, kname, pos, "constructor "+ctor+" does not match the type of Payload."+field+" ("+ftype+")")
			default:
				c.Hold(r1, kname, pos, ctor+" → Payload."+field)
			}
			seenField[field] = kname
		}
		// every Meta* string constant has an entry
		for _, n := range tp.Types.Scope().Names() {
			cst, ok := tp.Types.Scope().Lookup(n).(*types.Const)
			if !ok || !strings.HasPrefix(n, "Meta") || !strings.Contains(cst.Type().String(), "string") {
				continue
			}
			c.Decide(keys[n], r1, "constant:"+n, x.PosOf(cst.Pos()), "has a table entry", "metadata constant "+n+" has no entry in metadataFields: the field is treated as client data and may be emitted twice or lost")
		}
	}
	c.Min(r1, 30)

	// ---- clause 2: ownership of the raw bytes ------------------------------------------------------
	const r2 = "C20.owned-bytes"
	isPooled := func(v ssa.Value) bool {
		cl, ok := v.(*ssa.Call)
		if !ok {
			return false
		}
		n := eng.CalleeName(cl)
		return n == "(*sync.Pool).Get" || n == "(*bytes.Buffer).Bytes"
	}
	for _, w := range eng.FieldWrites(x.PkgFuncs("types"), eng.FieldIs("types", "Payload", "msgpData")) {
		c.Examined++
		st := w.Instr.(*ssa.Store)
		key := BaseName(w.Fn) + "/msgpData"
		if _, cloned := eng.Derives(st.Val, func(v ssa.Value) bool { return isCallValue(v, "slices.Clone", "bytes.Clone") }, eng.FlowOpts{}); cloned {
			c.Hold(r2, key, x.Pos(st), "raw bytes are a private copy")
			continue
		}
		// a parameter: follow callers up to three levels
		bad := ""
		var follow func(v ssa.Value, depth int)
		follow = func(v ssa.Value, depth int) {
			if bad != "" || depth > 3 {
				return
			}
			if w2, ok := eng.Derives(v, isPooled, eng.FlowOpts{}); ok {
				bad = w2.String()
				return
			}
			eng.Derives(v, func(u ssa.Value) bool {
				if p, ok := u.(*ssa.Parameter); ok {
					for _, a := range x.callerArgs(p.Parent(), p) {
						follow(a, depth+1)
					}
				}
				return false
			}, eng.FlowOpts{})
		}
		follow(st.Val, 0)
		c.Decide(bad == "", r2, key, x.Pos(st), "kept buffer is caller-owned and not pooled", "the payload keeps a slice that comes from a pooled/reused buffer ("+bad+"): a later request overwrites the bytes of an event that is still buffered")
	}
	c.Min(r2, 4)

	// ---- clauses 3 and 4: MarshalMsg -----------------------------------------------------------------------
	const r3 = "C20.no-double-emission"
	const r4 = "C20.type-preserving-reencode"
	mm := x.Fn(r3, "types", "Payload", "MarshalMsg")
	if mm == nil {
		return
	}
	memo := eng.FieldIs("types", "Payload", "memoizedFields")
	isMetaLookup := func(v ssa.Value) bool {
		e, ok := v.(*ssa.Extract)
		if !ok || e.Index != 1 {
			return false
		}
		lk, ok := e.Tuple.(*ssa.Lookup)
		if !ok {
			return false
		}
		g, isG := lk.X.(*ssa.UnOp)
		if !isG {
			return false
		}
		gl, isGl := g.X.(*ssa.Global)
		return isGl && gl.Name() == "metadataFields"
	}
	isMemoLookup := func(v ssa.Value) bool {
		e, ok := v.(*ssa.Extract)
		if !ok || e.Index != 1 {
			return false
		}
		lk, ok := e.Tuple.(*ssa.Lookup)
		return ok && loadsField(lk.X, memo)
	}
	var intfCalls, rawAppends []ssa.Instruction
	eng.Instrs(mm, func(in ssa.Instruction) {
		if _, ok := eng.IsCall(in, "github.com/tinylib/msgp/msgp.AppendIntf"); ok {
			intfCalls = append(intfCalls, in)
		}
		if cl, ok := in.(*ssa.Call); ok {
			if b, ok := cl.Call.Value.(*ssa.Builtin); ok && b.Name() == "append" && len(cl.Call.Args) == 2 {
				if _, raw := eng.Derives(cl.Call.Args[1], func(v ssa.Value) bool { return isCallValue(v, "(*types.msgpPayloadMapIter).valueSerializedBytesZC") }, eng.FlowOpts{}); raw {
					rawAppends = append(rawAppends, in)
				}
			}
		}
	})
	reach := func(as *eng.Assume, target ssa.Instruction) bool {
		h := loopHeader(target)
		var start ssa.Instruction
		if h != nil {
			if b := loopBody(h); b != nil {
				start = b.Instrs[0]
			}
		}
		r := eng.Explore(eng.Query{Fn: mm, Assume: as, Start: start, Classify: func(in ssa.Instruction, _ eng.Facts) eng.Event {
			if h != nil && in == h.Instrs[0] {
				return eng.EvKill
			}
			if in == target {
				return eng.EvSink
			}
			return eng.EvNone
		}})
		return len(r.Hits) > 0
	}
	// a predicate helper of the package (`p.serializedElsewhere(key)`) is evaluated under the same assumption:
	// when all its returns are true then, the call is true
	liftHelpers := func(base func(ssa.Value) bool) *eng.Assume {
		var as *eng.Assume
		depth := 0
		as = &eng.Assume{Bool: func(v ssa.Value) eng.Tri {
			if base(v) {
				return eng.True
			}
			cl, ok := v.(*ssa.Call)
			if !ok || depth > 0 {
				return eng.Unknown
			}
			h := cl.Call.StaticCallee()
			if h == nil || h.Pkg != mm.Pkg || len(h.Blocks) == 0 || h.Signature.Results().Len() != 1 || h.Signature.Results().At(0).Type().String() != "bool" {
				return eng.Unknown
			}
			depth++
			defer func() { depth-- }()
			r := eng.Explore(eng.Query{Fn: h, Assume: as, TrackPhi: func(*ssa.Phi) bool { return true }})
			n := 0
			for _, e := range r.Exits {
				ret, isRet := e.Instr.(*ssa.Return)
				if !isRet {
					continue
				}
				n++
				if e.Facts.Bool(e.Facts.Resolve(ret.Results[0])) != eng.True {
					return eng.Unknown
				}
			}
			if n > 0 {
				return eng.True
			}
			return eng.Unknown
		}}
		return as
	}
	asMeta := liftHelpers(isMetaLookup)
	asMemo := liftHelpers(isMemoLookup)
	for _, in := range intfCalls {
		c.Decide(!reach(asMeta, in), r3, "MarshalMsg/memoized-pass-skips-metadata", x.Pos(in), "metadata keys are not emitted again from the memoized map", "a metadata key present in the memoized map is emitted twice (once from its dedicated field, once from the map)")
	}
	for _, in := range rawAppends {
		c.Decide(!reach(asMemo, in), r3, "MarshalMsg/raw-pass-skips-memoized", x.Pos(in), "keys already emitted from the memoized map are skipped in the raw pass", "a key that was memoized (and possibly modified) is emitted again from the raw bytes: the event carries the field twice")
		c.Decide(!reach(asMeta, in), r3, "MarshalMsg/raw-pass-skips-metadata", x.Pos(in), "metadata keys are skipped in the raw pass", "a metadata key is emitted again from the raw bytes")
	}
	c.Min(r3, 3)
	// clause 4
	for _, in := range intfCalls {
		c.Examined++
		val := eng.CallArgs(in.(ssa.CallInstruction))[1]
		// a dominating type test for time.Time on the same value whose positive branch avoids AppendIntf
		guarded := false
		eng.Instrs(mm, func(i2 ssa.Instruction) {
			ta, ok := i2.(*ssa.TypeAssert)
			if !ok || !ta.CommaOk || typeString(ta.AssertedType) != "time.Time" {
				return
			}
			if ta.X != val && !eng.SameObject(ta.X, val) {
				return
			}
			oks := extractOf2(ta, 1)
			as := &eng.Assume{Bool: func(v ssa.Value) eng.Tri {
				for _, o := range oks {
					if v == o {
						return eng.True
					}
				}
				return eng.Unknown
			}}
			r := eng.ReachableSinks(mm, as, i2, func(i3 ssa.Instruction) bool { return i3 == in })
			if len(r.Hits) == 0 && eng.Dominates(i2, in) {
				guarded = true
			}
		})
		// or a type switch arm
		c.Decide(guarded, r4, "MarshalMsg/AppendIntf:time.Time", x.Pos(in), "time values are encoded with the standard timestamp extension before the generic encoder",
			"memoized values are re-encoded with msgp.AppendIntf without a time.Time case: a standard msgpack timestamp (ext -1) in a field that a sampler reads is decoded to time.Time and forwarded as tinylib's private extension 5 (d7 ff … in, c7 0c 05 … out), which Honeycomb cannot read as a time")
	}
	c.Min(r4, 1)

	// ---- clause 4b: integers are written with the encoder of their own signedness ---------------------------------
	// (msgpack has distinct signed and unsigned families; int64(v) of a uint64 at or above 2^63 – trace/span ids,
	// hashes – is forwarded as a negative number, and the other way round)
	const r4b = "C20.integer-encoder-keeps-sign"
	nInt := 0
	for _, f := range x.PkgFuncs("types") {
		eng.Instrs(f, func(in ssa.Instruction) {
			cl, ok := in.(ssa.CallInstruction)
			if !ok {
				return
			}
			n := eng.CalleeName(cl)
			if i := strings.LastIndex(n, "/"); i >= 0 && strings.Contains(n, "tinylib/msgp") {
				n = n[i+1:]
			}
			signedEnc := strings.HasPrefix(n, "msgp.AppendInt") && n != "msgp.AppendIntf"
			unsignedEnc := strings.HasPrefix(n, "msgp.AppendUint")
			if !signedEnc && !unsignedEnc {
				return
			}
			args := eng.CallArgs(cl)
			if len(args) < 2 {
				return
			}
			nInt++
			cv, isConv := args[len(args)-1].(*ssa.Convert)
			if !isConv {
				return
			}
			from, ok1 := cv.X.Type().Underlying().(*types.Basic)
			to, ok2 := cv.Type().Underlying().(*types.Basic)
			if !ok1 || !ok2 || from.Info()&types.IsInteger == 0 || to.Info()&types.IsInteger == 0 {
				return
			}
			fromUnsigned, toUnsigned := from.Info()&types.IsUnsigned != 0, to.Info()&types.IsUnsigned != 0
			if fromUnsigned == toUnsigned {
				return
			}
			// widening an unsigned value into a larger signed type keeps it
			size := func(b *types.Basic) int64 { return types.SizesFor("gc", "amd64").Sizeof(b) }
			if fromUnsigned && size(to) > size(from) {
				return
			}
			c.Examined++
			c.Violate(r4b, BaseName(f)+"/"+n, x.Pos(in), "a "+from.String()+" value is converted to "+to.String()+" and written with "+n+": values outside the common range (an unsigned value at or above 2^63, or a negative one) are forwarded as a different number than the client sent")
		})
	}
	c.Examined += nInt
	c.Hold(r4b, "types/integer-encoders", "types/payload.go", sprintf("%d integer encoder calls in package types, none fed through a sign-changing conversion", nInt))

	// ---- clause 5: what is memoized for a client field is the decoded value itself ------------------------------
	// (MarshalMsg prefers memoized values over the raw bytes, so anything done to a value between decoding and
	// Payload.Set – a "normalisation" for the samplers' benefit – is forwarded to Honeycomb in place of the client's value)
	const r5 = "C20.memoized-as-decoded"
	for _, fn := range []string{"extractCriticalFieldsFromBytes", "MemoizeFields"} {
		f := x.P.Func("types", "Payload", fn)
		if f == nil || f.Blocks == nil {
			continue
		}
		eng.Instrs(f, func(in ssa.Instruction) {
			cl, ok := eng.IsCall(in, nPayloadSet)
			if !ok {
				return
			}
			a := eng.CallArgs(cl)
			if _, isConst := eng.ConstString(a[0]); isConst {
				return // a metadata key set to a computed value
			}
			c.Examined++
			decoded := func(v ssa.Value) bool {
				e, ok := v.(*ssa.Extract)
				if !ok || e.Index != 0 {
					return false
				}
				dc, ok := e.Tuple.(*ssa.Call)
				if !ok {
					return false
				}
				n := eng.CalleeName(dc)
				return strings.HasSuffix(n, "msgp.ReadIntfBytes") || strings.HasSuffix(n, ").valueAny")
			}
			c.Decide(x.mustDeriveOpt(a[1], decoded, true), r5, fn+"/Set", x.Pos(in), "the decoder's result is memoized unchanged",
				"the value memoized for a client field in "+fn+" is not the decoder's result as is (it passes through another function or conversion): since re-encoding prefers memoized values, Honeycomb receives the transformed value (another msgpack type, a truncated number) instead of what the client sent")
		})
	}
	c.Min(r5, 2)

	// ---- clause 6: a one-byte fixmap header is only written for fewer than 16 entries -----------------------------
	const r6 = "C20.map-header-fits"
	{
		isCount := func(v ssa.Value) bool {
			// the field counter: a uint32/int φ that is incremented in the function
			phi, ok := eng.StripConv(v).(*ssa.Phi)
			if !ok {
				return false
			}
			seen := map[*ssa.Phi]bool{}
			var inc func(p *ssa.Phi) bool
			inc = func(p *ssa.Phi) bool {
				if seen[p] {
					return false
				}
				seen[p] = true
				for _, e := range p.Edges {
					switch y := e.(type) {
					case *ssa.BinOp:
						if y.Op == token.ADD {
							return true
						}
					case *ssa.Phi:
						if inc(y) {
							return true
						}
					}
				}
				return false
			}
			return inc(phi)
		}
		n := 0
		eng.Instrs(mm, func(in ssa.Instruction) {
			bo, ok := in.(*ssa.BinOp)
			if !ok || bo.Op != token.OR {
				return
			}
			k, isK := eng.ConstInt(bo.X)
			other := bo.Y
			if !isK {
				k, isK = eng.ConstInt(bo.Y)
				other = bo.X
			}
			if !isK || k != 0x80 || !isCount(other) {
				return
			}
			n++
			c.Examined++
			fifteen := int64(15)
			as := &eng.Assume{Bool: func(v ssa.Value) eng.Tri {
				return eng.EvalRel(v, []eng.RelFact{{A: isCount, BConst: &fifteen, Rel: eng.GT}})
			}}
			r := eng.ReachableSinks(mm, as, nil, func(i2 ssa.Instruction) bool { return i2 == in })
			c.Decide(len(r.Hits) == 0, r6, "MarshalMsg/fixmap", x.Pos(in), "fixmap header only for fewer than 16 entries",
				"a one-byte fixmap header (0x80|n) can be written for 16 or more entries: 0x80|16 is 0x90, an empty array header, so an event with exactly that many fields loses all of them and the rest of the batch is mis-framed")
		})
		if n == 0 {
			c.Hold(r6, "MarshalMsg/map16", x.PosOf(mm.Pos()), "only the three-byte map16 header is written")
		}
	}
}

func extractOf2(v ssa.Value, idx int) []ssa.Value {
	var out []ssa.Value
	if refs := v.Referrers(); refs != nil {
		for _, r := range *refs {
			if e, ok := r.(*ssa.Extract); ok && e.Index == idx {
				out = append(out, e)
			}
		}
	}
	return out
}

func c21(x *Ctx) {
	c := x.C
	c.Explanation = "C21 (trace identity and root status follow the ID-field configuration): decides (1) sibling agreement of the two extractors (raw msgpack bytes, memoized map): both default root to true, both clear it only for a non-empty string parent ID, both unset it for log signals on every exit, both accept only string-typed IDs; (2) order independence – the trace ID taken from configured field names must not depend on the order of entries in the payload: a store guarded only by 'trace ID still empty' inside a loop over payload entries is first-wins in wire/map order; the guard must involve the position in the configured list, or the loop must range over the configured names."
	c.NotCovered = "the contents of IDs; OTLP translation in husky."
	ex1 := x.Fn("C21.sibling-root", "types", "Payload", "extractCriticalFieldsFromBytes")
	ex2 := x.Fn("C21.sibling-root", "types", "Payload", "ExtractMetadata")
	rootF := func(fr eng.FieldRef) bool { return fr.Name == "MetaRefineryRoot" }
	for _, f := range []*ssa.Function{ex1, ex2} {
		if f == nil {
			continue
		}
		name := BaseName(f)
		// log ⇒ Unset on every successful exit
		sig := eng.FieldIs("types", "Payload", "MetaSignalType")
		as := &eng.Assume{Bool: func(v ssa.Value) eng.Tri {
			if b, ok := v.(*ssa.BinOp); ok {
				var other ssa.Value
				if loadsField(b.X, sig) {
					other = b.Y
				} else if loadsField(b.Y, sig) {
					other = b.X
				}
				if s, ok := eng.ConstString(other); other != nil && ok && s == "log" {
					if b.Op.String() == "==" {
						return eng.True
					}
					return eng.False
				}
			}
			// already-extracted shortcut is not the interesting path
			if loadsField(v, eng.FieldIs("types", "Payload", "hasExtractedMetadata")) {
				return eng.False
			}
			return eng.Unknown
		}}
		r := eng.Explore(eng.Query{Fn: f, Assume: as, Classify: func(in ssa.Instruction, _ eng.Facts) eng.Event {
			if cl, ok := eng.IsCall(in, "(*types.nullableBool).Unset"); ok {
				if fr, _, ok := eng.FieldRefOf(eng.Receiver(cl)); ok && rootF(fr) {
					return eng.EvSink
				}
			}
			return eng.EvNone
		}})
		bad := false
		for _, e := range r.Exits {
			ret, isRet := e.Instr.(*ssa.Return)
			if !isRet {
				continue
			}
			if e.Facts.Nil(ret.Results[len(ret.Results)-1]) == eng.False {
				continue
			}
			// the last event before a successful exit must be the Unset: approximate by "some Unset on the path"
			if e.Sinks == 0 {
				bad = true
			}
		}
		c.Decide(!bad, "C21.sibling-root", name+"/log-is-never-root", x.PosOf(f.Pos()), "signal type log ⇒ root flag unset on every successful exit", "for a log event a successful exit leaves the root flag set: one extractor treats logs as root spans, the other does not")
		// root cleared only for a non-empty string parent
		for _, cs := range eng.CallSites([]*ssa.Function{f}, func(n string, _ ssa.CallInstruction) bool { return n == "(*types.nullableBool).Set" }) {
			cl := cs.Instr.(ssa.CallInstruction)
			fr, _, ok := eng.FieldRefOf(eng.Receiver(cl))
			if !ok || !rootF(fr) {
				continue
			}
			k, isK := eng.CallArgs(cl)[0].(*ssa.Const)
			if !isK {
				continue
			}
			if k.Value.String() == "true" {
				c.Hold("C21.sibling-root", name+"/default-root", x.Pos(cs.Instr), "root defaults to true")
				continue
			}
			// Set(false): under the assumption "parent id is the empty string" it must be unreachable
			asEmpty := &eng.Assume{Bool: func(v ssa.Value) eng.Tri {
				if b, ok := v.(*ssa.BinOp); ok && (b.Op.String() == "!=" || b.Op.String() == "==") {
					sx, okx := eng.ConstString(b.X)
					sy, oky := eng.ConstString(b.Y)
					if okx && sx == "" && b.Y.Type().String() == "string" || oky && sy == "" && b.X.Type().String() == "string" {
						var other = b.X
						if okx {
							other = b.Y
						}
						if loadsField(other, func(eng.FieldRef) bool { return true }) {
							return eng.Unknown // a field, not the parent id local
						}
						if b.Op.String() == "!=" {
							return eng.False
						}
						return eng.True
					}
				}
				// the same test written on the length: len(v) > 0, len(v) != 0, len(v) == 0, len(v) >= 1, len(v) < 1
				if b, ok := v.(*ssa.BinOp); ok {
					if cl, ok := b.X.(*ssa.Call); ok {
						if bi, ok := cl.Call.Value.(*ssa.Builtin); ok && bi.Name() == "len" && cl.Call.Args[0].Type().String() == "string" && !loadsField(cl.Call.Args[0], func(eng.FieldRef) bool { return true }) {
							if k, ok := eng.ConstInt(b.Y); ok {
								switch {
								case k == 0 && (b.Op == token.GTR || b.Op == token.NEQ), k == 1 && b.Op == token.GEQ:
									return eng.False
								case k == 0 && (b.Op == token.EQL || b.Op == token.LEQ), k == 1 && b.Op == token.LSS:
									return eng.True
								}
							}
						}
					}
				}
				return eng.Unknown
			}}
			rr := eng.ReachableSinks(f, asEmpty, nil, func(in ssa.Instruction) bool { return in == cs.Instr })
			c.Decide(len(rr.Hits) == 0, "C21.sibling-root", name+"/parent-clears-root", x.Pos(cs.Instr), "root cleared only for a non-empty parent ID", "an empty parent ID clears the root flag in "+name+" (the sibling extractor ignores empty parent IDs)")
		}
	}
	c.Min("C21.sibling-root", 6)

	// ---- clause 1b: a parent-ID field is recognised whatever else the field is used for ------------------------
	// (in the raw-bytes extractor a string field named in ParentNames clears the root flag on every path of its
	// map entry – also when the same field is a sampler key field – as the map extractor does)
	const r1b = "C21.parent-field-always-recognised"
	if ex1 != nil {
		var start ssa.Instruction
		eng.Instrs(ex1, func(in ssa.Instruction) {
			if cl, ok := in.(*ssa.Call); ok && strings.HasSuffix(eng.CalleeName(cl), "msgp.NextType") {
				start = in
			}
		})
		pIdx := func(name string) *ssa.Parameter { return param(ex1, name) }
		tidP, pidP := pIdx("traceIdFieldNames"), pIdx("parentIdFieldNames")
		if start == nil || tidP == nil || pidP == nil {
			c.Undecided(r1b, "extractCriticalFieldsFromBytes", x.PosOf(ex1.Pos()), "cannot find the per-entry type probe or the ID-field name parameters")
		} else if h := loopHeader(start); h == nil {
			c.Undecided(r1b, "extractCriticalFieldsFromBytes", x.Pos(start), "the entries are not processed in a loop")
		} else {
			c.Examined++
			containsOn := func(v ssa.Value, p *ssa.Parameter) bool {
				e, ok := v.(*ssa.Extract)
				if !ok || e.Index != 1 {
					return false
				}
				cl, ok := e.Tuple.(*ssa.Call)
				return ok && strings.HasSuffix(eng.CalleeName(cl), "sliceContains") && len(cl.Call.Args) == 2 && cl.Call.Args[0] == ssa.Value(p)
			}
			isReadStr := func(v ssa.Value, idx int) bool {
				e, ok := v.(*ssa.Extract)
				if !ok || e.Index != idx {
					return false
				}
				cl, ok := e.Tuple.(*ssa.Call)
				return ok && strings.HasSuffix(eng.CalleeName(cl), "msgp.ReadStringBytes")
			}
			as := &eng.Assume{Bool: func(v ssa.Value) eng.Tri {
				if cl, ok := v.(*ssa.Call); ok && eng.CalleeName(cl) == "bytes.HasPrefix" {
					return eng.False // not a meta.* key
				}
				if containsOn(v, tidP) {
					return eng.False
				}
				if containsOn(v, pidP) {
					return eng.True
				}
				if b, ok := v.(*ssa.BinOp); ok {
					if b.X == start.(ssa.Value) && b.Op == token.EQL {
						return eng.True // the value is a msgpack string
					}
					if isReadStr(b.X, 0) {
						if k, ok := eng.ConstString(b.Y); ok && k == "" {
							return triOf(b.Op == token.NEQ) // the parent ID is not empty
						}
					}
				}
				return eng.Unknown
			}, Nil: func(v ssa.Value) eng.Tri {
				if isReadStr(v, 2) {
					return eng.True
				}
				return eng.Unknown
			}}
			r := eng.Explore(eng.Query{Fn: ex1, Assume: as, Start: start, TrackPhi: func(*ssa.Phi) bool { return true }, Classify: func(in ssa.Instruction, _ eng.Facts) eng.Event {
				if cl, ok := eng.IsCall(in, "(*types.nullableBool).Set"); ok {
					if fr, _, ok := eng.FieldRefOf(eng.Receiver(cl)); ok && rootF(fr) {
						if k, isK := eng.CallArgs(cl)[0].(*ssa.Const); isK && k.Value != nil && k.Value.String() == "false" {
							return eng.EvKill
						}
					}
				}
				if in == h.Instrs[0] {
					return eng.EvSink
				}
				return eng.EvNone
			}})
			if len(r.Hits) > 0 {
				o := c.Violate(r1b, "extractCriticalFieldsFromBytes", x.Pos(start), "a non-empty string field named in ParentNames can be passed over without clearing the root flag (for instance because the field was first taken as a sampler key field): the same event is a root span through this extractor and a child through the map extractor")
				o.Path = eng.DescribePath(x.P.Pos, r.Hits[0].Path)
			} else {
				c.Hold(r1b, "extractCriticalFieldsFromBytes", x.Pos(start), "parent-ID field ⇒ root cleared on every path of the entry")
			}
		}
	}

	// ---- clause 1c: a trace ID that is already known is not replaced by a configured ID field ----------------------
	const r1c = "C21.trace-id-not-overwritten"
	tidF := eng.FieldIs("types", "Payload", "MetaTraceID")
	for _, f := range []*ssa.Function{ex1, ex2} {
		if f == nil {
			continue
		}
		for _, w := range eng.FieldWrites([]*ssa.Function{f}, tidF) {
			c.Examined++
			as := &eng.Assume{Bool: func(v ssa.Value) eng.Tri {
				if b, ok := v.(*ssa.BinOp); ok && (b.Op == token.EQL || b.Op == token.NEQ) {
					if k, ok := eng.ConstString(b.Y); ok && k == "" && loadsField(b.X, tidF) {
						return triOf(b.Op == token.NEQ) // a trace ID is already set
					}
				}
				return eng.Unknown
			}}
			r := eng.ReachableSinks(f, as, nil, func(in ssa.Instruction) bool { return in == w.Instr })
			c.Decide(len(r.Hits) == 0, r1c, BaseName(f)+"/MetaTraceID", x.Pos(w.Instr), "written only while no trace ID is known",
				"a configured trace-ID field can overwrite a trace ID that is already set (meta.trace_id, which a forwarding peer serialises first): the trace a span belongs to then depends on the order of the fields on the wire")
		}
	}

	// ---- clause 2: order independence ---------------------------------------------------------------------
	const r2 = "C21.id-order-independent"
	tid := eng.FieldIs("types", "Payload", "MetaTraceID")
	for _, f := range []*ssa.Function{ex1, ex2} {
		if f == nil {
			continue
		}
		name := BaseName(f)
		for _, w := range eng.FieldWrites([]*ssa.Function{f}, tid) {
			st := w.Instr.(*ssa.Store)
			h := loopHeader(st)
			if h == nil {
				continue
			}
			c.Examined++
			// what does the loop range over? configured names ⇒ fine
			overConfigured := false
			for _, in := range h.Instrs {
				_ = in
			}
			eng.Instrs(f, func(in ssa.Instruction) {
				if ia, ok := in.(*ssa.IndexAddr); ok && in.Block() != nil && (in.Block() == h || h.Dominates(in.Block())) && isRangeIndex(ia.Index) {
					if p, ok := ia.X.(*ssa.Parameter); ok && strings.Contains(strings.ToLower(p.Name()), "traceid") {
						overConfigured = true
					}
					if cl, ok := ia.X.(*ssa.Call); ok && strings.Contains(eng.CalleeName(cl), "GetTraceIdFieldNames") {
						overConfigured = true
					}
				}
			})
			// or the guard uses the index into the configured list
			usesIndex := false
			eng.Instrs(f, func(in ssa.Instruction) {
				iff, ok := in.(*ssa.If)
				if !ok || !(in.Block() == h || h.Dominates(in.Block())) || !in.Block().Dominates(st.Block()) {
					return
				}
				if _, d := eng.Derives(iff.Cond, func(v ssa.Value) bool {
					e, ok := v.(*ssa.Extract)
					if ok && e.Index == 0 {
						if cl, ok := e.Tuple.(*ssa.Call); ok && (strings.HasSuffix(eng.CalleeName(cl), "sliceContains")) {
							return true
						}
					}
					return isCallValue(v, "slices.Index", "slices.IndexFunc")
				}, eng.FlowOpts{}); d {
					usesIndex = true
				}
			})
			c.Decide(overConfigured || usesIndex, r2, name+"/MetaTraceID", x.Pos(st), "the winning ID field is chosen by its position in the configured list",
				"inside a loop over the payload's entries the trace ID is taken from the first configured field name that happens to come first in the payload (guard: 'trace ID still empty'): with two configured names present, e.g. {traceId:…, trace.trace_id:…}, the trace ID depends on wire order – and on Go map iteration order in ExtractMetadata – so spans of one trace can be given different trace IDs")
		}
	}
	c.Min(r2, 2)
}
