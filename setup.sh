#!/bin/sh
# Builds the checker offline from the module cache. Needs go1.26.8 (pre-installed) because /repo's go.mod says go 1.25.
set -eu
VERIF=$(cd "$(dirname "$0")" && pwd)
mkdir -p "$VERIF/bin/tc" "$VERIF/evidence" "$VERIF/reports"
GO=$(command -v go1.26.8 || echo /usr/local/bin/go1.26.8)
ln -sf "$GO" "$VERIF/bin/tc/go"
export PATH="$VERIF/bin/tc:$PATH" GOTOOLCHAIN=local GOPROXY=off GOSUMDB=off GOFLAGS=-mod=mod GOWORK=off
cd "$VERIF/checker"
go build -o "$VERIF/bin/refcheck" ./cmd/refcheck
echo "built $VERIF/bin/refcheck with $(go version)"
