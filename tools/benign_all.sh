#!/bin/sh
# Runs every independent behaviour-preserving refactoring in checker/mutants/benign/*.diff against all checks
# (each applied to a scratch worktree of /repo HEAD). Any line printed below a patch name is a false alarm.
# JOBS=n runs n patches at a time (default 3).
cd "$(dirname "$0")/.."
./check C01 quick >/dev/null 2>&1   # make sure the binary is current before the parallel runs
T=$(mktemp -d)
ls checker/mutants/benign/*.diff | xargs -P "${JOBS:-3}" -I{} sh -c '
  out=$(sh tools/try_patch.sh "{}" all 2>&1 | grep -E "^VIOLATION|BROKEN|error:" | sed "s/replay=[^ ]*//")
  if [ -n "$out" ]; then { echo "== {}"; echo "$out"; } > "'$T'/$(basename {}).alarm"; fi'
rc=0
for a in "$T"/*.alarm; do [ -e "$a" ] && { cat "$a"; rc=1; }; done
rm -rf "$T"
[ $rc = 0 ] && echo "all benign refactorings silent"
exit $rc
