package rules

import (
	"go/token"
	"go/types"

	"golang.org/x/tools/go/ssa"

	"refcheck/internal/eng"
)

// A service loop is a loop that blocks on channel input (range over a channel,
// receive, select): it lives as long as the component, so a configuration value
// read before it is frozen for the life of the process.

type svcLoop struct {
	Header *ssa.BasicBlock
	Blocks map[*ssa.BasicBlock]bool
}

func serviceLoops(f *ssa.Function) []svcLoop {
	var out []svcLoop
	for _, h := range f.Blocks {
		isHeader := false
		for _, p := range h.Preds {
			if p == h || h.Dominates(p) {
				isHeader = true
			}
		}
		if !isHeader {
			continue
		}
		l := svcLoop{Header: h, Blocks: map[*ssa.BasicBlock]bool{}}
		for _, b := range f.Blocks {
			if b == h {
				l.Blocks[b] = true
				continue
			}
			if !h.Dominates(b) {
				continue
			}
			for _, p := range h.Preds {
				if (p == h || h.Dominates(p)) && reachesAvoiding(b, p, h) {
					l.Blocks[b] = true
				}
			}
		}
		blocking := false
		for b := range l.Blocks {
			for _, in := range b.Instrs {
				switch y := in.(type) {
				case *ssa.UnOp:
					if y.Op == token.ARROW {
						blocking = true
					}
				case *ssa.Select:
					if y.Blocking {
						blocking = true
					}
				case *ssa.Next:
					if _, ok := y.Iter.(*ssa.Range); ok {
						if r := y.Iter.(*ssa.Range); r != nil {
							if _, isChan := r.X.Type().Underlying().(*types.Chan); isChan {
								blocking = true
							}
						}
					}
				}
			}
		}
		if blocking {
			out = append(out, l)
		}
	}
	return out
}

// frozenBeforeServiceLoop reports whether the value produced at `site` (a call
// reading configuration) is computed outside every service loop of its
// function but consumed inside one.
func frozenBeforeServiceLoop(site ssa.Instruction) (bool, ssa.Instruction) {
	f := site.Parent()
	v, ok := site.(ssa.Value)
	if !ok {
		return false, nil
	}
	loops := serviceLoops(f)
	if len(loops) == 0 {
		return false, nil
	}
	for _, l := range loops {
		if l.Blocks[site.Block()] {
			return false, nil
		}
	}
	for _, l := range loops {
		for b := range l.Blocks {
			for _, in := range b.Instrs {
				var ops []*ssa.Value
				for _, op := range in.Operands(ops) {
					if *op == nil {
						continue
					}
					if _, d := eng.Derives(*op, func(w ssa.Value) bool { return w == v }, eng.FlowOpts{}); d {
						return true, in
					}
				}
			}
		}
	}
	return false, nil
}
