package rules

import (
	"go/token"
	"strings"

	"golang.org/x/tools/go/ssa"

	"refcheck/internal/eng"
)

func init() { Register("C24", c24); Register("C25", c25) }

const (
	nIsAccepted = "(*config.AccessKeyConfig).IsAccepted"
	nReplaceKey = "(*config.AccessKeyConfig).GetReplaceKey"
)

func isValidateHeaders(v ssa.Value) bool {
	c, ok := v.(*ssa.Call)
	if !ok {
		return false
	}
	n := eng.CalleeName(c)
	return strings.Contains(n, "husky/otlp.RequestInfo).Validate") && strings.HasSuffix(n, "Headers")
}

func c24(x *Ctx) {
	c := x.C
	c.Explanation = "C24 (uniform authorization and key replacement): for each of the five ingestion entry points (JSON/msgpack middleware, OTLP/HTTP traces and logs, OTLP/gRPC traces and logs) decides R1 – the acceptance check lies on every path to processing and is applied to the key the client sent, not to a key that already went through replacement; R2 – the key handed to processing derives from GetReplaceKey; R3 – a blank key cannot reach processing: under the assumption that replacement reported a blank key and the OTLP header validation reported a missing key, processing is unreachable; plus the SendKeyMode table (documented choices = cases of GetReplaceKey)."
	c.NotCovered = "the replacement table's values per mode; the contents of key lists."
	route := x.PkgFuncs("route")
	isProcessing := func(in ssa.Instruction) bool {
		cl, ok := in.(ssa.CallInstruction)
		if !ok {
			return false
		}
		switch eng.CalleeName(cl) {
		case "(net/http.Handler).ServeHTTP", "(*route.Router).processOTLPRequest", "(*route.Router).processOTLPRequestBatchMsgp", "(*route.Router).processOTLPRequestWithMsgp",
			"(*route.TraceServer).ExportTraceData":
			return true
		}
		// the gRPC interceptor chain ends in ExportTraceData
		if _, isP := cl.Common().Value.(*ssa.Parameter); isP && strings.Contains(cl.Common().Value.Type().String(), "UnaryServerInterceptor") {
			return true
		}
		return false
	}
	// entry points: functions that call GetReplaceKey
	entries := map[*ssa.Function]bool{}
	for _, s := range eng.CallSites(route, func(n string, _ ssa.CallInstruction) bool { return n == nReplaceKey }) {
		entries[s.Fn] = true
	}
	c.Info["entry_points"] = func() []string {
		var out []string
		for f := range entries {
			out = append(out, FName(f))
		}
		return out
	}()
	flow := eng.FlowOpts{}
	var derivedFromReplace func(v ssa.Value, at ssa.Instruction, fn *ssa.Function, depth int) bool
	derivedFromReplace = func(v ssa.Value, at ssa.Instruction, fn *ssa.Function, depth int) bool {
		o := flow
		o.At = at
		if depth < 2 {
			o.Callers = func(p *ssa.Parameter) []ssa.Value { return x.callerArgs(p.Parent(), p) }
		}
		_, ok := eng.Derives(v, func(w ssa.Value) bool { return isExtractOf(w, 0, nReplaceKey) }, o)
		return ok
	}

	// mustCarryReplaced: when the key travels in a field of a local struct (ri.ApiKey, or ri passed whole), the
	// field is assigned the replaced key on EVERY path to the use, not just on one of them.
	mustCarryReplaced := func(a ssa.Value, use ssa.Instruction, fn *ssa.Function) bool {
		ld, ok := a.(*ssa.UnOp)
		if !ok || ld.Op != token.MUL {
			return true
		}
		var al *ssa.Alloc
		keyField := func(fr eng.FieldRef) bool { return fr.Name == "ApiKey" }
		switch y := ld.X.(type) {
		case *ssa.Alloc: // the struct passed by value
			al = y
		case *ssa.FieldAddr: // one field of it
			if base, ok := y.X.(*ssa.Alloc); ok {
				al = base
				name := ""
				if fr, _, ok := eng.FieldRefOf(y); ok {
					name = fr.Name
				}
				keyField = func(fr eng.FieldRef) bool { return fr.Name == name }
			}
		}
		if al == nil || al.Parent() != fn {
			return true
		}
		r := eng.Explore(eng.Query{Fn: fn, Classify: func(in ssa.Instruction, _ eng.Facts) eng.Event {
			if st, ok := in.(*ssa.Store); ok {
				if fr, base, ok := eng.FieldRefOf(st.Addr); ok && base == ssa.Value(al) && keyField(fr) && derivedFromReplace(st.Val, in, fn, 0) {
					return eng.EvKill
				}
			}
			if in == use {
				return eng.EvSink
			}
			return eng.EvNone
		}})
		return len(r.Hits) == 0
	}

	// ---- R1 ------------------------------------------------------------------------------------
	const r1 = "C24.R1-accept-client-key"
	accSites := eng.CallSites(route, func(n string, _ ssa.CallInstruction) bool { return n == nIsAccepted })
	for _, s := range accSites {
		c.Examined++
		key := eng.CallArgs(s.Instr.(ssa.CallInstruction))[0]
		c.Decide(!derivedFromReplace(key, s.Instr, s.Fn, 0), r1, BaseName(eng.Root(s.Fn))+"/IsAccepted-argument", x.Pos(s.Instr), "acceptance is decided on the key the client sent",
			"IsAccepted is applied to a key that already went through GetReplaceKey: with AcceptOnlyListedKeys and a SendKeyMode that replaces the key (e.g. 'all') an unlisted client key is accepted on this protocol and rejected on the others")
	}
	for f := range entries {
		c.Examined++
		// every path from entry to processing passes IsAccepted (here or – for the gRPC trace handler – before replacement)
		r := eng.Explore(eng.Query{Fn: f, Classify: func(in ssa.Instruction, _ eng.Facts) eng.Event {
			if _, ok := eng.IsCall(in, nIsAccepted); ok {
				return eng.EvKill
			}
			if isProcessing(in) {
				return eng.EvSink
			}
			return eng.EvNone
		}})
		if len(r.Hits) > 0 {
			o := c.Violate(r1, BaseName(eng.Root(f))+"/accept-before-processing", x.Pos(r.Hits[0].Instr), "a path reaches processing without the acceptance check on the client's key")
			o.Path = eng.DescribePath(x.P.Pos, r.Hits[0].Path)
		} else {
			c.Hold(r1, BaseName(eng.Root(f))+"/accept-before-processing", x.PosOf(f.Pos()), "IsAccepted on every path to processing")
		}
	}
	c.Min(r1, 9)

	// ---- R2 -------------------------------------------------------------------------------------
	const r2 = "C24.R2-replaced-key-used"
	for f := range entries {
		eng.Instrs(f, func(in ssa.Instruction) {
			if !isProcessing(in) {
				return
			}
			cl := in.(ssa.CallInstruction)
			n := eng.CalleeName(cl)
			c.Examined++
			ok := false
			switch {
			case n == "(net/http.Handler).ServeHTTP":
				// header rewritten with the replacement when it differs
				eng.Instrs(f, func(i2 ssa.Instruction) {
					if h, isH := eng.IsCall(i2, "(net/http.Header).Set"); isH && eng.Dominates(i2, in) || isH && eng.MayPrecede(i2, in) {
						a := eng.CallArgs(h)
						if len(a) == 2 && derivedFromReplace(a[1], i2, f, 0) {
							ok = true
						}
					}
				})
			default:
				// every argument that carries the key (a string parameter whose name mentions the key, or the
				// OTLP RequestInfo) must derive from the replacement
				callee := cl.Common().StaticCallee()
				nKey, nOK := 0, 0
				for i, a := range eng.CallArgs(cl) {
					pname := ""
					if callee != nil && i+1 < len(callee.Params) {
						pname = strings.ToLower(callee.Params[i+1].Name())
					}
					isKey := a.Type().String() == "string" && strings.Contains(pname, "key")
					isRI := strings.HasSuffix(a.Type().String(), "RequestInfo")
					if !isKey && !isRI {
						continue
					}
					nKey++
					if derivedFromReplace(a, in, f, 0) && mustCarryReplaced(a, in, f) {
						nOK++
					}
				}
				ok = nKey > 0 && nOK == nKey
				if _, isP := cl.Common().Value.(*ssa.Parameter); isP {
					ok = true // interceptor chain: the handler closure is checked at its own call site
				}
			}
			c.Decide(ok, r2, BaseName(eng.Root(f))+"/"+eng.MethodBase(n), x.Pos(in), "processing receives the key returned by GetReplaceKey", "processing is given a key that does not come from GetReplaceKey: SendKeyMode replacement is skipped on this protocol")
		})
	}
	c.Min(r2, 5)

	// ---- R2b: the key ID handed to acceptance and replacement is resolved whenever key IDs are configured -----
	const r2b = "C24.key-id-resolved"
	for f := range entries {
		eng.Instrs(f, func(in ssa.Instruction) {
			cl, ok := eng.IsCall(in, nIsAccepted, nReplaceKey)
			if !ok {
				return
			}
			args := eng.CallArgs(cl)
			if len(args) < 2 {
				return
			}
			c.Examined++
			as := &eng.Assume{Bool: func(v ssa.Value) eng.Tri {
				if isCallValue(v, "(*config.AccessKeyConfig).HasKeyIDs") {
					return eng.True
				}
				return eng.Unknown
			}}
			blank := false
			var path []*ssa.BasicBlock
			r := eng.Explore(eng.Query{Fn: f, Assume: as, TrackPhi: func(*ssa.Phi) bool { return true }, Classify: func(i2 ssa.Instruction, F eng.Facts) eng.Event {
				if i2 == in {
					if k, ok := eng.ConstString(F.Resolve(args[1])); ok && k == "" {
						blank = true
					}
					return eng.EvSink
				}
				return eng.EvNone
			}})
			if blank {
				for _, h := range r.Hits {
					if k, ok := eng.ConstString(h.Facts.Resolve(args[1])); ok && k == "" {
						path = h.Path
					}
				}
			}
			key := BaseName(eng.Root(f)) + "/" + eng.MethodBase(eng.CalleeName(cl))
			if blank {
				o := c.Violate(r2b, key, x.Pos(in), "with ReceiveKeyIDs configured a path reaches this call with a blank key ID (the lookup is skipped under some other condition): a key listed by its ID is treated as unlisted here, so this endpoint accepts or replaces keys differently from the others")
				o.Path = eng.DescribePath(x.P.Pos, path)
			} else {
				c.Hold(r2b, key, x.Pos(in), "HasKeyIDs() ⇒ the key ID comes from the lookup")
			}
		})
	}
	c.Min(r2b, 8)

	// ---- R0: the acceptance predicate itself ------------------------------------------------------------------
	const r0 = "C24.accept-predicate"
	if ia := x.Fn(r0, "config", "AccessKeyConfig", "IsAccepted"); ia != nil && len(ia.Params) >= 3 {
		keyP, idP := ia.Params[1], ia.Params[2]
		fld := func(name string) func(ssa.Value) bool {
			return func(v ssa.Value) bool { return loadsField(v, eng.FieldIs("config", "AccessKeyConfig", name)) }
		}
		type scen struct {
			name                                       string
			only, eqSend, sendSet, listed, hasID, idOK eng.Tri
			wantNil                                    bool
		}
		U, T, F := eng.Unknown, eng.True, eng.False
		scens := []scen{
			{"lists-off", F, U, U, U, U, U, true},
			{"equals-sendkey", T, T, T, U, U, U, true},
			{"key-listed", T, U, U, T, U, U, true},
			{"key-id-listed", T, U, U, U, T, T, true},
			{"nothing-matches", T, F, U, F, U, F, false},
		}
		for _, sc := range scens {
			c.Examined++
			as := &eng.Assume{Bool: func(v ssa.Value) eng.Tri {
				if fld("AcceptOnlyListedKeys")(v) {
					return sc.only
				}
				if cl, ok := v.(*ssa.Call); ok && strings.Contains(eng.CalleeName(cl), "slices.Contains") && len(cl.Call.Args) == 2 {
					switch {
					case fld("ReceiveKeys")(cl.Call.Args[0]) && cl.Call.Args[1] == ssa.Value(keyP):
						return sc.listed
					case fld("ReceiveKeyIDs")(cl.Call.Args[0]) && cl.Call.Args[1] == ssa.Value(idP):
						return sc.idOK
					}
					return eng.Unknown
				}
				b, ok := v.(*ssa.BinOp)
				if !ok {
					return eng.Unknown
				}
				pol := func(t eng.Tri) eng.Tri { // value of the comparison given the truth of its `==` / `>` reading
					switch b.Op {
					case token.EQL, token.GTR:
						return t
					case token.NEQ, token.LEQ:
						return t.Not()
					}
					return eng.Unknown
				}
				isLenSend := func(w ssa.Value) bool {
					cl, ok := w.(*ssa.Call)
					if !ok {
						return false
					}
					bi, ok := cl.Call.Value.(*ssa.Builtin)
					return ok && bi.Name() == "len" && fld("SendKey")(cl.Call.Args[0])
				}
				isZero := func(w ssa.Value) bool { k, ok := eng.ConstInt(w); return ok && k == 0 }
				isEmpty := func(w ssa.Value) bool { k, ok := eng.ConstString(w); return ok && k == "" }
				switch {
				case b.X == ssa.Value(keyP) && fld("SendKey")(b.Y), b.Y == ssa.Value(keyP) && fld("SendKey")(b.X):
					if b.Op == token.EQL || b.Op == token.NEQ {
						return pol(sc.eqSend)
					}
				case isLenSend(b.X) && isZero(b.Y) && (b.Op == token.GTR || b.Op == token.NEQ):
					return sc.sendSet
				case isLenSend(b.X) && isZero(b.Y) && b.Op == token.EQL:
					return sc.sendSet.Not()
				case fld("SendKey")(b.X) && isEmpty(b.Y) && (b.Op == token.EQL || b.Op == token.NEQ):
					return pol(sc.sendSet.Not())
				case b.X == ssa.Value(idP) && isEmpty(b.Y) && (b.Op == token.EQL || b.Op == token.NEQ):
					return pol(sc.hasID.Not())
				}
				return eng.Unknown
			}}
			r := eng.Explore(eng.Query{Fn: ia, Assume: as, TrackPhi: func(*ssa.Phi) bool { return true }})
			bad, n := false, 0
			for _, e := range r.Exits {
				ret, isRet := e.Instr.(*ssa.Return)
				if !isRet || len(ret.Results) != 1 {
					continue
				}
				n++
				got := e.Facts.Nil(e.Facts.Resolve(ret.Results[0]))
				if sc.wantNil && got != eng.True || !sc.wantNil && got != eng.False {
					bad = true
				}
			}
			want := "accepted"
			if !sc.wantNil {
				want = "refused"
			}
			c.Decide(!bad && n > 0, r0, "IsAccepted/"+sc.name, x.PosOf(ia.Pos()), "every path is "+want,
				"in the case '"+sc.name+"' IsAccepted is not "+want+" on every path: acceptance depends on something other than AcceptOnlyListedKeys, the listed keys / key IDs and equality with SendKey")
		}
	}
	c.Min(r0, 5)

	// ---- R0b: whether the key ID is looked up depends only on key IDs being configured -------------------------------
	const r0b = "C24.has-key-ids-predicate"
	if hk := x.P.Func("config", "AccessKeyConfig", "HasKeyIDs"); hk != nil && hk.Blocks != nil {
		c.Examined++
		idsF := eng.FieldIs("config", "AccessKeyConfig", "ReceiveKeyIDs")
		isLen := func(w ssa.Value) bool {
			cl, ok := w.(*ssa.Call)
			if !ok {
				return false
			}
			bi, ok := cl.Call.Value.(*ssa.Builtin)
			return ok && bi.Name() == "len" && loadsField(cl.Call.Args[0], idsF)
		}
		zero := int64(0)
		for _, sc := range []struct {
			name string
			rel  eng.RelSet
			want eng.Tri
		}{{"configured", eng.GT, eng.True}, {"not-configured", eng.EQ, eng.False}} {
			as := &eng.Assume{Bool: func(v ssa.Value) eng.Tri {
				return eng.EvalRel(v, []eng.RelFact{{A: isLen, BConst: &zero, Rel: sc.rel}})
			}}
			r := eng.Explore(eng.Query{Fn: hk, Assume: as, TrackPhi: func(*ssa.Phi) bool { return true }})
			ok, n := true, 0
			for _, e := range r.Exits {
				if ret, isRet := e.Instr.(*ssa.Return); isRet && len(ret.Results) == 1 {
					n++
					if e.Facts.Bool(e.Facts.Resolve(ret.Results[0])) != sc.want {
						ok = false
					}
				}
			}
			c.Decide(ok && n > 0, r0b, "HasKeyIDs/"+sc.name, x.PosOf(hk.Pos()), "depends on ReceiveKeyIDs being configured only",
				"HasKeyIDs does not answer '"+map[eng.Tri]string{eng.True: "yes", eng.False: "no"}[sc.want]+"' on every path when key IDs are "+sc.name+" (it also looks at the mode or at AcceptOnlyListedKeys): every endpoint uses it to decide whether to resolve the client's key ID, so in the modes it forgets a key listed by its ID is treated as unlisted and replaced")
		}
	}

	// ---- R0c: the configured key lists are never written after loading --------------------------------------------------
	const r0c = "C24.key-lists-immutable"
	{
		listF := eng.FieldIs("config", "AccessKeyConfig", "ReceiveKeys", "ReceiveKeyIDs")
		n := 0
		for _, f := range x.RepoFuncs() {
			eng.Instrs(f, func(in ssa.Instruction) {
				st, ok := in.(*ssa.Store)
				if !ok {
					return
				}
				ia, ok := st.Addr.(*ssa.IndexAddr)
				if !ok {
					return
				}
				if _, d := eng.Derives(ia.X, func(v ssa.Value) bool { return loadsField(v, listF) }, eng.FlowOpts{}); !d {
					return
				}
				n++
				c.Examined++
				c.Violate(r0c, BaseName(f)+"/element-store", x.Pos(in), "an element of the configured ReceiveKeys / ReceiveKeyIDs list is overwritten: GetAccessKeyConfig hands out a struct copy whose slices share their backing array with the live configuration, so the change (e.g. masking keys for a report) alters which keys every endpoint accepts and replaces")
			})
		}
		if n == 0 {
			c.Hold(r0c, "AccessKeyConfig/lists", "config/file_config.go", "no store into elements of the configured key lists")
		}
	}

	// ---- R0d: the middleware does not remove the client's key header ------------------------------------------------------
	const r0d = "C24.key-header-kept"
	for f := range entries {
		if !strings.Contains(FName(f), "apiKeyProcessor") {
			continue
		}
		c.Examined++
		var del ssa.Instruction
		eng.Instrs(f, func(in ssa.Instruction) {
			if cl, ok := eng.IsCall(in, "(net/http.Header).Del"); ok {
				if k, ok := eng.ConstString(eng.CallArgs(cl)[0]); ok && strings.Contains(strings.ToLower(k), "team") {
					del = in
				}
			}
		})
		p := x.PosOf(f.Pos())
		if del != nil {
			p = x.Pos(del)
		}
		c.Decide(del == nil, r0d, BaseName(eng.Root(f)), p, "the key headers of the request are only ever set, never deleted",
			"the middleware deletes an API-key header of the request: when the key is not replaced (the replacement equals the client's key) nothing puts it back, so the handlers downstream read a blank key and the event leaves Refinery without an API key")
	}

	// ---- R3 --------------------------------------------------------------------------------------
	const r3 = "C24.R3-blank-key-blocked"
	for f := range entries {
		c.Examined++
		var replaceCalls []ssa.CallInstruction
		eng.Instrs(f, func(in ssa.Instruction) {
			if cl, ok := eng.IsCall(in, nReplaceKey); ok {
				replaceCalls = append(replaceCalls, cl)
			}
		})
		as := &eng.Assume{
			Nil: func(v ssa.Value) eng.Tri {
				if isExtractOf(v, 1, nReplaceKey) {
					return eng.False // replacement reported an error (blank key)
				}
				if isValidateHeaders(v) {
					return eng.False // header validation reported an error …
				}
				return eng.Unknown
			},
			Bool: func(v ssa.Value) eng.Tri {
				b, ok := v.(*ssa.BinOp)
				if !ok {
					return eng.Unknown
				}
				// … namely ErrMissingAPIKeyHeader
				if b.Op == token.EQL || b.Op == token.NEQ {
					var other ssa.Value
					if isValidateHeaders(b.X) {
						other = b.Y
					} else if isValidateHeaders(b.Y) {
						other = b.X
					}
					if other != nil {
						name := ""
						eng.Derives(other, func(w ssa.Value) bool {
							if g, ok := w.(*ssa.Global); ok {
								name = g.Name()
							}
							return false
						}, eng.FlowOpts{})
						if name != "" {
							t := eng.False
							if name == "ErrMissingAPIKeyHeader" {
								t = eng.True
							}
							if b.Op == token.NEQ {
								return t.Not()
							}
							return t
						}
					}
					// len(replaced key) == 0
					lenOf := func(u ssa.Value) bool {
						cl, ok := u.(*ssa.Call)
						if !ok {
							return false
						}
						bi, ok := cl.Call.Value.(*ssa.Builtin)
						return ok && bi.Name() == "len" && isExtractOf(cl.Call.Args[0], 0, nReplaceKey)
					}
					isZero := func(u ssa.Value) bool { k, ok := eng.ConstInt(u); return ok && k == 0 }
					if lenOf(b.X) && isZero(b.Y) || lenOf(b.Y) && isZero(b.X) {
						if b.Op == token.EQL {
							return eng.True
						}
						return eng.False
					}
					// replaced == ""
					isEmpty := func(u ssa.Value) bool { s, ok := eng.ConstString(u); return ok && s == "" }
					if isExtractOf(b.X, 0, nReplaceKey) && isEmpty(b.Y) || isExtractOf(b.Y, 0, nReplaceKey) && isEmpty(b.X) {
						if b.Op == token.EQL {
							return eng.True
						}
						return eng.False
					}
				}
				return eng.Unknown
			},
		}
		var start ssa.Instruction
		if len(replaceCalls) > 0 {
			start = replaceCalls[0]
		}
		r := eng.Explore(eng.Query{Fn: f, Assume: as, Start: start, Classify: func(in ssa.Instruction, _ eng.Facts) eng.Event {
			if isProcessing(in) {
				return eng.EvSink
			}
			return eng.EvNone
		}})
		if len(r.Hits) > 0 {
			o := c.Violate(r3, BaseName(eng.Root(f)), x.Pos(r.Hits[0].Instr), "when the client sends no API key and the configuration does not supply one (GetReplaceKey reports an error) the request still reaches processing: events are forwarded with a blank key")
			o.Path = eng.DescribePath(x.P.Pos, r.Hits[0].Path)
		} else {
			c.Hold(r3, BaseName(eng.Root(f)), x.PosOf(f.Pos()), "blank key ⇒ request rejected before processing")
		}
	}
	c.Min(r3, 5)

	// ---- SendKeyMode table ----------------------------------------------------------------------------
	const r4 = "C24.sendkeymode-table"
	if g := x.Fn(r4, "config", "AccessKeyConfig", "GetReplaceKey"); g != nil {
		ts := x.switches(x.pkgOf(g), g.Syntax(), func(tag string) bool { return strings.HasSuffix(tag, ".SendKeyMode") })
		meta := x.loadMeta(r4, "config/metadata/configMeta.yaml")
		if len(ts) == 1 && meta != nil {
			f := meta.Field("AccessKeys", "SendKeyMode")
			if f == nil {
				c.Unresolved(r4, "configMeta/AccessKeys.SendKeyMode", "field not documented")
			} else {
				got, want := toSet(ts[0].Sorted()), toSet(f.Choices)
				m1, m2 := setDiff(want, got), setDiff(got, want)
				c.Decide(len(m1) == 0 && len(m2) == 0, r4, "GetReplaceKey/modes", x.PosOf(ts[0].Pos), "documented SendKeyMode choices = handled cases", "SendKeyMode choices without a case: ["+quoteList(m1)+"]; cases not documented: ["+quoteList(m2)+"] – an accepted mode silently behaves like 'none'")
			}
		} else if len(ts) != 1 {
			c.Undecided(r4, "GetReplaceKey/switch", x.PosOf(g.Pos()), "no switch on SendKeyMode found")
		}
	}
	c.Min(r4, 1)
}

func c25(x *Ctx) {
	c := x.C
	c.Explanation = "C25 (query endpoints require the token): decides that the query middleware calls the next handler only on paths where the configured token is non-empty and an exact string equality between the request header and the configured token held; that every handler registered under the /query/ prefix is registered on the sub-router that uses the middleware, and none of those handler methods is registered on any other router."
	c.NotCovered = "constant-time comparison and transport security."
	const r1 = "C25.exact-compare"
	qc := x.Fn(r1, "route", "Router", "queryTokenChecker")
	if qc != nil && len(qc.AnonFuncs) == 1 {
		h := qc.AnonFuncs[0]
		isNext := func(in ssa.Instruction) bool { _, ok := eng.IsCall(in, "(net/http.Handler).ServeHTTP"); return ok }
		isTok := func(v ssa.Value) bool { return isCallValue(v, "(config.Config).GetQueryAuthToken") }
		isHdr := func(v ssa.Value) bool { return isCallValue(v, "(net/http.Header).Get") }
		// (a) empty configured token ⇒ next unreachable
		asEmpty := &eng.Assume{Bool: func(v ssa.Value) eng.Tri {
			if b, ok := v.(*ssa.BinOp); ok && (b.Op == token.EQL || b.Op == token.NEQ) {
				var other ssa.Value
				if isTok(b.X) {
					other = b.Y
				} else if isTok(b.Y) {
					other = b.X
				}
				if s, ok := eng.ConstString(other); other != nil && ok && s == "" {
					if b.Op == token.EQL {
						return eng.True
					}
					return eng.False
				}
			}
			return eng.Unknown
		}}
		r := eng.ReachableSinks(h, asEmpty, nil, isNext)
		c.Decide(len(r.Hits) == 0, "C25.nonempty-token", "queryTokenChecker/empty-config", x.PosOf(h.Pos()), "no configured token ⇒ query endpoints refuse", "with an empty QueryAuthToken the query handlers are reachable (an empty header equals the empty token)")
		// (b) header != token ⇒ next unreachable; the comparison is a plain ==
		var cmp *ssa.BinOp
		eng.Instrs(h, func(in ssa.Instruction) {
			if b, ok := in.(*ssa.BinOp); ok && (b.Op == token.EQL || b.Op == token.NEQ) {
				if isHdr(b.X) && isTok(b.Y) || isHdr(b.Y) && isTok(b.X) {
					cmp = b
				}
			}
		})
		if cmp == nil {
			c.Violate(r1, "queryTokenChecker/comparison", x.PosOf(h.Pos()), "the request token and the configured token are not compared with an exact string equality (case-folding, prefix or helper comparison): tokens that differ are accepted")
		} else {
			asNe := &eng.Assume{Bool: func(v ssa.Value) eng.Tri {
				if v == ssa.Value(cmp) {
					if cmp.Op == token.EQL {
						return eng.False
					}
					return eng.True
				}
				return eng.Unknown
			}}
			r := eng.ReachableSinks(h, asNe, nil, isNext)
			c.Decide(len(r.Hits) == 0, r1, "queryTokenChecker/comparison", x.Pos(cmp), "next handler only when header == configured token", "the next handler is reachable although the header differs from the configured token")
		}
		// no other path to next: every path passes the comparison
		r = eng.Explore(eng.Query{Fn: h, Classify: func(in ssa.Instruction, _ eng.Facts) eng.Event {
			if cmp != nil && in == ssa.Instruction(cmp) {
				return eng.EvKill
			}
			if isNext(in) {
				return eng.EvSink
			}
			return eng.EvNone
		}})
		c.Decide(len(r.Hits) == 0, r1, "queryTokenChecker/all-paths-compare", x.PosOf(h.Pos()), "every path to the next handler evaluates the comparison", "a path reaches the next handler without comparing the token")
	} else if qc != nil {
		c.Undecided(r1, "queryTokenChecker/shape", x.PosOf(qc.Pos()), "the middleware is not a single handler literal")
	}
	c.Min(r1, 2)
	c.Min("C25.nonempty-token", 1)

	// ---- registration ------------------------------------------------------------------------------
	const r2 = "C25.under-checker"
	lns := x.Fn(r2, "route", "Router", "LnS")
	if lns != nil {
		// find the sub-router: result of Subrouter() on PathPrefix("/query/")…, and the Use(queryTokenChecker) on it
		var queryRouters []ssa.Value
		eng.Instrs(lns, func(in ssa.Instruction) {
			cl, ok := eng.IsCall(in, "(*github.com/gorilla/mux.Route).Subrouter")
			if !ok {
				return
			}
			_, fromQuery := eng.Derives(eng.Receiver(cl), func(v ssa.Value) bool {
				pc, ok := v.(*ssa.Call)
				if !ok || eng.CalleeName(pc) != "(*github.com/gorilla/mux.Router).PathPrefix" {
					return false
				}
				s, ok := eng.ConstString(eng.CallArgs(pc)[0])
				return ok && strings.HasPrefix(s, "/query")
			}, eng.FlowOpts{ThroughCalls: true})
			if fromQuery {
				queryRouters = append(queryRouters, cl.(ssa.Value))
			}
		})
		if len(queryRouters) != 1 {
			c.Undecided(r2, "LnS/query-subrouter", x.PosOf(lns.Pos()), sprintf("expected one sub-router for the /query/ prefix, found %d", len(queryRouters)))
		} else {
			qr := queryRouters[0]
			uses := false
			eng.Instrs(lns, func(in ssa.Instruction) {
				if cl, ok := eng.IsCall(in, "(*github.com/gorilla/mux.Router).Use"); ok && eng.Receiver(cl) == qr {
					if _, d := eng.Derives(eng.CallArgs(cl)[0], func(v ssa.Value) bool {
						return strings.Contains(v.String(), "queryTokenChecker")
					}, eng.FlowOpts{}); d {
						uses = true
					}
				}
			})
			c.Decide(uses, r2, "LnS/query-subrouter-uses-checker", x.PosOf(lns.Pos()), "the /query/ sub-router uses queryTokenChecker", "the /query/ sub-router does not install the token checker")
			// handler registrations
			queryHandlers := map[string]bool{}
			type reg struct {
				in      ssa.Instruction
				handler string
				onQuery bool
				path    string
			}
			var regs []reg
			eng.Instrs(lns, func(in ssa.Instruction) {
				cl, ok := eng.IsCall(in, "(*github.com/gorilla/mux.Router).HandleFunc", "(*github.com/gorilla/mux.Router).Handle")
				if !ok {
					return
				}
				a := eng.CallArgs(cl)
				path, _ := eng.ConstString(a[0])
				h := ""
				eng.Derives(a[1], func(v ssa.Value) bool {
					if mc, ok := v.(*ssa.MakeClosure); ok {
						h = strings.TrimSuffix(mc.Fn.Name(), "$bound")
					}
					if f, ok := v.(*ssa.Function); ok && h == "" {
						h = strings.TrimSuffix(f.Name(), "$bound")
					}
					return false
				}, eng.FlowOpts{ThroughCalls: true})
				on := eng.Receiver(cl) == qr
				if on {
					queryHandlers[h] = true
				}
				regs = append(regs, reg{in, h, on, path})
			})
			for _, rg := range regs {
				c.Examined++
				switch {
				case rg.onQuery:
					c.Hold(r2, rg.handler, x.Pos(rg.in), "registered behind the token checker")
				case queryHandlers[rg.handler]:
					c.Violate(r2, rg.handler, x.Pos(rg.in), "query handler "+rg.handler+" is also registered on a router without the token checker (path "+rg.path+")")
				case strings.HasPrefix(rg.path, "/query"):
					c.Violate(r2, rg.handler, x.Pos(rg.in), "a /query/ route is registered outside the sub-router that requires the token")
				}
			}
			// handlers that expose configuration must be among the query handlers
			for _, name := range []string{"getSamplerRules", "getAllSamplerRules", "getConfigMetadata", "debugTrace"} {
				if x.P.Func("route", "Router", name) == nil {
					continue
				}
				c.Decide(queryHandlers[name], r2, name+"/protected", x.PosOf(lns.Pos()), "served only behind the token checker", name+" is not registered behind the token checker")
			}
		}
	}
	c.Min(r2, 8)
}
