// Package load loads /repo's current working tree (optionally with an in-memory
// overlay) into go/types + go/ssa form and builds the call graph the rules use.
package load

import (
	"fmt"
	"go/ast"
	"go/token"
	"go/types"
	"os"
	"path/filepath"
	"sort"
	"strings"

	"golang.org/x/tools/go/callgraph"
	"golang.org/x/tools/go/callgraph/cha"
	"golang.org/x/tools/go/callgraph/vta"
	"golang.org/x/tools/go/packages"
	"golang.org/x/tools/go/ssa"
	"golang.org/x/tools/go/ssa/ssautil"
)

const Module = "github.com/honeycombio/refinery"

// Options selects what is loaded.
type Options struct {
	Dir     string            // repository root (default /repo)
	Overlay map[string][]byte // absolute path -> replacement content
	Whole   bool              // load dependencies with syntax too (thorough tier)
	Env     []string          // extra environment (GOARCH=386, ...)
	Tags    string            // build tags
}

// Program is the resolved program handed to the rules.
type Program struct {
	Dir     string
	Fset    *token.FileSet
	Pkgs    []*packages.Package          // repository packages, sorted by path
	ByRel   map[string]*packages.Package // "collect", "collect/cache", "cmd/refinery", ...
	All     map[string]*packages.Package // every package by import path (deps too)
	SSA     *ssa.Program
	Whole   bool
	Overlay map[string][]byte

	funcs map[*ssa.Function]bool // all functions (incl. anonymous) of repository packages
	cg    *callgraph.Graph
}

// IsDouble reports whether a file/package is a test double living in non-test
// code: it must type-check but produces no obligations.
func IsDouble(rel string) bool {
	switch {
	case strings.HasPrefix(rel, "cmd/test_redimem"), strings.HasPrefix(rel, "internal/redimem"),
		strings.HasPrefix(rel, "smoke-test"), rel == "test" || strings.HasPrefix(rel, "test/"):
		return true
	}
	return false
}

// IsMockFile reports whether a file is a mock living in a production package.
func IsMockFile(name string) bool {
	b := strings.ToLower(filepath.Base(name))
	return strings.HasPrefix(b, "mock") || strings.Contains(b, "_mock") || strings.HasSuffix(b, "mock.go")
}

func Load(o Options) (*Program, error) {
	if o.Dir == "" {
		o.Dir = "/repo"
	}
	mode := packages.NeedName | packages.NeedFiles | packages.NeedCompiledGoFiles | packages.NeedImports |
		packages.NeedTypes | packages.NeedTypesSizes | packages.NeedSyntax | packages.NeedTypesInfo |
		packages.NeedModule | packages.NeedEmbedFiles
	if o.Whole {
		mode |= packages.NeedDeps
	}
	if exe, err := os.Executable(); err == nil {
		tc := filepath.Join(filepath.Dir(exe), "tc")
		if _, err := os.Stat(filepath.Join(tc, "go")); err == nil && !strings.HasPrefix(os.Getenv("PATH"), tc+":") {
			os.Setenv("PATH", tc+":"+os.Getenv("PATH"))
		}
	}
	env := append(os.Environ(), "GOFLAGS=-mod=readonly", "GOWORK=off", "GOPROXY=off", "GOSUMDB=off", "GOTOOLCHAIN=local")
	env = append(env, o.Env...)
	cfg := &packages.Config{
		Mode:    mode,
		Dir:     o.Dir,
		Env:     env,
		Overlay: o.Overlay,
		Tests:   false,
		Fset:    token.NewFileSet(),
	}
	if o.Tags != "" {
		cfg.BuildFlags = []string{"-tags=" + o.Tags}
	}
	initial, err := packages.Load(cfg, "./...")
	if err != nil {
		return nil, fmt.Errorf("packages.Load: %w", err)
	}
	if len(initial) == 0 {
		return nil, fmt.Errorf("no packages loaded from %s", o.Dir)
	}
	p := &Program{Dir: o.Dir, Fset: cfg.Fset, ByRel: map[string]*packages.Package{}, All: map[string]*packages.Package{}, Whole: o.Whole, Overlay: o.Overlay}
	var errs []string
	packages.Visit(initial, nil, func(pk *packages.Package) {
		p.All[pk.PkgPath] = pk
		if strings.HasPrefix(pk.PkgPath, Module) {
			for _, e := range pk.Errors {
				errs = append(errs, e.Error())
			}
		}
	})
	if len(errs) > 0 {
		sort.Strings(errs)
		if len(errs) > 10 {
			errs = errs[:10]
		}
		return nil, fmt.Errorf("type-check/load errors:\n  %s", strings.Join(errs, "\n  "))
	}
	for _, pk := range initial {
		if !strings.HasPrefix(pk.PkgPath, Module) {
			continue
		}
		rel := strings.TrimPrefix(strings.TrimPrefix(pk.PkgPath, Module), "/")
		if rel == "" {
			rel = "."
		}
		p.Pkgs = append(p.Pkgs, pk)
		p.ByRel[rel] = pk
	}
	sort.Slice(p.Pkgs, func(i, j int) bool { return p.Pkgs[i].PkgPath < p.Pkgs[j].PkgPath })
	if len(p.Pkgs) < 20 {
		return nil, fmt.Errorf("only %d repository packages loaded (expected >= 20)", len(p.Pkgs))
	}

	bmode := ssa.InstantiateGenerics
	if o.Whole {
		prog, _ := ssautil.AllPackages(initial, bmode)
		p.SSA = prog
	} else {
		prog, _ := ssautil.Packages(initial, bmode)
		p.SSA = prog
	}
	p.SSA.Build()
	return p, nil
}

// Rel returns the repository-relative package path of an SSA/types package, or "" for dependencies.
func Rel(path string) (string, bool) {
	if !strings.HasPrefix(path, Module) {
		return "", false
	}
	r := strings.TrimPrefix(strings.TrimPrefix(path, Module), "/")
	if r == "" {
		r = "."
	}
	return r, true
}

// Pos renders a position relative to the repository root.
func (p *Program) Pos(pos token.Pos) string {
	if !pos.IsValid() {
		return "?"
	}
	ps := p.Fset.Position(pos)
	f := ps.Filename
	if r, err := filepath.Rel(p.Dir, f); err == nil && !strings.HasPrefix(r, "..") {
		f = r
	}
	return fmt.Sprintf("%s:%d", f, ps.Line)
}

func (p *Program) File(pos token.Pos) string {
	if !pos.IsValid() {
		return ""
	}
	f := p.Fset.Position(pos).Filename
	if r, err := filepath.Rel(p.Dir, f); err == nil && !strings.HasPrefix(r, "..") {
		f = r
	}
	return f
}

// SSAPkg returns the SSA package for a repository-relative path.
func (p *Program) SSAPkg(rel string) *ssa.Package {
	pk := p.ByRel[rel]
	if pk == nil || pk.Types == nil {
		return nil
	}
	return p.SSA.Package(pk.Types)
}

// Named looks up a named type "collect.InMemCollector".
func (p *Program) Named(rel, name string) *types.Named {
	pk := p.ByRel[rel]
	if pk == nil {
		return nil
	}
	obj := pk.Types.Scope().Lookup(name)
	if obj == nil {
		return nil
	}
	tn, ok := obj.(*types.TypeName)
	if !ok {
		return nil
	}
	n, _ := tn.Type().(*types.Named)
	return n
}

// Func resolves a package-level function ("sample", "", "makeDynsamplerKey") or a
// method ("collect", "CollectorWorker", "makeDecision"); pointer or value receiver.
func (p *Program) Func(rel, recv, name string) *ssa.Function {
	sp := p.SSAPkg(rel)
	if sp == nil {
		return nil
	}
	if recv == "" {
		return sp.Func(name)
	}
	n := p.Named(rel, recv)
	if n == nil {
		return nil
	}
	for _, t := range []types.Type{types.NewPointer(n), n} {
		ms := p.SSA.MethodSets.MethodSet(t)
		for i := 0; i < ms.Len(); i++ {
			sel := ms.At(i)
			if sel.Obj().Name() == name && sel.Obj().Pkg() == n.Obj().Pkg() {
				if len(sel.Index()) != 1 {
					continue // promoted
				}
				if f := p.SSA.MethodValue(sel); f != nil {
					// unwrap synthetic wrappers to the declared method
					if f.Synthetic != "" {
						if d := p.SSA.FuncValue(sel.Obj().(*types.Func)); d != nil {
							return d
						}
					}
					return f
				}
			}
		}
	}
	return nil
}

// Funcs returns every function with a body that belongs to a repository
// package (including anonymous functions and generic instantiations).
func (p *Program) Funcs() map[*ssa.Function]bool {
	if p.funcs != nil {
		return p.funcs
	}
	p.funcs = map[*ssa.Function]bool{}
	for f := range ssautil.AllFunctions(p.SSA) {
		if f.Blocks == nil {
			continue
		}
		pk := f.Pkg
		if pk == nil && f.Origin() != nil {
			pk = f.Origin().Pkg
		}
		root := f
		for root.Parent() != nil {
			root = root.Parent()
		}
		if pk == nil {
			pk = root.Pkg
			if pk == nil && root.Origin() != nil {
				pk = root.Origin().Pkg
			}
		}
		if pk == nil || pk.Pkg == nil {
			continue
		}
		if _, ok := Rel(pk.Pkg.Path()); !ok {
			continue
		}
		p.funcs[f] = true
	}
	return p.funcs
}

// FuncRel returns the repository-relative package path of a function.
func (p *Program) FuncRel(f *ssa.Function) string {
	root := f
	for root.Parent() != nil {
		root = root.Parent()
	}
	pk := root.Pkg
	if pk == nil && root.Origin() != nil {
		pk = root.Origin().Pkg
	}
	if pk == nil || pk.Pkg == nil {
		return ""
	}
	r, _ := Rel(pk.Pkg.Path())
	return r
}

// SortedFuncs returns repository functions in a deterministic order.
func (p *Program) SortedFuncs() []*ssa.Function {
	var out []*ssa.Function
	for f := range p.Funcs() {
		out = append(out, f)
	}
	sort.Slice(out, func(i, j int) bool {
		a, b := out[i], out[j]
		if a.String() != b.String() {
			return a.String() < b.String()
		}
		return a.Pos() < b.Pos()
	})
	return out
}

// IsDoubleFunc reports whether the function lives in a test double (mock file
// or double package).
func (p *Program) IsDoubleFunc(f *ssa.Function) bool {
	if IsDouble(p.FuncRel(f)) {
		return true
	}
	root := f
	for root.Parent() != nil {
		root = root.Parent()
	}
	pos := root.Pos()
	if !pos.IsValid() && root.Origin() != nil {
		pos = root.Origin().Pos()
	}
	if pos.IsValid() && IsMockFile(p.Fset.Position(pos).Filename) {
		return true
	}
	return false
}

// CallGraph builds (once) the VTA call graph seeded with CHA.
func (p *Program) CallGraph() *callgraph.Graph {
	if p.cg != nil {
		return p.cg
	}
	all := ssautil.AllFunctions(p.SSA)
	p.cg = vta.CallGraph(all, cha.CallGraph(p.SSA))
	return p.cg
}

// FileAST returns the parsed file with the given repository-relative name.
func (p *Program) FileAST(rel string) (*ast.File, *packages.Package) {
	want := filepath.Join(p.Dir, rel)
	for _, pk := range p.Pkgs {
		for i, f := range pk.CompiledGoFiles {
			if f == want && i < len(pk.Syntax) {
				return pk.Syntax[i], pk
			}
		}
	}
	return nil, nil
}

// ReadFile reads a repository file (YAML metadata, templates, docs) honouring the overlay.
func (p *Program) ReadFile(rel string) ([]byte, error) {
	abs := filepath.Join(p.Dir, rel)
	if b, ok := p.Overlay[abs]; ok {
		return b, nil
	}
	return os.ReadFile(abs)
}
