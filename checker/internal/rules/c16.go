package rules

import (
	"go/token"
	"go/types"

	"golang.org/x/tools/go/ssa"

	"refcheck/internal/eng"
)

func init() { Register("C16", c16); Register("C19", c19); Register("C17", c17) }

const (
	nAddSpan         = "(collect.Collector).AddSpan"
	nAddSpanFromPeer = "(collect.Collector).AddSpanFromPeer"
	nProcessImm      = "(collect.Collector).ProcessSpanImmediately"
	nStressed        = "(collect.Collector).Stressed"
)

type routeSinks struct {
	x        *Ctx
	pe       *ssa.Function
	ev       *ssa.Parameter
	upstream func(eng.FieldRef) bool
	peer     func(eng.FieldRef) bool
}

func newRouteSinks(x *Ctx, rule string) *routeSinks {
	pe := x.Fn(rule, "route", "Router", "processEvent")
	if pe == nil {
		return nil
	}
	rs := &routeSinks{x: x, pe: pe, upstream: eng.FieldIs("route", "Router", "UpstreamTransmission"), peer: eng.FieldIs("route", "Router", "PeerTransmission")}
	rs.ev = param(pe, "ev")
	if rs.ev == nil && len(pe.Params) > 1 {
		rs.ev = pe.Params[1]
	}
	return rs
}

// objectOf resolves the event object a sink argument denotes on this path: the
// event itself, or the event wrapped in a span built in this function.
func (rs *routeSinks) objectOf(arg ssa.Value, F eng.Facts) ssa.Value {
	arg = F.Resolve(arg)
	if al, ok := arg.(*ssa.Alloc); ok {
		// span literal: find the store to its Event field
		var evv ssa.Value
		eng.Instrs(rs.pe, func(in ssa.Instruction) {
			if st, ok := in.(*ssa.Store); ok {
				if fr, base, ok := eng.FieldRefOf(st.Addr); ok && fr.Name == "Event" && base == ssa.Value(al) {
					evv = st.Val
				}
			}
		})
		if evv != nil {
			return F.Resolve(evv)
		}
	}
	return arg
}

// sinkKind classifies an instruction as a hand-off of an event.
func (rs *routeSinks) sinkKind(in ssa.Instruction) (string, ssa.Value) {
	cl, ok := in.(ssa.CallInstruction)
	if !ok {
		return "", nil
	}
	switch eng.CalleeName(cl) {
	case nEnqueueEvent, nEnqueueSpan:
		recv := eng.Receiver(cl)
		if loadsField(recv, rs.upstream) {
			return "upstream", eng.CallArgs(cl)[0]
		}
		if loadsField(recv, rs.peer) {
			return "peer", eng.CallArgs(cl)[0]
		}
		return "transmission", eng.CallArgs(cl)[0]
	case nAddSpan:
		return "collector", eng.CallArgs(cl)[0]
	case nAddSpanFromPeer:
		return "collector-peer", eng.CallArgs(cl)[0]
	case nProcessImm:
		return "immediate", eng.CallArgs(cl)[0]
	}
	return "", nil
}

func c16(x *Ctx) {
	c := x.C
	c.Explanation = "C16 (stress-relief decisions deterministic, remembered, delivered intact): determinism and remembering are decided by C10 (StressRelief.GetSampleRate) and C01 (ProcessSpanImmediately records and obeys); here: (2) ownership – after an event has been handed to a transmission or the collector (EnqueueEvent/EnqueueSpan, AddSpan/AddSpanFromPeer, ProcessSpanImmediately returning kept) no path writes through that event again (field stores or mutator calls), because the transmission serialises asynchronously and reads the destination at send time; (3) a received probe reaches no sink, and an event marked as probe in this function can only go to the peer transmission."
	c.NotCovered = "exactly-once delivery inside the transmission (C26)."
	rs := newRouteSinks(x, "C16.write-after-handoff")
	if rs == nil {
		return
	}
	pe := rs.pe
	// ---- clause 2 ---------------------------------------------------------------------------
	const r2 = "C16.write-after-handoff"
	n := 0
	eng.Instrs(pe, func(in ssa.Instruction) {
		kind, arg := rs.sinkKind(in)
		if kind == "" {
			return
		}
		n++
		c.Examined++
		var as *eng.Assume
		if kind == "immediate" {
			// hand-off happened only when the collector reports (processed, kept)
			ex := append(extractOf(in.(ssa.CallInstruction), 0), extractOf(in.(ssa.CallInstruction), 1)...)
			as = &eng.Assume{Bool: func(v ssa.Value) eng.Tri {
				for _, e := range ex {
					if v == e {
						return eng.True
					}
				}
				return eng.Unknown
			}}
		}
		var bad ssa.Instruction
		track := func(*ssa.Phi) bool { return true }
		var handed ssa.Value
		r := eng.Explore(eng.Query{Fn: pe, Assume: as, Start: in, TrackPhi: track, Classify: func(i2 ssa.Instruction, F eng.Facts) eng.Event {
			if handed == nil {
				handed = rs.objectOf(arg, F)
			}
			isObj := func(v ssa.Value) bool { return F.Resolve(v) == handed }
			if x.writesThrough(i2, isObj) {
				bad = i2
				return eng.EvSink
			}
			return eng.EvNone
		}})
		_ = r
		if bad != nil {
			o := c.Violate(r2, "processEvent/"+kind, x.Pos(bad), "after the event was handed to the "+kind+" path ("+x.Pos(in)+") it is modified again: the receiver serialises it asynchronously, so the span that leaves carries the later modification (probe marker, peer address)")
			if len(r.Hits) > 0 {
				o.Path = eng.DescribePath(x.P.Pos, r.Hits[0].Path)
			}
		} else {
			c.Hold(r2, "processEvent/"+kind, x.Pos(in), "no write through the event after this hand-off")
		}
	})
	c.Min(r2, 5)

	// ---- clause 2b: a shallow copy of the event shares its maps and buffers with the original ----------
	// (`probe := *ev` copies the struct; Payload's memoized map, raw bytes and other reference fields are
	// shared, so a write through them alters the event that was – or will be – handed on)
	const r2b = "C16.copy-writes-own-memory"
	metaKeys := x.metadataKeys()
	var copies []*ssa.Alloc
	eng.Instrs(pe, func(in ssa.Instruction) {
		st, ok := in.(*ssa.Store)
		if !ok {
			return
		}
		al, ok := st.Addr.(*ssa.Alloc)
		if !ok {
			return
		}
		if u, ok := st.Val.(*ssa.UnOp); ok && u.Op == token.MUL && derivesFrom(u.X, rs.ev) && typeString(u.Type()) == "types.Event" {
			copies = append(copies, al)
		}
	})
	// objects obtained from the event (or from the span that wraps it) through a function of this repository – a
	// Clone(), a copy helper – may share the event behind a pointer: what is written through their pointer fields
	// lands on the received event
	spanOfEv := map[ssa.Value]bool{ssa.Value(rs.ev): true}
	eng.Instrs(pe, func(in ssa.Instruction) {
		if st, ok := in.(*ssa.Store); ok {
			if fr, base, ok := eng.FieldRefOf(st.Addr); ok && fr.Name == "Event" && derivesFrom(st.Val, rs.ev) {
				spanOfEv[base] = true
			}
		}
	})
	var derivedObjs []*ssa.Call
	eng.Instrs(pe, func(in ssa.Instruction) {
		cl, ok := in.(*ssa.Call)
		if !ok {
			return
		}
		g := cl.Call.StaticCallee()
		if g == nil || !x.P.Funcs()[g] {
			return
		}
		if _, isPtr := cl.Type().Underlying().(*types.Pointer); !isPtr {
			return
		}
		for _, a := range cl.Call.Args {
			for o := range spanOfEv {
				if a == o {
					derivedObjs = append(derivedObjs, cl)
				}
			}
		}
	})
	for _, d := range derivedObjs {
		c.Examined++
		var bad ssa.Instruction
		eng.Instrs(pe, func(in ssa.Instruction) {
			if bad != nil {
				return
			}
			switch y := in.(type) {
			case *ssa.Store:
				if r, ref := addrRootDeep(y.Addr); r == ssa.Value(d) && ref {
					bad = in
				}
			case *ssa.MapUpdate:
				if r, _ := addrRootDeep(y.Map); r == ssa.Value(d) {
					bad = in
				}
			case *ssa.Call:
				if cal := y.Call.StaticCallee(); cal != nil && cal.Signature.Recv() != nil && len(y.Call.Args) > 0 {
					if r, ref := addrRootDeep(y.Call.Args[0]); r == ssa.Value(d) && ref && x.isMutator(cal, 1) {
						bad = in
					}
				}
			}
		})
		name := eng.MethodBase(eng.CalleeName(d))
		if bad != nil {
			c.Violate(r2b, "processEvent/"+name, x.Pos(bad), "an object obtained from the received span through "+eng.CalleeName(d)+" is modified through one of its pointer fields: unless that function copies what the pointer refers to, the write lands on the event already queued for Honeycomb (a struct copy of a span shares its *Event)")
		} else {
			c.Hold(r2b, "processEvent/"+name, x.Pos(d), "nothing is written through pointer fields of the derived object")
		}
	}
	for _, al := range copies {
		c.Examined++
		var bad ssa.Instruction
		why := ""
		eng.Instrs(pe, func(in ssa.Instruction) {
			if bad != nil {
				return
			}
			switch y := in.(type) {
			case *ssa.Store:
				if r, ref := addrRootDeep(y.Addr); r == ssa.Value(al) && ref {
					bad, why = in, "a store through a pointer or slice field of the copy"
				}
			case *ssa.MapUpdate:
				if r, _ := addrRootDeep(y.Map); r == ssa.Value(al) {
					bad, why = in, "an update of a map field of the copy"
				}
			case *ssa.Call:
				cal := y.Call.StaticCallee()
				if cal == nil || cal.Signature.Recv() == nil || len(y.Call.Args) == 0 {
					return
				}
				r, ref := addrRootDeep(y.Call.Args[0])
				if r != ssa.Value(al) {
					return
				}
				if eng.SSAFuncName(cal) == nPayloadSet {
					// Set stores keys of the metadata table in dedicated struct fields (owned by the copy), everything else in the shared map
					if k, ok := eng.ConstString(y.Call.Args[1]); ok && metaKeys[k] && !ref {
						return
					}
				}
				if ref && x.isMutator(cal, 1) || !ref && x.writesShared(cal, 2) {
					bad, why = in, "a call of "+FName(cal)+", which writes memory the copy shares with the original (map / pointer / slice field)"
				}
			}
		})
		if bad != nil {
			c.Violate(r2b, "processEvent/"+al.Comment, x.Pos(bad), "the event is copied shallowly ("+x.Pos(al)+") and the copy is then modified by "+why+": the original event – the span queued for Honeycomb – is altered too")
		} else {
			c.Hold(r2b, "processEvent/"+al.Comment, x.Pos(al), "only the copy's own struct fields are written")
		}
	}

	// ---- clause 3: probes -----------------------------------------------------------------------
	const r3 = "C16.probes-stay-internal"
	probeF := func(fr eng.FieldRef) bool { return fr.Name == "HasValue" || fr.Name == "Value" }
	isProbeLoad := func(v ssa.Value) bool {
		fr, base, ok := eng.LoadedField(v)
		if !ok || !probeF(fr) {
			return false
		}
		fr2, _, ok := eng.FieldRefOf(base)
		return ok && fr2.Name == "MetaRefineryProbe"
	}
	as := &eng.Assume{Bool: func(v ssa.Value) eng.Tri {
		if isProbeLoad(v) {
			return eng.True
		}
		return eng.Unknown
	}}
	r := eng.ReachableSinks(pe, as, nil, func(in ssa.Instruction) bool { k, _ := rs.sinkKind(in); return k != "" })
	c.Examined += r.States
	if len(r.Hits) > 0 {
		k, _ := rs.sinkKind(r.Hits[0].Instr)
		o := c.Violate(r3, "processEvent/received-probe", x.Pos(r.Hits[0].Instr), "an event received with meta.refinery.probe set reaches the "+k+" path instead of being dropped")
		o.Path = eng.DescribePath(x.P.Pos, r.Hits[0].Path)
	} else {
		c.Hold(r3, "processEvent/received-probe", x.PosOf(pe.Pos()), "received probe ⇒ no sink")
	}
	// events marked as probe here only go to the peer transmission
	probeKey, _ := x.constStr(r3, "types", "MetaRefineryProbe")
	eng.Instrs(pe, func(in ssa.Instruction) {
		// the two ways the code base marks an event as a probe: the dedicated field's Set(true), or Payload.Set with the probe key
		if cl, ok := eng.IsCall(in, "(*types.nullableBool).Set"); ok {
			fr, _, ok := eng.FieldRefOf(eng.Receiver(cl))
			if !ok || fr.Name != "MetaRefineryProbe" {
				return
			}
			if k, ok := eng.CallArgs(cl)[0].(*ssa.Const); !ok || k.Value.String() != "true" {
				return
			}
		} else if cl, ok := eng.IsCall(in, nPayloadSet); ok {
			if k, ok := eng.ConstString(eng.CallArgs(cl)[0]); !ok || k != probeKey {
				return
			}
		} else {
			return
		}
		r := eng.Explore(eng.Query{Fn: pe, Start: in, Classify: func(i2 ssa.Instruction, _ eng.Facts) eng.Event {
			if k, _ := rs.sinkKind(i2); k != "" && k != "peer" {
				return eng.EvSink
			}
			return eng.EvNone
		}})
		if len(r.Hits) > 0 {
			k, _ := rs.sinkKind(r.Hits[0].Instr)
			o := c.Violate(r3, "processEvent/generated-probe", x.Pos(r.Hits[0].Instr), "an event marked as probe can reach the "+k+" path")
			o.Path = eng.DescribePath(x.P.Pos, r.Hits[0].Path)
		} else {
			c.Hold(r3, "processEvent/generated-probe", x.Pos(in), "generated probe ⇒ peer transmission only")
		}
	})
	c.Min(r3, 2)
}

func c19(x *Ctx) {
	c := x.C
	c.Explanation = "C19 (every received event takes exactly one route): on every path through processEvent the received event object is handed to at most one of {upstream transmission, peer transmission, collector (incoming / from peer), immediate stress-relief processing that kept it}; an event without a trace ID goes upstream only and exactly once; a probe goes nowhere; fields of the event are written in package route only when it is built, by addIncomingUserAgent, and the destination host immediately before the peer enqueue."
	c.NotCovered = "delivery inside the transmissions; the collector's admission (channel full) is reported to the client by C23."
	rs := newRouteSinks(x, "C19.one-sink")
	if rs == nil {
		return
	}
	pe := rs.pe
	const r1 = "C19.one-sink"
	for _, sc := range []struct {
		name string
		kept eng.Tri
	}{{"stress-kept", eng.True}, {"stress-not-kept", eng.False}} {
		as := &eng.Assume{Bool: func(v ssa.Value) eng.Tri {
			if isExtractOf(v, 0, nProcessImm) || isExtractOf(v, 1, nProcessImm) {
				return sc.kept
			}
			return eng.Unknown
		}}
		r := eng.Explore(eng.Query{Fn: pe, Assume: as, TrackPhi: func(*ssa.Phi) bool { return true }, Classify: func(in ssa.Instruction, F eng.Facts) eng.Event {
			k, arg := rs.sinkKind(in)
			if k == "" {
				return eng.EvNone
			}
			if k == "immediate" && sc.kept != eng.True {
				return eng.EvNone
			}
			if rs.objectOf(arg, F) != ssa.Value(rs.ev) {
				return eng.EvNone // a distinct object (a copy made for a probe)
			}
			return eng.EvSink
		}})
		c.Examined += r.States
		bad := false
		for _, h := range r.Hits {
			if h.Before >= 1 {
				bad = true
				k, _ := rs.sinkKind(h.Instr)
				o := c.Violate(r1, "processEvent/"+sc.name, x.Pos(h.Instr), "the received event is handed to a second route ("+k+") on a path where it was already handed off: it is delivered twice, or its first copy is altered")
				o.Path = eng.DescribePath(x.P.Pos, h.Path)
				break
			}
		}
		if !bad {
			c.Hold(r1, "processEvent/"+sc.name, x.PosOf(pe.Pos()), "at most one route per received event")
		}
	}
	c.Min(r1, 2)
	// every event of an OTLP request is handed to processEvent: the per-event loops are only left when the events are
	// exhausted (an error for one event – one worker's queue is full – says nothing about the others' routes)
	const r1b = "C19.every-event-routed"
	for _, name := range []string{"processOTLPRequest", "processOTLPRequestBatchMsgp"} {
		f := x.P.Func("route", "Router", name)
		if f == nil || f.Blocks == nil {
			continue
		}
		eng.Instrs(f, func(in ssa.Instruction) {
			if _, ok := eng.IsCall(in, "(*route.Router).processEvent"); !ok {
				return
			}
			c.Examined++
			bad := false
			// all enclosing loops
			for _, h := range f.Blocks {
				if !inNaturalLoop(in.Block(), h) || h == in.Block() && len(h.Preds) < 2 {
					continue
				}
				isHeader := false
				for _, p := range h.Preds {
					if p == h || h.Dominates(p) {
						isHeader = true
					}
				}
				if !isHeader {
					continue
				}
				for _, b := range f.Blocks {
					if b == h || !inNaturalLoop(b, h) {
						continue
					}
					for _, sc := range b.Succs {
						if !inNaturalLoop(sc, h) {
							bad = true
						}
					}
					if len(b.Succs) == 0 {
						if _, isRet := b.Instrs[len(b.Instrs)-1].(*ssa.Return); isRet {
							// a return inside the loop is allowed only before any event was processed: handled by C23
							if eng.MayPrecede(in, b.Instrs[len(b.Instrs)-1]) && b != in.Block() {
								bad = true
							}
						}
					}
				}
			}
			c.Decide(!bad, r1b, name, x.Pos(in), "the loops around processEvent run until the events are exhausted",
				"a loop over the events of an OTLP request can be left early (break / return after one event's error): the remaining events – log records, spans owned by a peer, spans for other workers – take no route at all while the client is told the request succeeded")
		})
	}
	c.Min(r1b, 2)
	// no trace ID ⇒ upstream exactly once
	const r2 = "C19.non-trace-upstream"
	as := &eng.Assume{Bool: func(v ssa.Value) eng.Tri {
		if b, ok := v.(*ssa.BinOp); ok {
			var other ssa.Value
			isTID := func(u ssa.Value) bool {
				return loadsField(u, func(fr eng.FieldRef) bool { return fr.Name == "MetaTraceID" })
			}
			if isTID(b.X) {
				other = b.Y
			} else if isTID(b.Y) {
				other = b.X
			}
			if s, ok := eng.ConstString(other); other != nil && ok && s == "" {
				if b.Op.String() == "==" {
					return eng.True
				}
				if b.Op.String() == "!=" {
					return eng.False
				}
			}
		}
		// not a probe
		if fr, base, ok := eng.LoadedField(v); ok && (fr.Name == "HasValue" || fr.Name == "Value") {
			if fr2, _, ok := eng.FieldRefOf(base); ok && fr2.Name == "MetaRefineryProbe" {
				return eng.False
			}
		}
		return eng.Unknown
	}, Nil: func(v ssa.Value) eng.Tri {
		if isCallValue(v, "(*types.Payload).ExtractMetadata") {
			return eng.True
		}
		return eng.Unknown
	}}
	r := eng.Explore(eng.Query{Fn: pe, Assume: as, Classify: func(in ssa.Instruction, _ eng.Facts) eng.Event {
		if k, _ := rs.sinkKind(in); k != "" {
			return eng.EvSink
		}
		return eng.EvNone
	}})
	ok := true
	kinds := map[string]bool{}
	for _, h := range r.Hits {
		k, _ := rs.sinkKind(h.Instr)
		kinds[k] = true
	}
	for _, e := range r.Exits {
		if _, isRet := e.Instr.(*ssa.Return); isRet && e.Sinks != 1 {
			ok = false
		}
	}
	c.Decide(ok && len(kinds) == 1 && kinds["upstream"], r2, "processEvent/no-trace-id", x.PosOf(pe.Pos()), "no trace ID ⇒ exactly one upstream enqueue", "an event without a trace ID is not forwarded exactly once to the upstream transmission")
	// who writes Event fields in package route
	const r3 = "C19.event-fields-unwritten"
	evF := eng.FieldIs("types", "Event")
	for _, w := range eng.FieldWrites(x.PkgFuncs("route"), evF) {
		c.Examined++
		st := w.Instr.(*ssa.Store)
		fr, base, _ := eng.FieldRefOf(st.Addr)
		fn := eng.Root(w.Fn).Name()
		_, fresh := base.(*ssa.Alloc)
		switch {
		case fresh:
			c.Hold(r3, fn+"/"+fr.Name+"/construction", x.Pos(st), "field set while the event is built")
		case fn == "processEvent" && fr.Name == "APIHost":
			// must be immediately followed (on all paths) by the peer enqueue of the same object and derive from the target shard
			_, fromShard := eng.Derives(st.Val, func(v ssa.Value) bool { return isCallValue(v, "(sharder.Shard).GetAddress") }, eng.FlowOpts{})
			r := eng.Explore(eng.Query{Fn: w.Fn, Start: st, Classify: func(in ssa.Instruction, _ eng.Facts) eng.Event {
				if k, _ := rs.sinkKind(in); k == "peer" {
					return eng.EvKill
				}
				if k, _ := rs.sinkKind(in); k != "" {
					return eng.EvSink
				}
				return eng.EvNone
			}})
			bad := len(r.Hits) > 0
			for _, e := range r.Exits {
				if _, isRet := e.Instr.(*ssa.Return); isRet {
					bad = true
				}
			}
			c.Decide(fromShard && !bad, r3, fn+"/APIHost", x.Pos(st), "destination set to the owning peer right before the peer enqueue", "the event's APIHost is rewritten on a path that does not end in the peer enqueue, or not to the owning peer's address")
		default:
			c.Violate(r3, fn+"/"+fr.Name, x.Pos(st), "route."+fn+" rewrites Event."+fr.Name+" of a received event: key, dataset, rate and timestamp must be forwarded unchanged")
		}
	}
	c.Min(r3, 8)
}

func c17(x *Ctx) {
	c := x.C
	c.Explanation = "C17 (all nodes agree on the owner): decides that the peer list is sorted before shard indices are assigned and hashes are built only from the sorted list and constant seeds, then sorted by hash; peers and hashes are replaced together under the write lock; WhichShard is a pure function of the trace ID and that state returning an element of the peer list; and routing forwards to a peer only when the owner is not this node and admits to the collector only when it is (no self-forward)."
	c.NotCovered = "the single-hop consequence across real routers (needs membership agreement at run time); hash quality."
	// ---- routing ------------------------------------------------------------------------------
	const rR = "C17.no-self-forward"
	if rs := newRouteSinks(x, rR); rs != nil {
		eq := func(t eng.Tri) *eng.Assume {
			return &eng.Assume{Bool: func(v ssa.Value) eng.Tri {
				if isCallValue(v, "(sharder.Shard).Equals") {
					return t
				}
				return eng.Unknown
			}}
		}
		kindsUnder := func(t eng.Tri) map[string]bool {
			r := eng.ReachableSinks(rs.pe, eq(t), nil, func(in ssa.Instruction) bool { k, _ := rs.sinkKind(in); return k != "" })
			out := map[string]bool{}
			for _, h := range r.Hits {
				k, _ := rs.sinkKind(h.Instr)
				out[k] = true
			}
			return out
		}
		mine, theirs := kindsUnder(eng.True), kindsUnder(eng.False)
		c.Decide(!mine["peer"], rR, "processEvent/owner-is-self", x.PosOf(rs.pe.Pos()), "owner == this node ⇒ never forwarded to a peer", "a span whose owner is this node can be forwarded to the peer transmission (forwarding loop / self-forward)")
		c.Decide(!theirs["collector"] && !theirs["collector-peer"], rR, "processEvent/owner-is-peer", x.PosOf(rs.pe.Pos()), "owner != this node ⇒ never admitted to the local collector", "a span owned by another node can be admitted to the local collector: two nodes decide the same trace")
		// the compared shards: WhichShard(trace id) vs MyShard()
		okArgs := false
		eng.Instrs(rs.pe, func(in ssa.Instruction) {
			if cl, ok := eng.IsCall(in, "(sharder.Shard).Equals"); ok {
				a, b := eng.Receiver(cl), eng.CallArgs(cl)[0]
				w := func(v ssa.Value) bool { return isCallValue(v, "(sharder.Sharder).WhichShard") }
				m := func(v ssa.Value) bool { return isCallValue(v, "(sharder.Sharder).MyShard") }
				okArgs = w(a) && m(b) || w(b) && m(a)
			}
		})
		c.Decide(okArgs, rR, "processEvent/compared-shards", x.PosOf(rs.pe.Pos()), "WhichShard(traceID) compared with MyShard()", "ownership is not decided by comparing WhichShard(trace ID) with MyShard()")
		// the key handed to the sharder (and the span's TraceID) is the payload's trace ID as is: both routers of every
		// node must shard on the same string, or the node a span is forwarded to forwards it again
		tidF := func(fr eng.FieldRef) bool { return fr.Name == "MetaTraceID" }
		eng.Instrs(rs.pe, func(in ssa.Instruction) {
			if cl, ok := eng.IsCall(in, "(sharder.Sharder).WhichShard"); ok {
				arg := eng.CallArgs(cl)[0]
				c.Decide(x.mustDerive(arg, func(v ssa.Value) bool { return loadsField(v, tidF) }), rR, "processEvent/shard-key", x.Pos(in), "the sharder is asked with the payload's trace ID unmodified",
					"the string handed to WhichShard is not (on every path) the payload's trace ID as received: a transformation applied on one router type only (case folding, trimming) makes the forwarding node and the receiving node compute different owners, so spans take two hops or a trace is split")
			}
		})
	}
	c.Min(rR, 4)
	// ---- sharder ---------------------------------------------------------------------------------
	const rS = "C17.sort-before-index"
	if lp := x.Fn(rS, "sharder", "DeterministicSharder", "loadPeerList"); lp != nil {
		var sortCall ssa.Instruction
		eng.Instrs(lp, func(in ssa.Instruction) {
			if cl, ok := eng.IsCall(in, "sort.Sort", "sort.Stable", "slices.SortFunc", "sort.Slice"); ok {
				a := eng.CallArgs(cl)[0]
				if typeContains(a, "detShard") || typeContains(a, "SortableShardList") {
					if sortCall == nil {
						sortCall = in
					}
				}
			}
		})
		var hashCalls []ssa.Instruction
		eng.Instrs(lp, func(in ssa.Instruction) {
			if _, ok := eng.IsCall(in, "(sharder.detShard).GetHashesFor"); ok {
				hashCalls = append(hashCalls, in)
			}
		})
		if sortCall == nil {
			c.Violate(rS, "loadPeerList/sort", x.PosOf(lp.Pos()), "the new peer list is never sorted: shard indices follow the order in which each node happened to learn its peers, so nodes disagree on owners")
		} else {
			// nothing looks at the list before it is sorted: any processing of the unsorted list (de-duplication of
			// neighbours, truncation, …) depends on the order in which this node learnt its peers
			sorted := eng.CallArgs(sortCall.(ssa.CallInstruction))[0]
			aliases := map[ssa.Value]bool{}
			var grow func(v ssa.Value)
			grow = func(v ssa.Value) {
				if v == nil || aliases[v] {
					return
				}
				aliases[v] = true
				switch y := v.(type) {
				case *ssa.ChangeType:
					grow(y.X)
				case *ssa.MakeInterface:
					grow(y.X)
				case *ssa.Phi:
					for _, e := range y.Edges {
						grow(e)
					}
				case *ssa.Slice:
					grow(y.X)
				case *ssa.Call:
					// the result of a call that was handed the list (e.g. slices.Compact) continues the list
					for _, a := range y.Call.Args {
						if _, isSlice := a.Type().Underlying().(*types.Slice); isSlice {
							grow(a)
						}
					}
				}
			}
			grow(sorted)
			var early ssa.Instruction
			eng.Instrs(lp, func(in ssa.Instruction) {
				cl, ok := in.(*ssa.Call)
				if !ok || in == sortCall || early != nil {
					return
				}
				if _, isB := cl.Call.Value.(*ssa.Builtin); isB {
					return // len, cap, append while the list is assembled
				}
				for _, a := range cl.Call.Args {
					if aliases[a] && eng.MayPrecede(in, sortCall) && !eng.Dominates(sortCall, in) {
						early = in
					}
				}
			})
			c.Examined++
			if early != nil {
				c.Violate(rS, "loadPeerList/nothing-before-sort", x.Pos(early), "the assembled peer list is handed to "+eng.CalleeName(early.(ssa.CallInstruction))+" before it is sorted: what that call does depends on the order in which this node learnt its peers, so two nodes with the same members can build different partition tables")
			} else {
				c.Hold(rS, "loadPeerList/nothing-before-sort", x.Pos(sortCall), "the sort is the first operation on the assembled list")
			}
		}
		for _, h := range hashCalls {
			c.Examined++
			ok := sortCall != nil && eng.Dominates(sortCall, h)
			// index argument is the range index over the sorted slice, seed is a constant
			a := eng.CallArgs(h.(ssa.CallInstruction))
			idxOK := len(a) >= 1 && isRangeIndex(a[0])
			_, seedConst := a[len(a)-1].(*ssa.Const)
			recvSorted := false
			if sortCall != nil {
				sorted := eng.CallArgs(sortCall.(ssa.CallInstruction))[0]
				recvSorted = rangeElemOf(eng.Receiver(h.(ssa.CallInstruction)), func(v ssa.Value) bool {
					_, d := eng.Derives(sorted, func(w ssa.Value) bool { return w == v }, eng.FlowOpts{})
					return d
				})
			}
			c.Decide(ok && idxOK && seedConst && recvSorted, rS, "loadPeerList/hashes", x.Pos(h), "hashes built from the sorted list, its indices and a constant seed",
				"shard hashes are not built from the sorted peer list with its own indices and a constant seed: nodes that learnt peers in different orders disagree on owners")
		}
		// the table may be built by a helper of the package that is handed the sorted list
		helperOK := false
		if len(hashCalls) == 0 && sortCall != nil {
			sorted := eng.CallArgs(sortCall.(ssa.CallInstruction))[0]
			eng.Instrs(lp, func(in ssa.Instruction) {
				cl, ok := in.(*ssa.Call)
				if !ok {
					return
				}
				h := cl.Call.StaticCallee()
				if h == nil || h.Pkg != lp.Pkg || len(h.Blocks) == 0 {
					return
				}
				var inner []ssa.Instruction
				eng.Instrs(h, func(i2 ssa.Instruction) {
					if _, ok := eng.IsCall(i2, "(sharder.detShard).GetHashesFor"); ok {
						inner = append(inner, i2)
					}
				})
				if len(inner) == 0 {
					return
				}
				// which parameter of the helper receives the sorted list
				var listParam *ssa.Parameter
				for i, a := range cl.Call.Args {
					_, d1 := eng.Derives(a, func(w ssa.Value) bool { return w == sorted }, eng.FlowOpts{})
					_, d2 := eng.Derives(sorted, func(w ssa.Value) bool { return w == a }, eng.FlowOpts{})
					if _, isSlice := a.Type().Underlying().(*types.Slice); isSlice && (d1 || d2 || a == sorted) && i < len(h.Params) {
						listParam = h.Params[i]
					}
				}
				good := listParam != nil && eng.Dominates(sortCall, in)
				for _, hc := range inner {
					a := eng.CallArgs(hc.(ssa.CallInstruction))
					idxOK := len(a) >= 1 && isRangeIndex(a[0])
					seedOK := false
					switch sv := a[len(a)-1].(type) {
					case *ssa.Const:
						seedOK = true
					case *ssa.Parameter:
						seedOK = true
						for _, ca := range x.callerArgs(h, sv) {
							if _, isK := ca.(*ssa.Const); !isK {
								seedOK = false
							}
						}
					}
					recvOK := listParam != nil && rangeElemOf(eng.Receiver(hc.(ssa.CallInstruction)), func(v ssa.Value) bool { return v == ssa.Value(listParam) })
					if !(idxOK && seedOK && recvOK) {
						good = false
					}
					c.Examined++
				}
				helperOK = true
				c.Decide(good, rS, "loadPeerList/hashes", x.Pos(in), "hashes built (in "+BaseName(h)+") from the sorted list, its indices and a constant seed",
					"shard hashes are not built from the sorted peer list with its own indices and a constant seed: nodes that learnt peers in different orders disagree on owners")
			})
		}
		if len(hashCalls) == 0 && !helperOK {
			c.Violate(rS, "loadPeerList/hashes", x.PosOf(lp.Pos()), "no shard hashes are computed")
		}
		// every partition entry that goes into the table was computed in this very rebuild: an entry carries the
		// peer's index in the sorted list of this rebuild, so entries remembered from an earlier rebuild (a memo
		// kept across membership changes) point at whoever has that index now
		nApp := 0
		eng.Instrs(lp, func(in ssa.Instruction) {
			cl, ok := in.(*ssa.Call)
			if !ok {
				return
			}
			b, isB := cl.Call.Value.(*ssa.Builtin)
			if !isB || b.Name() != "append" || len(cl.Call.Args) != 2 || !typeContains(cl, "hashShard") {
				return
			}
			nApp++
			c.Examined++
			fresh := x.mustDerive(cl.Call.Args[1], func(v ssa.Value) bool {
				c2, isCall := v.(*ssa.Call)
				if !isCall {
					return false
				}
				for _, h := range hashCalls {
					if h == ssa.Instruction(c2) {
						return true
					}
				}
				return false
			})
			c.Decide(fresh, rS, "loadPeerList/hashes-computed-in-this-rebuild", x.Pos(in), "partition entries appended to the table come from this rebuild's GetHashesFor calls",
				"partition entries are appended to the table from somewhere else than this rebuild's GetHashesFor calls (remembered from an earlier rebuild): they carry the index their peer had in the earlier sorted list, so after a membership change they point at another peer and nodes that started at different moments disagree on owners")
		})
		// stores of peers and hashes under the write lock, together
		peersF, hashesF := eng.FieldIs("sharder", "DeterministicSharder", "peers"), eng.FieldIs("sharder", "DeterministicSharder", "hashes")
		var ps, hs *ssa.Store
		for _, w := range eng.FieldWrites([]*ssa.Function{lp}, peersF) {
			ps = w.Instr.(*ssa.Store)
		}
		for _, w := range eng.FieldWrites([]*ssa.Function{lp}, hashesF) {
			hs = w.Instr.(*ssa.Store)
		}
		// the sharder's mutex, whatever it is called
		lk := func(fr eng.FieldRef) bool {
			if fr.Struct == nil || fr.Struct.Obj().Name() != "DeterministicSharder" || fr.Var == nil {
				return false
			}
			t := fr.Var.Type().String()
			return t == "sync.RWMutex" || t == "sync.Mutex"
		}
		okTogether := ps != nil && hs != nil && ps.Block() == hs.Block() && wlockedAt(ps, lk) && wlockedAt(hs, lk)
		c.Decide(okTogether, "C17.atomic-replace", "loadPeerList/peers+hashes", x.PosOf(lp.Pos()), "peers and hashes replaced together under the write lock", "peers and hashes are not replaced together under the write lock: WhichShard can index a new hash list into an old peer list")
	}
	c.Min(rS, 1)
	const rW = "C17.which-shard"
	if ws := x.Fn(rW, "sharder", "DeterministicSharder", "WhichShard"); ws != nil {
		peersF, hashesF := eng.FieldIs("sharder", "DeterministicSharder", "peers"), eng.FieldIs("sharder", "DeterministicSharder", "hashes")
		for _, rv := range returnedValues(ws, 0) {
			bad := ""
			// the result is peers[ix] with ix only from hashShard.shardIndex or a constant
			var idx ssa.Value
			eng.Derives(rv, func(v ssa.Value) bool {
				if ia, ok := v.(*ssa.IndexAddr); ok && loadsField(ia.X, peersF) {
					idx = ia.Index
				}
				return false
			}, eng.FlowOpts{})
			if idx == nil {
				bad = "the returned shard is not an element of the peer list"
			} else {
				for _, l := range leaves(idx, nil) {
					switch y := l.(type) {
					case *ssa.Const:
					case *ssa.UnOp:
						if fr, _, ok := eng.LoadedField(y); !ok || fr.Name != "shardIndex" {
							bad = "the peer index comes from " + y.String()
						}
					case *ssa.Field:
						if fr, _, ok := eng.FieldRefOf(y); !ok || fr.Name != "shardIndex" {
							bad = "the peer index comes from " + y.String()
						}
					default:
						bad = "the peer index comes from " + l.String()
					}
				}
			}
			p := x.PosOf(ws.Pos())
			if in, ok := rv.(ssa.Instruction); ok {
				p = x.Pos(in)
			}
			c.Decide(bad == "", rW, "WhichShard/owner-in-peers", p, "returns peers[shardIndex of the best hash]", bad+": WhichShard can answer with a shard that is not read from the current peer list under the lock (a remembered answer survives a membership change), so nodes disagree on the owner")
		}
		// the comparison uses hashes of the trace ID seeded by the hash list only
		pure := true
		why := ""
		eng.Instrs(ws, func(in ssa.Instruction) {
			if cl, ok := in.(ssa.CallInstruction); ok {
				n := eng.CalleeName(cl)
				if isNondetName(n) {
					pure, why = false, n
				}
			}
		})
		rg := false
		eng.Instrs(ws, func(in ssa.Instruction) {
			if ia, ok := in.(*ssa.IndexAddr); ok && loadsField(ia.X, hashesF) && (isRangeIndex(ia.Index) || isCountingIndex(ia.Index)) {
				rg = true
			}
		})
		c.Decide(pure && rg, rW, "WhichShard/pure", x.PosOf(ws.Pos()), "pure scan over the hash list", "WhichShard depends on "+why+" or does not scan the hash list in order")
	}
	c.Min(rW, 2)
	if gh := x.Fn("C17.constant-seeds", "sharder", "detShard", "GetHashesFor"); gh != nil {
		bad := x.nondetPath(gh)
		c.Decide(bad == nil, "C17.constant-seeds", "GetHashesFor", x.PosOf(gh.Pos()), "hash seeds derive from the arguments only", "shard hashes depend on a nondeterministic source")
	}
}

func typeContains(v ssa.Value, s string) bool {
	t := v.Type().String()
	if mi, ok := v.(*ssa.MakeInterface); ok {
		t = mi.X.Type().String()
	}
	if ct, ok := v.(*ssa.ChangeType); ok {
		t += ct.X.Type().String()
	}
	return len(t) > 0 && (containsStr(t, s))
}

func containsStr(a, b string) bool {
	for i := 0; i+len(b) <= len(a); i++ {
		if a[i:i+len(b)] == b {
			return true
		}
	}
	return false
}

// wlockedAt: write lock held at the instruction.
func wlockedAt(in ssa.Instruction, mutexField func(eng.FieldRef) bool) bool {
	return lockedAtMode(in, mutexField, true)
}
