package rules

import (
	"strings"

	"golang.org/x/tools/go/ssa"

	"refcheck/internal/eng"
)

func init() { Register("C37", c37) }

func c37(x *Ctx) {
	c := x.C
	c.Explanation = "C37 (unhandled paths are proxied faithfully): decides by provenance in Router.proxy that the upstream request's method is the client's, its URL is the configured API host + the client's full URL (path and query), its body is the client's body; that every client header is copied in a loop over the request's headers and X-Forwarded-For is set; that the client receives every upstream response header (loop), then the upstream status, then the upstream body, in that order; and that an upstream failure ends the handler with an error response."
	c.NotCovered = "multi-valued header joining, streaming errors while copying the body, hop-by-hop headers."
	const r = "C37.proxy"
	p := x.Fn(r, "route", "Router", "proxy")
	if p == nil || len(p.Params) != 3 {
		return
	}
	w, req := p.Params[1], p.Params[2]
	reqField := func(name string) func(ssa.Value) bool {
		return func(v ssa.Value) bool {
			fr, base, ok := eng.LoadedField(v)
			if !ok || fr.Name != name {
				return false
			}
			return base == ssa.Value(req)
		}
	}
	fromReq := func(v ssa.Value, field string) bool {
		_, ok := eng.Derives(v, reqField(field), eng.FlowOpts{ThroughCalls: true})
		return ok
	}
	var newReq *ssa.Call
	eng.Instrs(p, func(in ssa.Instruction) {
		if cl, ok := eng.IsCall(in, "net/http.NewRequest", "net/http.NewRequestWithContext"); ok {
			newReq = cl.(*ssa.Call)
		}
	})
	if newReq == nil {
		c.Violate(r, "proxy/upstream-request", x.PosOf(p.Pos()), "no upstream request is built")
		return
	}
	a := newReq.Call.Args
	if len(a) == 4 {
		a = a[1:]
	}
	c.Examined += 3
	c.Decide(fromReq(a[0], "Method") && !isConst(a[0]), "C37.method-provenance", "proxy/method", x.Pos(newReq), "method = client's method", "the upstream request does not use the client's method")
	// URL = GetHoneycombAPI() + req.URL.String()
	urlOK := false
	if _, api := eng.Derives(a[1], func(v ssa.Value) bool { return isCallValue(v, "(config.Config).GetHoneycombAPI") }, eng.FlowOpts{}); api {
		if _, full := eng.Derives(a[1], func(v ssa.Value) bool {
			cl, ok := v.(*ssa.Call)
			if !ok {
				return false
			}
			n := eng.CalleeName(cl)
			return (n == "(*net/url.URL).String" || n == "(*net/url.URL).RequestURI") && reqField("URL")(cl.Call.Args[0])
		}, eng.FlowOpts{}); full {
			urlOK = true
		}
	}
	c.Decide(urlOK, "C37.url-provenance", "proxy/url", x.Pos(newReq), "URL = configured API + client's full URL", "the upstream URL is not the configured API host followed by the client's full URL (path and query string): e.g. the query string is dropped")
	c.Decide(fromReq(a[2], "Body"), "C37.body-provenance", "proxy/body", x.Pos(newReq), "body = client's body", "the upstream request body is not the client's body")
	// headers copied in a loop over req.Header onto the upstream request
	hdrLoop := func(srcOK func(ssa.Value) bool, dstOK func(recv ssa.Value) bool) (ssa.Instruction, bool) {
		var found ssa.Instruction
		eng.Instrs(p, func(in ssa.Instruction) {
			cl, ok := eng.IsCall(in, "(net/http.Header).Set", "(net/http.Header).Add")
			if !ok || loopHeader(in) == nil {
				return
			}
			args := eng.CallArgs(cl)
			_, keyFromRange := eng.Derives(args[0], func(v ssa.Value) bool {
				nx, ok := v.(*ssa.Next)
				if !ok {
					return false
				}
				rg, ok := nx.Iter.(*ssa.Range)
				return ok && srcOK(rg.X)
			}, eng.FlowOpts{})
			_, valFromRange := eng.Derives(args[1], func(v ssa.Value) bool {
				nx, ok := v.(*ssa.Next)
				if !ok {
					return false
				}
				rg, ok := nx.Iter.(*ssa.Range)
				return ok && srcOK(rg.X)
			}, eng.FlowOpts{ThroughCalls: true})
			if keyFromRange && valFromRange && dstOK(eng.Receiver(cl)) {
				found = in
			}
		})
		return found, found != nil
	}
	upstreamReqVal := func(v ssa.Value) bool {
		_, ok := eng.Derives(v, func(u ssa.Value) bool {
			e, ok := u.(*ssa.Extract)
			return ok && e.Tuple == ssa.Value(newReq)
		}, eng.FlowOpts{ThroughCalls: true})
		return ok
	}
	_, ok1 := hdrLoop(reqField("Header"), upstreamReqVal)
	c.Decide(ok1, "C37.request-headers", "proxy/request-headers", x.PosOf(p.Pos()), "every client header is set on the upstream request", "client headers are not all copied onto the upstream request")
	xff := false
	eng.Instrs(p, func(in ssa.Instruction) {
		if cl, ok := eng.IsCall(in, "(net/http.Header).Set", "(net/http.Header).Add"); ok {
			if s, ok := eng.ConstString(eng.CallArgs(cl)[0]); ok && s == "X-Forwarded-For" && upstreamReqVal(eng.Receiver(cl)) && fromReq(eng.CallArgs(cl)[1], "RemoteAddr") {
				xff = true
			}
		}
	})
	c.Decide(xff, "C37.request-headers", "proxy/x-forwarded-for", x.PosOf(p.Pos()), "X-Forwarded-For carries the client address", "X-Forwarded-For is not set from the client's address")
	// response
	var do *ssa.Call
	eng.Instrs(p, func(in ssa.Instruction) {
		if cl, ok := eng.IsCall(in, "(*net/http.Client).Do"); ok {
			do = cl.(*ssa.Call)
		}
	})
	if do == nil {
		c.Violate(r, "proxy/do", x.PosOf(p.Pos()), "the upstream request is never sent")
		return
	}
	c.Decide(upstreamReqVal(do.Call.Args[1]), "C37.sends-built-request", "proxy/do", x.Pos(do), "the request that is sent is the one that was built", "the request sent upstream is not the one built from the client's request")
	respField := func(name string) func(ssa.Value) bool {
		return func(v ssa.Value) bool {
			fr, base, ok := eng.LoadedField(v)
			if !ok || fr.Name != name {
				return false
			}
			e, ok := base.(*ssa.Extract)
			return ok && e.Tuple == ssa.Value(do)
		}
	}
	wHeader := func(recv ssa.Value) bool {
		cl, ok := recv.(*ssa.Call)
		return ok && eng.CalleeName(cl) == "(net/http.ResponseWriter).Header" && cl.Call.Value == ssa.Value(w)
	}
	hdrSet, ok2 := hdrLoop(respField("Header"), wHeader)
	c.Decide(ok2, "C37.response-headers", "proxy/response-headers", x.PosOf(p.Pos()), "every upstream response header is relayed", "upstream response headers are not all relayed to the client")
	var wh, cp ssa.Instruction
	eng.Instrs(p, func(in ssa.Instruction) {
		if cl, ok := eng.IsCall(in, "(net/http.ResponseWriter).WriteHeader"); ok {
			if respField("StatusCode")(eng.CallArgs(cl)[0]) {
				wh = in
			}
		}
		if cl, ok := eng.IsCall(in, "io.Copy", "io.CopyBuffer"); ok {
			args := eng.CallArgs(cl)
			_, dst := eng.Derives(args[0], func(v ssa.Value) bool { return v == ssa.Value(w) }, eng.FlowOpts{})
			_, src := eng.Derives(args[1], respField("Body"), eng.FlowOpts{})
			if dst && src {
				cp = in
			}
		}
	})
	c.Decide(wh != nil, "C37.status-relayed", "proxy/status", x.PosOf(p.Pos()), "status = upstream status", "the client does not receive the upstream status code")
	c.Decide(cp != nil, "C37.body-relayed", "proxy/response-body", x.PosOf(p.Pos()), "body = upstream body", "the upstream response body is not copied to the client")
	if wh != nil && cp != nil {
		// once the status has been relayed the body copy follows on every path (no "nothing to copy" shortcut:
		// a chunked response has ContentLength -1 and still has a body)
		r := eng.Explore(eng.Query{Fn: p, Start: wh, Classify: func(in ssa.Instruction, _ eng.Facts) eng.Event {
			if in == cp {
				return eng.EvKill
			}
			return eng.EvNone
		}})
		skipped := false
		for _, e := range r.Exits {
			if _, isRet := e.Instr.(*ssa.Return); isRet {
				skipped = true
			}
		}
		c.Decide(!skipped, "C37.body-relayed", "proxy/response-body-always", x.Pos(wh), "status relayed ⇒ body copy on every path", "after the upstream status has been relayed a path returns without copying the upstream body (a shortcut on the method or the declared length): responses framed without Content-Length reach the client with an empty body")
	}
	if ok2 && wh != nil && cp != nil {
		// order: header loop exits before WriteHeader, WriteHeader dominates the copy
		h := loopHeader(hdrSet)
		okOrder := h != nil && h.Dominates(wh.Block()) && !eng.BlockReaches(wh.Block(), h) && eng.Dominates(wh, cp)
		c.Decide(okOrder, "C37.order", "proxy/headers-status-body", x.Pos(wh), "headers, then status, then body", "response headers are set after WriteHeader (they are then silently ignored) or the body is written before the status")
	}
	// failure of the upstream call ends the handler with an error response
	as := &eng.Assume{Nil: func(v ssa.Value) eng.Tri {
		if e, ok := v.(*ssa.Extract); ok && e.Tuple == ssa.Value(do) && e.Index == 1 {
			return eng.False
		}
		return eng.Unknown
	}}
	r2 := eng.Explore(eng.Query{Fn: p, Assume: as, Start: do, Classify: func(in ssa.Instruction, _ eng.Facts) eng.Event {
		if _, ok := eng.IsCall(in, "(*route.Router).handlerReturnWithError"); ok {
			return eng.EvSink
		}
		if n := eng.CalleeName2(in); strings.HasSuffix(n, "ResponseWriter).WriteHeader") || n == "io.Copy" {
			return eng.EvNone
		}
		return eng.EvNone
	}})
	bad := false
	for _, e := range r2.Exits {
		if _, isRet := e.Instr.(*ssa.Return); isRet && e.Sinks != 1 {
			bad = true
		}
	}
	c.Decide(!bad, "C37.upstream-failure", "proxy/do-error", x.Pos(do), "upstream failure ⇒ one error response", "when the upstream call fails the client gets no (or a relayed nil) response")
	c.Min("C37.order", 1)
}

func isConst(v ssa.Value) bool { _, ok := v.(*ssa.Const); return ok }
