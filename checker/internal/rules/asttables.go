package rules

import (
	"go/ast"
	"go/constant"
	"go/token"
	"go/types"
	"sort"
	"strconv"

	"golang.org/x/tools/go/packages"
	"golang.org/x/tools/go/ssa"
)

// E6 – tables read from the syntax tree: case labels of named switches and constant sets.

func (x *Ctx) pkgOf(f *ssa.Function) *packages.Package {
	return x.P.ByRel[x.P.FuncRel(f)]
}

// SwitchTable is the set of constant labels of one switch statement.
type SwitchTable struct {
	Pos        token.Pos
	Tag        string
	Labels     map[string]token.Pos // constant value (strings unquoted) or type string for type switches
	Clauses    [][]string           // labels per clause, in order
	HasDefault bool
	DefaultPos token.Pos
	Bodies     []*ast.CaseClause
}

func (t *SwitchTable) Sorted() []string {
	var out []string
	for k := range t.Labels {
		out = append(out, k)
	}
	sort.Strings(out)
	return out
}

func constLabel(info *types.Info, e ast.Expr) (string, bool) {
	tv, ok := info.Types[e]
	if !ok || tv.Value == nil {
		return "", false
	}
	if tv.Value.Kind() == constant.String {
		return constant.StringVal(tv.Value), true
	}
	return tv.Value.ExactString(), true
}

// switches returns the value switches inside node whose tag satisfies tagPred
// (tagPred receives the tag expression rendered with types.ExprString), and the
// type switches whose subject satisfies it.
func (x *Ctx) switches(pk *packages.Package, node ast.Node, tagPred func(string) bool) []*SwitchTable {
	var out []*SwitchTable
	ast.Inspect(node, func(n ast.Node) bool {
		switch s := n.(type) {
		case *ast.SwitchStmt:
			if s.Tag == nil {
				return true
			}
			tag := types.ExprString(s.Tag)
			if !tagPred(tag) {
				return true
			}
			t := &SwitchTable{Pos: s.Pos(), Tag: tag, Labels: map[string]token.Pos{}}
			for _, st := range s.Body.List {
				cc := st.(*ast.CaseClause)
				if cc.List == nil {
					t.HasDefault = true
					t.DefaultPos = cc.Pos()
					t.Clauses = append(t.Clauses, nil)
					t.Bodies = append(t.Bodies, cc)
					continue
				}
				var ls []string
				for _, e := range cc.List {
					if l, ok := constLabel(pk.TypesInfo, e); ok {
						t.Labels[l] = e.Pos()
						ls = append(ls, l)
					} else {
						l := "<non-constant:" + types.ExprString(e) + ">"
						t.Labels[l] = e.Pos()
						ls = append(ls, l)
					}
				}
				t.Clauses = append(t.Clauses, ls)
				t.Bodies = append(t.Bodies, cc)
			}
			out = append(out, t)
		case *ast.TypeSwitchStmt:
			var subj ast.Expr
			switch a := s.Assign.(type) {
			case *ast.AssignStmt:
				if ta, ok := a.Rhs[0].(*ast.TypeAssertExpr); ok {
					subj = ta.X
				}
			case *ast.ExprStmt:
				if ta, ok := a.X.(*ast.TypeAssertExpr); ok {
					subj = ta.X
				}
			}
			if subj == nil {
				return true
			}
			tag := types.ExprString(subj) + ".(type)"
			if !tagPred(tag) {
				return true
			}
			t := &SwitchTable{Pos: s.Pos(), Tag: tag, Labels: map[string]token.Pos{}}
			for _, st := range s.Body.List {
				cc := st.(*ast.CaseClause)
				if cc.List == nil {
					t.HasDefault = true
					t.DefaultPos = cc.Pos()
					t.Clauses = append(t.Clauses, nil)
					t.Bodies = append(t.Bodies, cc)
					continue
				}
				var ls []string
				for _, e := range cc.List {
					l := "nil"
					if tv, ok := pk.TypesInfo.Types[e]; ok && tv.Type != nil {
						l = typeString(tv.Type)
						if tv.IsNil() {
							l = "nil"
						}
					}
					t.Labels[l] = e.Pos()
					ls = append(ls, l)
				}
				t.Clauses = append(t.Clauses, ls)
				t.Bodies = append(t.Bodies, cc)
			}
			out = append(out, t)
		}
		return true
	})
	return out
}

// constBlockOf returns the string constants declared in the same const block(s)
// as the anchor constant names in package rel.
func (x *Ctx) constBlocks(rel string, anchors ...string) map[string]string {
	pk := x.P.ByRel[rel]
	out := map[string]string{}
	if pk == nil {
		return out
	}
	want := map[string]bool{}
	for _, a := range anchors {
		want[a] = true
	}
	for _, f := range pk.Syntax {
		for _, d := range f.Decls {
			gd, ok := d.(*ast.GenDecl)
			if !ok || gd.Tok != token.CONST {
				continue
			}
			hit := false
			for _, sp := range gd.Specs {
				for _, n := range sp.(*ast.ValueSpec).Names {
					if want[n.Name] {
						hit = true
					}
				}
			}
			if !hit {
				continue
			}
			for _, sp := range gd.Specs {
				for _, n := range sp.(*ast.ValueSpec).Names {
					if c, ok := pk.TypesInfo.Defs[n].(*types.Const); ok && c.Val().Kind() == constant.String {
						out[n.Name] = constant.StringVal(c.Val())
					}
				}
			}
		}
	}
	return out
}

func setDiff(a, b map[string]bool) []string {
	var out []string
	for k := range a {
		if !b[k] {
			out = append(out, k)
		}
	}
	sort.Strings(out)
	return out
}

func toSet(xs []string) map[string]bool {
	m := map[string]bool{}
	for _, s := range xs {
		m[s] = true
	}
	return m
}

func quoteList(xs []string) string {
	s := ""
	for i, v := range xs {
		if i > 0 {
			s += ", "
		}
		s += strconv.Quote(v)
	}
	return s
}

func nodeString(x *Ctx, n ast.Node) string {
	var sb stringsBuilder
	printerFprint(&sb, x.P.Fset, n)
	return sb.String()
}
