#!/bin/sh
# usage: try_patch.sh <patch.diff> [Cnn|all]   – run the checks against /repo HEAD + patch in a scratch worktree
set -eu
P=$(realpath "$1"); W=/tmp/tp-$$; ID=${2:-all}
git -C /repo worktree add -q --detach "$W" HEAD
( cd "$W" && git apply --3way "$P" >/dev/null 2>&1 || git apply "$P" )
REFCHECK_OUT="$W.out" REPO_DIR="$W" /verif/check "$ID" quick | grep -v "^  rule\|KNOWN-FINDING" || true
git -C /repo worktree remove --force "$W"; rm -rf "$W" "$W.out"
