package rules

import (
	"strings"

	"golang.org/x/tools/go/ssa"

	"refcheck/internal/eng"
)

// E10 – effect / purity: forward reachability to nondeterminism sources.

func isNondetName(n string) bool {
	switch {
	case strings.HasPrefix(n, "math/rand."), strings.HasPrefix(n, "math/rand/v2."),
		strings.HasPrefix(n, "(*math/rand.Rand)."), strings.HasPrefix(n, "(*math/rand/v2.Rand)."),
		strings.HasPrefix(n, "crypto/rand."):
		return true
	}
	switch n {
	case "time.Now", "time.Since", "time.Until", "os.Hostname", "os.Getpid", "os.Getenv",
		"(github.com/jonboulle/clockwork.Clock).Now", "(github.com/jonboulle/clockwork.Clock).Since",
		"runtime.NumGoroutine", "hash/maphash.MakeSeed":
		return true
	}
	return false
}

// nondetPath returns a call path from fn to a nondeterminism source, or nil.
// It inspects call instructions (so interface invocations are seen by name)
// and follows call-graph edges into callees that have bodies.
func (x *Ctx) nondetPath(fn *ssa.Function) []string {
	type item struct {
		f    *ssa.Function
		prev *item
	}
	cg := x.P.CallGraph()
	seen := map[*ssa.Function]bool{fn: true}
	q := []*item{{fn, nil}}
	for len(q) > 0 {
		it := q[0]
		q = q[1:]
		trail := func(last string) []string {
			out := []string{last}
			for y := it; y != nil; y = y.prev {
				out = append([]string{FName(y.f)}, out...)
			}
			return out
		}
		if isNondetName(eng.SSAFuncName(it.f)) {
			return trail("")[:len(trail(""))-1]
		}
		var bad string
		eng.Instrs(it.f, func(in ssa.Instruction) {
			if c, ok := in.(ssa.CallInstruction); ok && bad == "" {
				if n := eng.CalleeName(c); isNondetName(n) {
					bad = n + " at " + x.Pos(in)
				}
			}
		})
		if bad != "" {
			return trail(bad)
		}
		var next []*ssa.Function
		if n := cg.Nodes[it.f]; n != nil {
			for _, e := range n.Out {
				next = append(next, e.Callee.Func)
			}
		}
		next = append(next, it.f.AnonFuncs...)
		for _, g := range next {
			if g != nil && !seen[g] {
				seen[g] = true
				q = append(q, &item{g, it})
			}
		}
	}
	return nil
}

// readsGlobalVars lists package-level variables (not constants) read by fn.
func readsGlobals(fn *ssa.Function) []*ssa.Global {
	var out []*ssa.Global
	seen := map[*ssa.Global]bool{}
	eng.Instrs(fn, func(in ssa.Instruction) {
		var ops []*ssa.Value
		for _, op := range in.Operands(ops) {
			if g, ok := (*op).(*ssa.Global); ok && !seen[g] {
				seen[g] = true
				out = append(out, g)
			}
		}
	})
	return out
}
