package rules

import (
	"go/token"
	"sort"
	"strings"

	"golang.org/x/tools/go/ssa"

	"refcheck/internal/eng"
)

func init() { Register("C06", c06) }

// startupOnly reports whether f can only run during start-up: every caller
// chain ends in Start / main / init / a constructor, and none passes through a
// `go` statement (goroutine loops, handlers and callbacks are live code).
func (x *Ctx) startupOnly(f *ssa.Function) (bool, string) {
	roots, viaGo := x.RootsOf(f, nil)
	if len(viaGo) > 0 {
		return false, "runs on a goroutine started in " + FName(viaGo[0].Caller.Func)
	}
	for _, r := range roots {
		n := r.Name()
		if n == "Start" || n == "main" || n == "init" || strings.HasPrefix(n, "New") || strings.HasPrefix(n, "new") {
			continue
		}
		return false, "reachable from " + FName(r)
	}
	return true, ""
}

func c06(x *Ctx) {
	c := x.C
	c.Explanation = "C06 (decoration as configured, including after reload): decides (1) sibling agreement of the forwarding sites – every upstream enqueue in the collector is preceded on all paths by addAdditionalAttributes on the same span, by the local-hostname attribute when a hostname is set, and by the reason attribute when AddRuleReasonToTrace is on; (2) each decoration option documented `reload: true` is read by live code of the collector (a goroutine loop or per-span function), not only at start-up; (3) who writes the cached hostname."
	c.NotCovered = "numeric equality of span/event counts (values) and the content of the attributes."
	funcs := x.PkgFuncs("collect")
	hostKey, _ := x.constStr("C06.decorate-before-enqueue", "types", "MetaRefineryLocalHostname")
	reasonKey, _ := x.constStr("C06.decorate-before-enqueue", "types", "MetaRefineryReason")
	hostF := eng.FieldIs("collect", "InMemCollector", "hostname")

	const rDec = "C06.decorate-before-enqueue"
	for _, f := range funcs {
		var enq []ssa.Instruction
		eng.Instrs(f, func(in ssa.Instruction) {
			if isUpstreamEnqueue(in) {
				enq = append(enq, in)
			}
		})
		for _, e := range enq {
			span := eng.CallArgs(e.(ssa.CallInstruction))[0]
			h := loopHeader(e)
			var start ssa.Instruction
			if h != nil {
				if b := loopBody(h); b != nil {
					start = b.Instrs[0]
				}
			}
			run := func(as *eng.Assume, satisfied func(ssa.Instruction) bool) *eng.PathResult {
				return eng.Explore(eng.Query{Fn: f, Assume: as, Start: start, Classify: func(in ssa.Instruction, _ eng.Facts) eng.Event {
					if h != nil && in == h.Instrs[0] {
						return eng.EvKill
					}
					if satisfied(in) {
						return eng.EvKill
					}
					if in == e {
						return eng.EvSink
					}
					return eng.EvNone
				}})
			}
			// (a) additional attributes
			r := run(nil, func(in ssa.Instruction) bool {
				cl, ok := eng.IsCall(in, nAddAttrs)
				if !ok {
					return false
				}
				a := eng.CallArgs(cl)
				return len(a) == 1 && (a[0] == span || eng.SameObject(a[0], span))
			})
			c.Examined += r.States
			if len(r.Hits) > 0 {
				o := c.Violate(rDec, BaseName(f)+"/additional-attributes", x.Pos(e), "a span reaches the upstream transmission without the configured AdditionalAttributes on some path, while sibling forwarding sites add them")
				o.Path = eng.DescribePath(x.P.Pos, r.Hits[0].Path)
			} else {
				c.Hold(rDec, BaseName(f)+"/additional-attributes", x.Pos(e), "addAdditionalAttributes(sp) precedes the enqueue")
			}
			// (b) hostname when set
			asHost := &eng.Assume{Bool: func(v ssa.Value) eng.Tri {
				if b, ok := v.(*ssa.BinOp); ok && (b.Op == token.NEQ || b.Op == token.EQL) {
					var other ssa.Value
					if loadsField(b.X, hostF) {
						other = b.Y
					} else if loadsField(b.Y, hostF) {
						other = b.X
					}
					if s, ok := eng.ConstString(other); other != nil && ok && s == "" {
						if b.Op == token.NEQ {
							return eng.True
						}
						return eng.False
					}
				}
				if isCallValue(v, "(config.Config).GetAddHostMetadataToTrace") {
					return eng.True
				}
				return eng.Unknown
			}}
			r = run(asHost, func(in ssa.Instruction) bool {
				k, cl, ok := payloadSetKey(in)
				return ok && k == hostKey && payloadOf(eng.Receiver(cl), span)
			})
			c.Examined += r.States
			if len(r.Hits) > 0 {
				o := c.Violate(rDec, BaseName(f)+"/hostname", x.Pos(e), "with host metadata enabled a span is forwarded without "+hostKey+" on some path")
				o.Path = eng.DescribePath(x.P.Pos, r.Hits[0].Path)
			} else {
				c.Hold(rDec, BaseName(f)+"/hostname", x.Pos(e), "hostname attribute precedes the enqueue when set")
			}
			// (c) reason when AddRuleReasonToTrace
			asReason := &eng.Assume{Bool: func(v ssa.Value) eng.Tri {
				if isCallValue(v, "(config.Config).GetAddRuleReasonToTrace") {
					return eng.True
				}
				if isCallValue(v, nIsDryRun) {
					return eng.False
				}
				return eng.Unknown
			}}
			r = run(asReason, func(in ssa.Instruction) bool {
				k, cl, ok := payloadSetKey(in)
				return ok && k == reasonKey && payloadOf(eng.Receiver(cl), span)
			})
			c.Examined += r.States
			if len(r.Hits) > 0 {
				o := c.Violate(rDec, BaseName(f)+"/reason", x.Pos(e), "with AddRuleReasonToTrace on a span is forwarded without "+reasonKey+" on some path")
				o.Path = eng.DescribePath(x.P.Pos, r.Hits[0].Path)
			} else {
				c.Hold(rDec, BaseName(f)+"/reason", x.Pos(e), "reason attribute precedes the enqueue when enabled")
			}
		}
	}
	c.Min(rDec, 9)

	// ---- clause 2: reloadable options are read by live code ------------------------------
	const rFresh = "C06.reload-fresh"
	meta := x.loadMeta(rFresh, "config/metadata/configMeta.yaml")
	type opt struct{ group, field, getter string }
	opts := []opt{
		{"RefineryTelemetry", "AddHostMetadataToTrace", "GetAddHostMetadataToTrace"},
		{"RefineryTelemetry", "AddRuleReasonToTrace", "GetAddRuleReasonToTrace"},
		{"RefineryTelemetry", "AddSpanCountToRoot", "GetAddSpanCountToRoot"},
		{"RefineryTelemetry", "AddCountsToRoot", "GetAddCountsToRoot"},
		{"Specialized", "AdditionalAttributes", "GetAdditionalAttributes"},
	}
	if meta != nil {
		for _, o := range opts {
			mf := meta.Field(o.group, o.field)
			if mf == nil {
				c.Unresolved(rFresh, o.field, "option "+o.group+"."+o.field+" is no longer documented in configMeta.yaml")
				continue
			}
			if mf.Reload == nil || !*mf.Reload {
				c.Hold(rFresh, o.field, "config/metadata/configMeta.yaml", "documented as not reloadable: no obligation")
				continue
			}
			name := "(config.Config)." + o.getter
			sites := eng.CallSites(funcs, func(n string, _ ssa.CallInstruction) bool { return n == name })
			live := ""
			firstPos := "collect"
			frozenAt := ""
			for _, s := range sites {
				c.Examined++
				firstPos = x.Pos(s.Instr)
				if fr, use := frozenBeforeServiceLoop(s.Instr); fr {
					frozenAt = x.Pos(s.Instr) + " (used in the long-lived loop at " + x.Pos(use) + ")"
					continue
				}
				if so, _ := x.startupOnly(s.Fn); !so && live == "" {
					live = x.Pos(s.Instr)
				}
			}
			if frozenAt != "" {
				c.Violate(rFresh, o.field+"/frozen-before-loop", firstPos, o.field+" is read once before a long-lived channel loop and used inside it: "+frozenAt+"; a reload does not reach the forwarding goroutine")
			}
			switch {
			case len(sites) == 0:
				c.Violate(rFresh, o.field, firstPos, "the collector never reads "+o.field+" although it is documented as a live-reloadable decoration option")
			case live == "":
				c.Violate(rFresh, o.field, firstPos, o.field+" is documented `reload: true` but the collector reads it only in start-up code ("+FName(sites[0].Fn)+"): toggling it and reloading has no effect on forwarded spans until restart")
			default:
				c.Hold(rFresh, o.field, live, "read per use in live code")
			}
		}
	}
	c.Min(rFresh, 5)

	// ---- clause 2b: a value cached from the configuration is rewritten on every refresh ------------------------
	// (a refresh function – called from reloadConfigs – that stores a collector field must store it on every path;
	// an early return, e.g. "nothing configured", leaves the previous configuration's value in place for good)
	const rRef = "C06.refresh-stores-always"
	if rc := x.P.Func("collect", "InMemCollector", "reloadConfigs"); rc != nil {
		storedField := func(in ssa.Instruction) (string, bool) {
			switch y := in.(type) {
			case *ssa.Store:
				if fr, _, ok := eng.FieldRefOf(y.Addr); ok && fr.Struct != nil && fr.Struct.Obj().Name() == "InMemCollector" {
					return fr.Name, true
				}
			case *ssa.Call:
				if n := eng.CalleeName(y); strings.HasPrefix(n, "(*sync/atomic.") && (strings.HasSuffix(n, ").Store") || strings.HasSuffix(n, ").Swap")) && len(y.Call.Args) > 0 {
					if fr, _, ok := eng.FieldRefOf(y.Call.Args[0]); ok && fr.Struct != nil && fr.Struct.Obj().Name() == "InMemCollector" {
						return fr.Name, true
					}
				}
			}
			return "", false
		}
		eng.Instrs(rc, func(in ssa.Instruction) {
			cl, ok := in.(*ssa.Call)
			if !ok {
				return
			}
			g := cl.Call.StaticCallee()
			if g == nil || g.Blocks == nil || x.P.FuncRel(g) != "collect" || g.Signature.Recv() == nil || !strings.Contains(g.Signature.Recv().Type().String(), "InMemCollector") {
				return
			}
			fields := map[string]bool{}
			eng.Instrs(g, func(i2 ssa.Instruction) {
				if f, ok := storedField(i2); ok {
					fields[f] = true
				}
			})
			for f := range fields {
				c.Examined++
				r := eng.Explore(eng.Query{Fn: g, Classify: func(i2 ssa.Instruction, _ eng.Facts) eng.Event {
					if n, ok := storedField(i2); ok && n == f {
						return eng.EvSink
					}
					return eng.EvNone
				}})
				bad := false
				for _, e := range r.Exits {
					if _, isRet := e.Instr.(*ssa.Return); isRet && e.Sinks == 0 {
						bad = true
					}
				}
				c.Decide(!bad, rRef, BaseName(g)+"/"+f, x.PosOf(g.Pos()), "the cached value is rewritten on every path of the refresh",
					BaseName(g)+" refreshes InMemCollector."+f+" from the configuration on reload but can return without storing it: when the new configuration makes that path be taken (e.g. the option was emptied) the value of the previous configuration stays in effect")
			}
		})
	}

	// ---- clause 2c: the three forwarding sites put the same counts under the same keys -------------------------
	const rCnt = "C06.count-sibling-agreement"
	{
		type sig map[string]string // scenario/key -> accessor
		sigs := map[string]sig{}
		var order []string
		for _, f := range funcs {
			uses := false
			eng.Instrs(f, func(in ssa.Instruction) {
				if _, ok := eng.IsCall(in, "(config.Config).GetAddCountsToRoot", "(config.Config).GetAddSpanCountToRoot"); ok {
					uses = true
				}
			})
			if !uses {
				continue
			}
			sg := sig{}
			for _, sc := range []struct {
				name           string
				counts, spanCt eng.Tri
			}{{"all-counts", eng.True, eng.Unknown}, {"span-count-only", eng.False, eng.True}} {
				as := &eng.Assume{Bool: func(v ssa.Value) eng.Tri {
					if isCallValue(v, "(config.Config).GetAddCountsToRoot") {
						return sc.counts
					}
					if isCallValue(v, "(config.Config).GetAddSpanCountToRoot") {
						return sc.spanCt
					}
					return eng.Unknown
				}}
				eng.Explore(eng.Query{Fn: f, Assume: as, Classify: func(in ssa.Instruction, _ eng.Facts) eng.Event {
					k, cl, ok := payloadSetKey(in)
					if !ok || !strings.Contains(k, "count") {
						return eng.EvNone
					}
					acc := "?"
					eng.Derives(eng.CallArgs(cl)[1], func(v ssa.Value) bool {
						if c2, ok := v.(*ssa.Call); ok {
							if n := eng.MethodBase(eng.CalleeName(c2)); strings.HasSuffix(n, "Count") {
								acc = n
							}
						}
						return false
					}, eng.FlowOpts{})
					sg[sc.name+"/"+k] = acc
					return eng.EvNone
				}})
			}
			if len(sg) > 0 {
				sigs[BaseName(f)] = sg
				order = append(order, BaseName(f))
			}
		}
		sort.Strings(order)
		if len(order) >= 2 {
			ref := order[0]
			// the on-time path (send) is the reference when present
			for _, n := range order {
				if n == "send" {
					ref = n
				}
			}
			for _, n := range order {
				if n == ref {
					continue
				}
				c.Examined++
				diff := ""
				for k, v := range sigs[ref] {
					if sigs[n][k] != v {
						diff = sprintf("%s: %s has %s, %s has %s", k, ref, v, n, sigs[n][k])
					}
				}
				for k, v := range sigs[n] {
					if _, ok := sigs[ref][k]; !ok {
						diff = sprintf("%s: only %s sets it (from %s)", k, n, v)
					}
				}
				c.Decide(diff == "", rCnt, n+"~"+ref, "collect/collect.go", "same counts under the same keys for the same options",
					"the forwarding sites disagree on the root-span counts ("+diff+"): a root span that arrives late (or is forwarded by another path) carries a different count than the same root sent on time")
			}
		}
	}
	c.Min(rCnt, 2)

	// ---- clause 3: writers of the cached hostname -----------------------------------------
	const rHost = "C06.hostname-writers"
	for _, w := range eng.FieldWrites(funcs, hostF) {
		so, why := x.startupOnly(w.Fn)
		_ = why
		c.Decide(so, rHost, BaseName(w.Fn)+"/hostname", x.Pos(w.Instr), "hostname cached at start-up (constant for the process)", "the cached hostname is rewritten by live code without synchronisation with the forwarding goroutines")
	}
	c.Min(rHost, 1)
}
