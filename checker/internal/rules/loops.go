package rules

import (
	"go/token"

	"golang.org/x/tools/go/ssa"

	"refcheck/internal/eng"
)

// loopHeader returns the innermost loop header block enclosing in: a block
// that dominates in's block and is reachable again from it (back edge).
func loopHeader(in ssa.Instruction) *ssa.BasicBlock {
	b := in.Block()
	var best *ssa.BasicBlock
	for _, h := range b.Parent().Blocks {
		if !(h == b || h.Dominates(b)) {
			continue
		}
		// h is a loop header for b if some predecessor of h is reachable from b
		isHeader := false
		for _, p := range h.Preds {
			// natural loop of the back edge p→h: blocks that reach p without passing through h
			if (p == h || h.Dominates(p)) && (b == h || reachesAvoiding(b, p, h)) {
				isHeader = true
			}
		}
		if !isHeader {
			continue
		}
		if best == nil || best.Dominates(h) {
			best = h
		}
	}
	return best
}

// rangeElem reports whether v is an element of the slice/map/chan produced by a
// value satisfying src (e.g. `for _, t := range traces`): *(&s[i]) with s from src.
func rangeElemOf(v ssa.Value, src func(ssa.Value) bool) bool {
	_, ok := eng.Derives(v, func(w ssa.Value) bool {
		switch y := w.(type) {
		case *ssa.IndexAddr:
			_, ok := eng.Derives(y.X, src, eng.FlowOpts{})
			return ok
		case *ssa.Index:
			_, ok := eng.Derives(y.X, src, eng.FlowOpts{})
			return ok
		}
		return false
	}, eng.FlowOpts{})
	return ok
}

type chanOp struct {
	eng.Site
	Kind string // send, recv, close, len
}

// chanOps enumerates operations on channels loaded from struct fields matching pred.
func chanOps(funcs []*ssa.Function, pred func(eng.FieldRef) bool) []chanOp {
	var out []chanOp
	fromField := func(v ssa.Value) bool {
		return loadsField(v, pred)
	}
	for _, f := range funcs {
		eng.Instrs(f, func(in ssa.Instruction) {
			switch y := in.(type) {
			case *ssa.Send:
				if fromField(y.Chan) {
					out = append(out, chanOp{eng.Site{Fn: f, Instr: in}, "send"})
				}
			case *ssa.UnOp:
				if y.Op == token.ARROW && fromField(y.X) {
					out = append(out, chanOp{eng.Site{Fn: f, Instr: in}, "recv"})
				}
			case *ssa.Select:
				for _, st := range y.States {
					if fromField(st.Chan) {
						k := "recv"
						if st.Dir == 1 { // types.SendOnly
							k = "send"
						}
						out = append(out, chanOp{eng.Site{Fn: f, Instr: in}, k})
					}
				}
			case *ssa.Call:
				if b, ok := y.Call.Value.(*ssa.Builtin); ok && len(y.Call.Args) > 0 && fromField(y.Call.Args[0]) {
					switch b.Name() {
					case "close":
						out = append(out, chanOp{eng.Site{Fn: f, Instr: in}, "close"})
					}
				}
			}
		})
	}
	return out
}

// reachesAvoiding reports whether a reaches b on a path that does not pass through avoid.
func reachesAvoiding(a, b, avoid *ssa.BasicBlock) bool {
	if a == avoid {
		return false
	}
	if a == b {
		return true
	}
	seen := map[*ssa.BasicBlock]bool{a: true}
	work := []*ssa.BasicBlock{a}
	for len(work) > 0 {
		x := work[len(work)-1]
		work = work[:len(work)-1]
		for _, s := range x.Succs {
			if s == avoid || seen[s] {
				continue
			}
			if s == b {
				return true
			}
			seen[s] = true
			work = append(work, s)
		}
	}
	return false
}

// inNaturalLoop reports whether block b belongs to the natural loop headed by h.
func inNaturalLoop(b, h *ssa.BasicBlock) bool {
	if b == h {
		return true
	}
	if !h.Dominates(b) {
		return false
	}
	for _, p := range h.Preds {
		if (p == h || h.Dominates(p)) && reachesAvoiding(b, p, h) {
			return true
		}
	}
	return false
}

// exitLoopHeader returns the innermost loop from whose body the block of in
// is entered directly (a return or break target reached from inside the loop
// without going through the loop header again), or the enclosing loop when in
// lies in a loop body itself.
func exitLoopHeader(in ssa.Instruction) *ssa.BasicBlock {
	if h := loopHeader(in); h != nil {
		return h
	}
	r := in.Block()
	var best *ssa.BasicBlock
	for _, h := range r.Parent().Blocks {
		if !h.Dominates(r) {
			continue
		}
		isHeader := false
		for _, p := range h.Preds {
			if p == h || h.Dominates(p) {
				isHeader = true
			}
		}
		if !isHeader {
			continue
		}
		fromBody := false
		for _, b := range r.Parent().Blocks {
			if b != h && inNaturalLoop(b, h) && reachesAvoiding(b, r, h) {
				fromBody = true
				break
			}
		}
		if fromBody && (best == nil || best.Dominates(h)) {
			best = h
		}
	}
	return best
}
