package rules

import (
	"go/token"
	"strings"

	"golang.org/x/tools/go/ssa"

	"refcheck/internal/eng"
)

func init() { Register("C03", c03) }

func c03(x *Ctx) {
	c := x.C
	c.Explanation = "C03 (decisions at the documented time): decides (1) the buffer releases a trace only when now >= SendBy (the ordering relation, including the tie instant), (2) at most MaxExpiredTraces are released per call when the limit is positive and the caller passes the configured limit, (3) an existing trace's deadline is only ever lowered, and the priority queue is re-keyed after lowering; deadlines derive from now + TraceTimeout / SendDelay with the documented defaults, (4) the send reason passed to makeDecision matches the path condition (root present / span limit exceeded / expired), exhaustively."
	c.NotCovered = "'decided at the next tick' and 'earliest deadline first' depend on the ticker and on the priority-queue library; wall-clock behaviour is not a static fact."

	// ---- clause 1: expiry relation -------------------------------------------------
	const rExp = "C03.expiry-relation"
	te := x.Fn(rExp, "collect/cache", "DefaultInMemCache", "TakeExpiredTraces")
	cacheMap := eng.FieldIs("collect/cache", "DefaultInMemCache", "cache")
	if te != nil {
		now := param(te, "now")
		maxP := param(te, "max")
		// values the returned slice is built from
		resultSet := map[ssa.Value]bool{}
		eng.Instrs(te, func(in ssa.Instruction) {
			if r, ok := in.(*ssa.Return); ok && len(r.Results) == 1 {
				eng.Derives(r.Results[0], func(v ssa.Value) bool { resultSet[v] = true; return false }, eng.FlowOpts{Stop: func(v ssa.Value) bool {
					cl, ok := v.(*ssa.Call)
					if !ok {
						return false
					}
					b, isB := cl.Call.Value.(*ssa.Builtin)
					if isB && b.Name() == "append" {
						// follow only the slice operand
						return false
					}
					return true
				}})
			}
		})
		isTake := func(in ssa.Instruction) bool {
			cl, ok := in.(*ssa.Call)
			if !ok {
				return false
			}
			b, ok := cl.Call.Value.(*ssa.Builtin)
			if !ok {
				return false
			}
			if b.Name() == "append" && resultSet[cl] {
				return true
			}
			if b.Name() == "delete" && len(cl.Call.Args) > 0 && loadsField(cl.Call.Args[0], cacheMap) {
				return true
			}
			return false
		}
		var cmps []eng.TimeCmp
		eng.Instrs(te, func(in ssa.Instruction) {
			if v, ok := in.(ssa.Value); ok {
				if tc, ok := eng.NormTimeCmp(v); ok && now != nil && (derivesFrom(tc.X, now) || derivesFrom(tc.Y, now)) {
					cmps = append(cmps, tc)
				}
			}
		})
		if len(cmps) == 0 {
			c.Undecided(rExp, "TakeExpiredTraces/comparison", x.PosOf(te.Pos()), "no comparison between `now` and a deadline found (another idiom, e.g. Sub/Compare, would need to be added to the normaliser)")
		}
		gated := false
		for _, tc := range cmps {
			c.Examined++
			h := loopHeader(tc.Call)
			reach := func(val eng.Tri) bool {
				as := &eng.Assume{Bool: func(v ssa.Value) eng.Tri {
					if v == ssa.Value(tc.Call) {
						return val
					}
					return eng.Unknown
				}}
				r := eng.Explore(eng.Query{Fn: te, Assume: as, Start: tc.Call, Classify: func(in ssa.Instruction, _ eng.Facts) eng.Event {
					if h != nil && in == h.Instrs[0] {
						return eng.EvKill
					}
					if isTake(in) {
						return eng.EvSink
					}
					return eng.EvNone
				}})
				return len(r.Hits) > 0
			}
			whenT, whenF := reach(eng.True), reach(eng.False)
			nowRel := tc.Rel
			if !derivesFrom(tc.X, now) {
				nowRel = nowRel.Flip()
			}
			var expired eng.RelSet
			switch {
			case whenT && !whenF:
				expired = nowRel
			case whenF && !whenT:
				expired = (eng.LT | eng.EQ | eng.GT) &^ nowRel
			case !whenT && !whenF:
				continue // comparison does not lead to a removal in this iteration
			default:
				c.Violate(rExp, "TakeExpiredTraces/gate", x.Pos(tc.Call), "the comparison with the deadline does not gate the removal: a trace is released on both outcomes")
				continue
			}
			gated = true
			c.Decide(expired == eng.GT|eng.EQ, rExp, "TakeExpiredTraces/relation", x.Pos(tc.Call),
				"a trace is released iff now >= SendBy", "a trace is released iff now "+expired.String()+" SendBy; the documented relation is now >= SendBy (decided no earlier than the deadline, and at the deadline instant)")
		}
		if len(cmps) > 0 && !gated {
			c.Violate(rExp, "TakeExpiredTraces/gate", x.PosOf(te.Pos()), "no deadline comparison gates the removal of traces from the buffer")
		}
		// the deadline compared is the queue's priority / the trace's SendBy: the take must be unreachable without the comparison
		r := eng.Explore(eng.Query{Fn: te, Classify: func(in ssa.Instruction, _ eng.Facts) eng.Event {
			for _, tc := range cmps {
				if in == ssa.Instruction(tc.Call) {
					return eng.EvKill
				}
			}
			if isTake(in) {
				return eng.EvSink
			}
			return eng.EvNone
		}})
		c.Decide(len(r.Hits) == 0, rExp, "TakeExpiredTraces/every-removal-compared", x.PosOf(te.Pos()), "every removal is preceded by the deadline comparison", "a path removes a trace from the buffer without comparing its deadline with now")

		// ---- clause 2: per-tick bound -------------------------------------------
		const rMax = "C03.max-per-tick"
		if maxP != nil {
			isLenResult := func(v ssa.Value) bool {
				cl, ok := v.(*ssa.Call)
				if !ok {
					return false
				}
				b, ok := cl.Call.Value.(*ssa.Builtin)
				return ok && b.Name() == "len" && resultSet[cl.Call.Args[0]]
			}
			isMax := func(v ssa.Value) bool { return v == ssa.Value(maxP) }
			zero := int64(0)
			factsR := []eng.RelFact{
				{A: isLenResult, B: isMax, Rel: eng.GT | eng.EQ}, // budget exhausted
				{A: isMax, BConst: &zero, Rel: eng.GT},           // limit is positive
			}
			as := &eng.Assume{Bool: func(v ssa.Value) eng.Tri { return eng.EvalRel(v, factsR) }}
			r := eng.Explore(eng.Query{Fn: te, Assume: as, Classify: func(in ssa.Instruction, _ eng.Facts) eng.Event {
				if isTake(in) {
					return eng.EvSink
				}
				return eng.EvNone
			}})
			c.Examined += r.States
			if len(r.Hits) > 0 {
				o := c.Violate(rMax, "TakeExpiredTraces/bound", x.Pos(r.Hits[0].Instr), "with a positive limit and len(result) >= limit a further trace can still be released: more than MaxExpiredTraces are decided in one tick")
				o.Path = eng.DescribePath(x.P.Pos, r.Hits[0].Path)
			} else {
				c.Hold(rMax, "TakeExpiredTraces/bound", x.PosOf(te.Pos()), "max > 0 ∧ len(result) >= max ⇒ nothing further released")
			}
		}
		for _, s := range eng.CallSites(x.PkgFuncs("collect"), func(n string, _ ssa.CallInstruction) bool { return n == nTakeExpired }) {
			args := eng.CallArgs(s.Instr.(ssa.CallInstruction))
			ok := false
			if len(args) >= 2 {
				_, ok = eng.Derives(args[1], func(v ssa.Value) bool {
					fr, _, isF := eng.FieldRefOf(v)
					if isF && eng.FieldIs("config", "TracesConfig", "MaxExpiredTraces")(fr) {
						return true
					}
					return loadsField(v, eng.FieldIs("config", "TracesConfig", "MaxExpiredTraces"))
				}, eng.FlowOpts{})
			}
			c.Decide(ok, rMax, BaseName(s.Fn)+"/limit-argument", x.Pos(s.Instr), "limit argument is Traces.MaxExpiredTraces", "the per-tick limit passed to the buffer is not the configured MaxExpiredTraces")
		}
		c.Min(rMax, 2)

		// ---- clause 1b: deadlines are compared with the time of the tick, not a time taken before waiting ----
		const rFresh = "C03.fresh-now"
		isBlocking := func(in ssa.Instruction) bool {
			switch y := in.(type) {
			case *ssa.Select:
				return y.Blocking
			case *ssa.UnOp:
				return y.Op == token.ARROW
			}
			return false
		}
		var checkNow func(fn *ssa.Function, use ssa.Instruction, v ssa.Value, key string, depth int)
		checkNow = func(fn *ssa.Function, use ssa.Instruction, v ssa.Value, key string, depth int) {
			for _, lf := range leaves(v, nil) {
				switch y := lf.(type) {
				case *ssa.Call:
					n := eng.CalleeName(y)
					if !strings.HasSuffix(n, ".Now") {
						c.Undecided(rFresh, key, x.Pos(use), "the time compared with the deadlines comes from "+n+", which the rule does not know")
						continue
					}
					c.Examined++
					r := eng.Explore(eng.Query{Fn: fn, Start: y, Classify: func(in ssa.Instruction, _ eng.Facts) eng.Event {
						if in == ssa.Instruction(y) {
							return eng.EvKill // taken afresh
						}
						if in == use || isBlocking(in) {
							return eng.EvSink
						}
						return eng.EvNone
					}})
					stale := false
					for _, h := range r.Hits {
						if h.Instr == use && h.Before > 0 {
							stale = true
						}
					}
					c.Decide(!stale, rFresh, key, x.Pos(use), "the clock is read after the wait that the tick ends",
						"the time against which deadlines are compared is read at "+x.Pos(y)+", before the goroutine blocks waiting for the tick: a trace whose deadline falls inside the wait is not seen as expired at that tick and is decided one tick late")
				case *ssa.Parameter:
					if depth > 3 {
						c.Undecided(rFresh, key, x.Pos(use), "time parameter passed through more than three calls")
						continue
					}
					idx := -1
					for i, q := range fn.Params {
						if q == y {
							idx = i
						}
					}
					for _, e := range x.Callers(fn) {
						if e.Site == nil || idx < 0 {
							continue
						}
						cc := e.Site.Common()
						args := cc.Args
						if cc.IsInvoke() {
							args = append([]ssa.Value{cc.Value}, args...)
						}
						if idx < len(args) {
							checkNow(e.Caller.Func, e.Site, args[idx], key+"←"+BaseName(e.Caller.Func), depth+1)
						}
					}
				default:
					c.Undecided(rFresh, key, x.Pos(use), "the time compared with the deadlines has a source the rule does not know: "+lf.String())
				}
			}
		}
		for _, s := range eng.CallSites(x.PkgFuncs("collect"), func(n string, _ ssa.CallInstruction) bool { return n == nTakeExpired }) {
			if args := eng.CallArgs(s.Instr.(ssa.CallInstruction)); len(args) >= 1 {
				checkNow(s.Fn, s.Instr, args[0], BaseName(s.Fn)+"/TakeExpiredTraces", 0)
			}
		}
		c.Min(rFresh, 1)
	}
	c.Min(rExp, 2)

	// ---- clause 3: deadline only moves earlier ------------------------------------
	const rLow = "C03.deadline-only-lowered"
	sendBy := eng.FieldIs("types", "Trace", "SendBy")
	if ps := x.Fn(rLow, "collect", "CollectorWorker", "processSpan"); ps != nil {
		for _, w := range eng.FieldWrites([]*ssa.Function{ps}, sendBy) {
			st := w.Instr.(*ssa.Store)
			_, base, _ := eng.FieldRefOf(st.Addr)
			c.Examined++
			if _, fresh := base.(*ssa.Alloc); fresh {
				// initial deadline of a new trace: now + TraceTimeout
				okAdd := false
				if add, ok := st.Val.(*ssa.Call); ok && eng.CalleeName(add) == "(time.Time).Add" {
					_, fromNow := eng.Derives(add.Call.Args[0], func(v ssa.Value) bool {
						return isCallValue(v, "(github.com/jonboulle/clockwork.Clock).Now")
					}, eng.FlowOpts{})
					_, fromCfg := eng.Derives(add.Call.Args[1], func(v ssa.Value) bool { return isCallValue(v, "(config.TracesConfig).GetTraceTimeout") }, eng.FlowOpts{})
					okAdd = fromNow && fromCfg
					// default when zero
					def := false
					if phi, ok := add.Call.Args[1].(*ssa.Phi); ok {
						for _, e := range phi.Edges {
							if k, ok := eng.ConstInt(e); ok && k == 60_000_000_000 {
								def = true
							}
						}
					}
					c.Decide(def, "C03.deadline-source", "processSpan/trace-timeout-default", x.Pos(st), "TraceTimeout 0 ⇒ 60s", "the 60s default for an unset TraceTimeout is missing")
				}
				c.Decide(okAdd, "C03.deadline-source", "processSpan/new-trace", x.Pos(st), "new trace: SendBy = now + TraceTimeout", "a new trace's deadline is not now + TraceTimeout")
				continue
			}
			// existing trace: the store must be guarded by current.After(new) (new < current)
			guarded := false
			var guard *ssa.Call
			eng.Instrs(ps, func(in ssa.Instruction) {
				v, ok := in.(ssa.Value)
				if !ok {
					return
				}
				tc, ok := eng.NormTimeCmp(v)
				if !ok {
					return
				}
				xCur := loadsField(tc.X, sendBy)
				yCur := loadsField(tc.Y, sendBy)
				var rel eng.RelSet // relation new REL current when the call is true
				switch {
				case xCur && tc.Y == st.Val:
					rel = tc.Rel.Flip()
				case yCur && tc.X == st.Val:
					rel = tc.Rel
				default:
					return
				}
				// store reachable only when new < current
				reach := func(val eng.Tri) bool {
					as := &eng.Assume{Bool: func(w ssa.Value) eng.Tri {
						if w == v {
							return val
						}
						return eng.Unknown
					}}
					r := eng.Explore(eng.Query{Fn: ps, Assume: as, Start: in, Classify: func(i2 ssa.Instruction, _ eng.Facts) eng.Event {
						if i2 == ssa.Instruction(st) {
							return eng.EvSink
						}
						return eng.EvNone
					}})
					return len(r.Hits) > 0
				}
				t, f := reach(eng.True), reach(eng.False)
				var cond eng.RelSet
				switch {
				case t && !f:
					cond = rel
				case f && !t:
					cond = (eng.LT | eng.EQ | eng.GT) &^ rel
				default:
					return
				}
				if cond == eng.LT && eng.Dominates(in, st) {
					guarded = true
					guard = v.(*ssa.Call)
				}
			})
			_ = guard
			c.Decide(guarded, rLow, "processSpan/SendBy-store", x.Pos(st), "SendBy is overwritten only when the new deadline is earlier",
				"an existing trace's SendBy is overwritten without the guard `new < current`: a late root or span-limit hit can push the deadline later (decision after TraceTimeout)")
			// re-key: cache.Set(trace) on every path from the store to the exit
			r := eng.Explore(eng.Query{Fn: ps, Start: st, Classify: func(in ssa.Instruction, _ eng.Facts) eng.Event {
				if cl, ok := eng.IsCall(in, nCacheSet); ok {
					if a := eng.CallArgs(cl); len(a) == 1 && (a[0] == base || eng.SameObject(a[0], base)) {
						return eng.EvSink
					}
				}
				return eng.EvNone
			}})
			bad := false
			for _, e := range r.Exits {
				if _, ok := e.Instr.(*ssa.Return); ok && e.Sinks == 0 {
					bad = true
				}
			}
			c.Decide(!bad, "C03.requeue-after-lowering", "processSpan/cache.Set", x.Pos(st), "the buffer's priority queue is re-keyed after lowering SendBy",
				"SendBy is lowered but the trace is not re-inserted (cache.Set): the priority queue still holds the old deadline, so the trace is decided at TraceTimeout instead of SendDelay")
			// the lowered deadline is now + (SendDelay | 2s default | 0 for the span limit)
			okSrc := false
			if add, ok := st.Val.(*ssa.Call); ok && eng.CalleeName(add) == "(time.Time).Add" {
				_, fromNow := eng.Derives(add.Call.Args[0], func(v ssa.Value) bool {
					return isCallValue(v, "(github.com/jonboulle/clockwork.Clock).Now")
				}, eng.FlowOpts{})
				_, fromCfg := eng.Derives(add.Call.Args[1], func(v ssa.Value) bool { return isCallValue(v, "(config.TracesConfig).GetSendDelay") }, eng.FlowOpts{})
				okSrc = fromNow && fromCfg
			}
			c.Decide(okSrc, "C03.deadline-source", "processSpan/lowered", x.Pos(st), "lowered deadline = now + SendDelay (or 0 on span limit)", "the lowered deadline is not now + SendDelay")
		}
		// writers of SendBy elsewhere in collect
		for _, w := range eng.FieldWrites(x.PkgFuncs("collect", "collect/cache"), sendBy) {
			fn := eng.Root(w.Fn).Name()
			_, base, _ := eng.FieldRefOf(w.Instr.(*ssa.Store).Addr)
			_, fresh := base.(*ssa.Alloc)
			c.Decide(fn == "processSpan" || fresh, "C03.deadline-writers", fn+"/SendBy", x.Pos(w.Instr), "deadline written in processSpan / at construction", "Trace.SendBy is modified in "+fn+", outside the guarded update in processSpan")
		}
	}
	// ---- every span added to a live trace is followed by the span-limit test ----------------------------------
	const rLim = "C03.span-limit-checked"
	if ps := x.P.Func("collect", "CollectorWorker", "processSpan"); ps != nil && ps.Blocks != nil {
		var add ssa.Instruction
		eng.Instrs(ps, func(in ssa.Instruction) {
			if _, ok := eng.IsCall(in, "(*types.Trace).AddSpan"); ok {
				add = in
			}
		})
		isLimitCmp := func(in ssa.Instruction) bool {
			b, ok := in.(*ssa.BinOp)
			if !ok {
				return false
			}
			for _, side := range []ssa.Value{b.X, b.Y} {
				if _, d := eng.Derives(side, func(v ssa.Value) bool {
					fr, _, ok := eng.FieldRefOf(v)
					if ok && fr.Name == "SpanLimit" {
						return true
					}
					return loadsField(v, func(fr eng.FieldRef) bool { return fr.Name == "SpanLimit" })
				}, eng.FlowOpts{}); d {
					if _, isK := eng.ConstInt(b.X); isK {
						continue
					}
					if _, isK := eng.ConstInt(b.Y); isK {
						continue // SpanLimit > 0 is the enabling test, not the comparison with the count
					}
					return true
				}
			}
			return false
		}
		if add == nil {
			c.Undecided(rLim, "processSpan", x.PosOf(ps.Pos()), "cannot find where the span is added to the trace")
		} else {
			c.Examined++
			zero := int64(0)
			as := &eng.Assume{Bool: func(v ssa.Value) eng.Tri {
				// a span limit is configured
				return eng.EvalRel(v, []eng.RelFact{{A: func(u ssa.Value) bool {
					return loadsField(u, func(fr eng.FieldRef) bool { return fr.Name == "SpanLimit" })
				}, BConst: &zero, Rel: eng.GT}})
			}}
			r := eng.Explore(eng.Query{Fn: ps, Assume: as, Start: add, Classify: func(in ssa.Instruction, _ eng.Facts) eng.Event {
				if isLimitCmp(in) {
					return eng.EvKill
				}
				return eng.EvNone
			}})
			skipped := false
			var path []*ssa.BasicBlock
			for _, e := range r.Exits {
				if _, isRet := e.Instr.(*ssa.Return); isRet {
					skipped, path = true, e.Path
				}
			}
			if skipped {
				o := c.Violate(rLim, "processSpan", x.Pos(add), "after a span has been added to a buffered trace a path returns without comparing the trace's span count with SpanLimit (a fast path for some kind of span): a trace that grows past the limit on that path is not decided at the next tick but only at its old deadline")
				o.Path = eng.DescribePath(x.P.Pos, path)
			} else {
				c.Hold(rLim, "processSpan", x.Pos(add), "AddSpan ⇒ the span count is compared with SpanLimit on every path")
			}
		}
	}
	c.Min(rLow, 1)
	c.Min("C03.requeue-after-lowering", 1)
	c.Min("C03.deadline-source", 3)

	// ---- clause 4: send reason follows the path condition -----------------------------
	const rReason = "C03.reason-guards"
	if se := x.Fn(rReason, "collect", "CollectorWorker", "sendExpiredTracesInCache"); se != nil {
		rootF := eng.FieldIs("types", "Trace", "RootSpan")
		isCount := func(v ssa.Value) bool { return isCallValue(v, "(*types.Trace).DescendantCount") }
		isLimit := func(v ssa.Value) bool {
			_, ok := eng.Derives(v, func(w ssa.Value) bool {
				if fr, _, ok := eng.FieldRefOf(w); ok && eng.FieldIs("config", "TracesConfig", "SpanLimit")(fr) {
					return true
				}
				return false
			}, eng.FlowOpts{})
			_, isConst := v.(*ssa.Const)
			return ok && !isConst
		}
		zero := int64(0)
		type scen struct {
			name     string
			rootNil  eng.Tri
			rel      []eng.RelFact
			expected string
		}
		scens := []scen{
			{"root-present", eng.False, nil, "trace_send_got_root"},
			{"no-root/limit-exceeded", eng.True, []eng.RelFact{{A: isLimit, BConst: &zero, Rel: eng.GT}, {A: isCount, B: isLimit, Rel: eng.GT}}, "trace_send_span_limit"},
			{"no-root/at-limit", eng.True, []eng.RelFact{{A: isLimit, BConst: &zero, Rel: eng.GT}, {A: isCount, B: isLimit, Rel: eng.LT | eng.EQ}}, "trace_send_expired"},
			{"no-root/no-limit", eng.True, []eng.RelFact{{A: isLimit, BConst: &zero, Rel: eng.EQ}}, "trace_send_expired"},
		}
		mds := callsIn(se, nMakeDecision)
		for _, sc := range scens {
			as := &eng.Assume{
				Nil: func(v ssa.Value) eng.Tri {
					if loadsField(v, rootF) {
						return sc.rootNil
					}
					return eng.Unknown
				},
				Bool: func(v ssa.Value) eng.Tri { return eng.EvalRel(v, sc.rel) },
			}
			reasons := map[string]bool{}
			var pos ssa.Instruction
			// the reason is read per explored state, with the φ-edges chosen on that path (the reason may be
			// selected first and handed to a single makeDecision call)
			r := eng.Explore(eng.Query{Fn: se, Assume: as, TrackPhi: func(*ssa.Phi) bool { return true }, Classify: func(in ssa.Instruction, F eng.Facts) eng.Event {
				if cl, ok := eng.IsCall(in, nMakeDecision); ok {
					a := eng.CallArgs(cl)
					s, ok := eng.ConstString(F.Resolve(a[len(a)-1]))
					if !ok {
						s = "<non-constant>"
					}
					reasons[s] = true
					pos = in
					return eng.EvSink
				}
				return eng.EvNone
			}})
			c.Examined += r.States
			ok := len(reasons) == 1 && reasons[sc.expected]
			got := ""
			for k := range reasons {
				got += k + " "
			}
			if pos == nil && len(mds) > 0 {
				pos = mds[0]
			}
			p := x.PosOf(se.Pos())
			if pos != nil {
				p = x.Pos(pos)
			}
			c.Decide(ok, rReason, "sendExpiredTracesInCache/"+sc.name, p, "reason "+sc.expected, "under the condition '"+sc.name+"' the send reason is "+got+"instead of "+sc.expected+": the trace is decided with the wrong documented reason")
		}
	}
	c.Min(rReason, 4)
	_ = token.ADD
}
