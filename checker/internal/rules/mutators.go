package rules

import (
	"go/ast"
	"go/types"

	"golang.org/x/tools/go/ssa"

	"refcheck/internal/eng"
)

// addrRoot follows FieldAddr / IndexAddr / load chains to the value an address is derived from.
func addrRoot(v ssa.Value) ssa.Value {
	for i := 0; i < 12; i++ {
		switch y := v.(type) {
		case *ssa.FieldAddr:
			v = y.X
		case *ssa.IndexAddr:
			v = y.X
		case *ssa.Field:
			v = y.X
		case *ssa.UnOp:
			// load of a pointer-typed field: *(&x.F) – continue into x when F is a pointer (same object graph)
			if fa, ok := y.X.(*ssa.FieldAddr); ok {
				v = fa.X
				continue
			}
			return v
		default:
			return v
		}
	}
	return v
}

// isMutator reports whether method f stores through its receiver (directly or,
// one level down, by calling a mutator on a field of the receiver).
func (x *Ctx) isMutator(f *ssa.Function, depth int) bool {
	if f == nil || f.Blocks == nil || f.Signature.Recv() == nil || len(f.Params) == 0 {
		return false
	}
	recv := f.Params[0]
	found := false
	eng.Instrs(f, func(in ssa.Instruction) {
		if found {
			return
		}
		switch y := in.(type) {
		case *ssa.Store:
			if addrRoot(y.Addr) == ssa.Value(recv) {
				found = true
			}
		case *ssa.MapUpdate:
			if addrRoot(y.Map) == ssa.Value(recv) {
				found = true
			}
		case *ssa.Call:
			if depth > 0 {
				if cal := y.Call.StaticCallee(); cal != nil && cal.Signature.Recv() != nil && len(y.Call.Args) > 0 {
					if addrRoot(y.Call.Args[0]) == ssa.Value(recv) && x.isMutator(cal, depth-1) {
						found = true
					}
				}
			}
		}
	})
	return found
}

// writesThrough reports whether instruction in writes to memory reachable from
// object obj (a pointer): a Store/MapUpdate whose address derives from obj, or
// a call of a mutator method on a field of obj.
func (x *Ctx) writesThrough(in ssa.Instruction, isObj func(ssa.Value) bool) bool {
	switch y := in.(type) {
	case *ssa.Store:
		return isObj(addrRoot(y.Addr))
	case *ssa.MapUpdate:
		return isObj(addrRoot(y.Map))
	case *ssa.Call:
		if cal := y.Call.StaticCallee(); cal != nil && cal.Signature.Recv() != nil && len(y.Call.Args) > 0 {
			if isObj(addrRoot(y.Call.Args[0])) && x.isMutator(cal, 1) {
				return true
			}
		}
	}
	return false
}

// addrRootDeep is addrRoot that also reports whether the chain from the root to
// the address passes through a reference (a pointer, slice or map loaded from a
// field): memory behind such a reference is shared by a shallow copy of the root.
func addrRootDeep(v ssa.Value) (root ssa.Value, throughRef bool) {
	for i := 0; i < 12; i++ {
		switch y := v.(type) {
		case *ssa.FieldAddr:
			v = y.X
		case *ssa.IndexAddr:
			if _, isSlice := y.X.Type().Underlying().(*types.Slice); isSlice {
				throughRef = true
			}
			v = y.X
		case *ssa.Field:
			v = y.X
		case *ssa.UnOp:
			if fa, ok := y.X.(*ssa.FieldAddr); ok {
				throughRef = true
				v = fa.X
				continue
			}
			return v, throughRef
		default:
			return v, throughRef
		}
	}
	return v, throughRef
}

// metadataKeys returns the constant keys of types.metadataFields (keys that
// Payload.Set stores in dedicated struct fields rather than in the shared map).
func (x *Ctx) metadataKeys() map[string]bool {
	out := map[string]bool{}
	tp := x.P.ByRel["types"]
	if tp == nil {
		return out
	}
	for _, f := range tp.Syntax {
		for _, d := range f.Decls {
			gd, ok := d.(*ast.GenDecl)
			if !ok {
				continue
			}
			for _, sp := range gd.Specs {
				vs, ok := sp.(*ast.ValueSpec)
				if !ok {
					continue
				}
				for i, n := range vs.Names {
					if n.Name != "metadataFields" || i >= len(vs.Values) {
						continue
					}
					if lit, ok := vs.Values[i].(*ast.CompositeLit); ok {
						for _, e := range lit.Elts {
							if kv, ok := e.(*ast.KeyValueExpr); ok {
								if val, ok := constLabel(tp.TypesInfo, kv.Key); ok {
									out[val] = true
								}
							}
						}
					}
				}
			}
		}
	}
	return out
}

// writesShared reports whether method f, called on (a field of) a struct that
// is a shallow copy of another, can write memory the copy shares with the
// original: a map update on a map field, a store through a pointer or slice
// field, or a call of such a method / of any mutator behind a pointer field.
func (x *Ctx) writesShared(f *ssa.Function, depth int) bool {
	if f == nil || f.Blocks == nil || f.Signature.Recv() == nil || len(f.Params) == 0 {
		return false
	}
	recv := f.Params[0]
	found := false
	eng.Instrs(f, func(in ssa.Instruction) {
		if found {
			return
		}
		switch y := in.(type) {
		case *ssa.Store:
			if r, ref := addrRootDeep(y.Addr); r == ssa.Value(recv) && ref {
				found = true
			}
		case *ssa.MapUpdate:
			if r, _ := addrRootDeep(y.Map); r == ssa.Value(recv) {
				found = true
			}
		case *ssa.Call:
			if b, ok := y.Call.Value.(*ssa.Builtin); ok && (b.Name() == "delete" || b.Name() == "clear") && len(y.Call.Args) > 0 {
				if r, _ := addrRootDeep(y.Call.Args[0]); r == ssa.Value(recv) {
					found = true
				}
			}
			if cal := y.Call.StaticCallee(); cal != nil && cal.Signature.Recv() != nil && len(y.Call.Args) > 0 && depth > 0 {
				r, ref := addrRootDeep(y.Call.Args[0])
				if r != ssa.Value(recv) {
					return
				}
				if ref && x.isMutator(cal, 1) || !ref && x.writesShared(cal, depth-1) {
					found = true
				}
			}
		}
	})
	return found
}
