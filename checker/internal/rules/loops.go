package rules

import (
	"go/token"

	"golang.org/x/tools/go/ssa"

	"refcheck/internal/eng"
)

// loopHeader returns the innermost loop header block enclosing in: a block
// that dominates in's block and is reachable again from it (back edge).
func loopHeader(in ssa.Instruction) *ssa.BasicBlock {
	b := in.Block()
	var best *ssa.BasicBlock
	for _, h := range b.Parent().Blocks {
		if !(h == b || h.Dominates(b)) {
			continue
		}
		// h is a loop header for b if some predecessor of h is reachable from b
		isHeader := false
		for _, p := range h.Preds {
			if eng.BlockReaches(b, p) && (p == h || h.Dominates(p)) {
				isHeader = true
			}
		}
		if !isHeader {
			continue
		}
		if best == nil || best.Dominates(h) {
			best = h
		}
	}
	return best
}

// rangeElem reports whether v is an element of the slice/map/chan produced by a
// value satisfying src (e.g. `for _, t := range traces`): *(&s[i]) with s from src.
func rangeElemOf(v ssa.Value, src func(ssa.Value) bool) bool {
	_, ok := eng.Derives(v, func(w ssa.Value) bool {
		switch y := w.(type) {
		case *ssa.IndexAddr:
			_, ok := eng.Derives(y.X, src, eng.FlowOpts{})
			return ok
		case *ssa.Index:
			_, ok := eng.Derives(y.X, src, eng.FlowOpts{})
			return ok
		}
		return false
	}, eng.FlowOpts{})
	return ok
}

type chanOp struct {
	eng.Site
	Kind string // send, recv, close, len
}

// chanOps enumerates operations on channels loaded from struct fields matching pred.
func chanOps(funcs []*ssa.Function, pred func(eng.FieldRef) bool) []chanOp {
	var out []chanOp
	fromField := func(v ssa.Value) bool {
		return loadsField(v, pred)
	}
	for _, f := range funcs {
		eng.Instrs(f, func(in ssa.Instruction) {
			switch y := in.(type) {
			case *ssa.Send:
				if fromField(y.Chan) {
					out = append(out, chanOp{eng.Site{Fn: f, Instr: in}, "send"})
				}
			case *ssa.UnOp:
				if y.Op == token.ARROW && fromField(y.X) {
					out = append(out, chanOp{eng.Site{Fn: f, Instr: in}, "recv"})
				}
			case *ssa.Select:
				for _, st := range y.States {
					if fromField(st.Chan) {
						k := "recv"
						if st.Dir == 1 { // types.SendOnly
							k = "send"
						}
						out = append(out, chanOp{eng.Site{Fn: f, Instr: in}, k})
					}
				}
			case *ssa.Call:
				if b, ok := y.Call.Value.(*ssa.Builtin); ok && len(y.Call.Args) > 0 && fromField(y.Call.Args[0]) {
					switch b.Name() {
					case "close":
						out = append(out, chanOp{eng.Site{Fn: f, Instr: in}, "close"})
					}
				}
			}
		})
	}
	return out
}
