package rules

import (
	"strings"

	"golang.org/x/tools/go/ssa"

	"refcheck/internal/eng"
)

func init() { Register("C01", c01) }

func c01(x *Ctx) {
	c := x.C
	c.Explanation = "C01 (one decision per trace): decides statically that (1) every span of a trace is routed to the same worker by a pure function of the trace ID and the worker count, (2) makeDecision records the sampler's decision in the decision cache on every successful path before the trace leaves the worker, (3) processSpan / ProcessSpanImmediately consult the decision record before buffering a span of an unknown trace and obey it, (4) the per-worker trace buffer and sampler map are touched only from the worker's own collect loop."
	c.NotCovered = "retention limits of the LRU / cuckoo filter (library internals), membership change and stress-relief toggling (excluded by the property itself)."

	workers := eng.FieldIs("collect", "InMemCollector", "workers")
	funcs := x.PkgFuncs("collect")

	// ---- clause 1: same worker for every span of a trace -------------------
	const rRoute = "C01.route-by-trace-id"
	routeFn := x.Fn(rRoute, "collect", "InMemCollector", "getWorkerIDForTrace")
	for _, a := range eng.FieldAccesses(funcs, workers) {
		c.Examined++
		load, ok := a.Instr.(*ssa.UnOp)
		if !ok || a.Write {
			continue
		}
		refs := load.Referrers()
		if refs == nil {
			continue
		}
		for _, r := range *refs {
			ia, ok := r.(*ssa.IndexAddr)
			if !ok || ia.X != load {
				continue
			}
			key := BaseName(a.Fn) + "/index"
			switch {
			case isRangeIndex(ia.Index):
				c.Hold(rRoute, key, x.Pos(ia), "index is the induction variable of a range over all workers")
			case routeFn != nil && func() bool {
				_, ok := eng.Derives(ia.Index, func(v ssa.Value) bool { return isCallValue(v, eng.SSAFuncName(routeFn)) }, eng.FlowOpts{})
				return ok
			}():
				c.Hold(rRoute, key, x.Pos(ia), "worker index derives from getWorkerIDForTrace")
			default:
				c.Violate(rRoute, key, x.Pos(ia), "a worker is selected by an index that does not come from getWorkerIDForTrace: spans of one trace may reach different workers, each making its own decision")
			}
		}
	}
	c.Min(rRoute, 3)

	const rPure = "C01.pure-routing"
	if routeFn != nil {
		if p := x.nondetPath(routeFn); p != nil {
			c.Violate(rPure, "getWorkerIDForTrace/nondeterminism", x.PosOf(routeFn.Pos()), "worker routing reaches a nondeterminism source: "+strings.Join(p, " → "))
		} else {
			c.Hold(rPure, "getWorkerIDForTrace/nondeterminism", x.PosOf(routeFn.Pos()), "no call path to rand/time/host sources")
		}
		// the returned index may depend only on the trace ID, constants and len(workers)
		tid := param(routeFn, "traceID")
		if len(routeFn.Params) == 2 {
			tid = routeFn.Params[1]
		}
		eng.Instrs(routeFn, func(in ssa.Instruction) {
			ret, ok := in.(*ssa.Return)
			if !ok || len(ret.Results) != 1 {
				return
			}
			bad := ""
			for _, l := range leaves(ret.Results[0], func(*ssa.Call) bool { return true }) {
				c.Examined++
				switch y := l.(type) {
				case *ssa.Const, *ssa.Builtin, *ssa.Function:
				case *ssa.Parameter:
					if y != tid {
						bad = "parameter " + y.Name()
					}
				case *ssa.UnOp:
					if !loadsField(y, workers) {
						bad = "load " + y.String()
					}
				default:
					bad = l.String()
				}
			}
			if bad != "" {
				c.Violate(rPure, "getWorkerIDForTrace/inputs", x.Pos(ret), "the worker index depends on "+bad+", not only on the trace ID and the number of workers")
			} else {
				c.Hold(rPure, "getWorkerIDForTrace/inputs", x.Pos(ret), "index computed from the trace ID, constants and len(workers) only")
			}
		})
	}
	c.Min(rPure, 2)

	const rWorkersW = "C01.workers-fixed-after-start"
	startFn := x.Fn(rWorkersW, "collect", "InMemCollector", "Start")
	for _, a := range eng.FieldAccesses(funcs, workers) {
		if !a.Write {
			// element stores through &workers[i]
			load, ok := a.Instr.(*ssa.UnOp)
			if !ok {
				continue
			}
			stored := false
			if refs := load.Referrers(); refs != nil {
				for _, r := range *refs {
					if ia, ok := r.(*ssa.IndexAddr); ok {
						if rr := ia.Referrers(); rr != nil {
							for _, u := range *rr {
								if st, ok := u.(*ssa.Store); ok && st.Addr == ia {
									stored = true
								}
							}
						}
					}
				}
			}
			if !stored {
				continue
			}
		}
		c.Decide(a.Fn == startFn, rWorkersW, BaseName(a.Fn)+"/write", x.Pos(a.Instr),
			"worker slice written in Start only", "the worker slice is modified outside Start: the trace→worker mapping changes while spans are in flight")
	}
	c.Min(rWorkersW, 1)

	// ---- clause 2: decision recorded before the trace leaves the worker ------
	const rRec = "C01.record-before-return"
	if md := x.Fn(rRec, "collect", "CollectorWorker", "makeDecision"); md != nil {
		tr := param(md, "trace")
		var recordSites, okSites int
		isRecord := func(in ssa.Instruction, _ eng.Facts) eng.Event {
			cl, ok := eng.IsCall(in, nRecord)
			if !ok {
				return eng.EvNone
			}
			args := eng.CallArgs(cl)
			recordSites++
			if len(args) >= 2 && tr != nil && derivesFrom(args[0], tr) && isExtractOf(args[1], 1, nSamplerRate) {
				okSites++
				return eng.EvSink
			}
			return eng.EvNone
		}
		res := eng.Explore(eng.Query{Fn: md, Classify: isRecord})
		n := 0
		for _, e := range res.Exits {
			ret, ok := e.Instr.(*ssa.Return)
			if !ok {
				continue
			}
			c.Examined++
			errNil := eng.Unknown
			if k := len(ret.Results) - 1; k >= 0 {
				errNil = e.Facts.Nil(ret.Results[k])
			}
			if errNil == eng.False {
				continue // error return: the caller keeps the trace (C02 clause 4)
			}
			n++
			if e.Sinks == 0 {
				o := c.Violate(rRec, "makeDecision/return", x.Pos(ret), "a path returns a decision (nil error) without recording it in the decision cache with the sampler's keep value: late spans of this trace get a fresh, possibly different decision")
				o.Path = eng.DescribePath(x.P.Pos, e.Path)
			} else {
				c.Hold(rRec, "makeDecision/return", x.Pos(ret), "Record(trace, keep from GetSampleRate) on the path")
			}
		}
		if res.Overflow {
			c.Undecided(rRec, "makeDecision/state-space", x.PosOf(md.Pos()), "path exploration overflowed")
		}
		// KeepSample is stored from the same value that is recorded
		for _, st := range eng.FieldWrites([]*ssa.Function{md}, eng.FieldIs("types", "Trace", "KeepSample")) {
			s := st.Instr.(*ssa.Store)
			c.Decide(isExtractOf(s.Val, 1, nSamplerRate), "C01.keep-from-sampler", "makeDecision/KeepSample", x.Pos(s),
				"trace.KeepSample is the sampler's keep result", "trace.KeepSample is not the keep value returned by the sampler (the applied decision differs from the recorded one)")
		}
		c.Min("C01.keep-from-sampler", 1)
	}
	c.Min(rRec, 1)

	// ---- clause 3: late spans obey the record --------------------------------
	const rLook = "C01.lookup-before-buffer"
	if ps := x.Fn(rLook, "collect", "CollectorWorker", "processSpan"); ps != nil {
		gets := callsIn(ps, nCacheGet)
		if len(gets) == 0 {
			c.Unresolved(rLook, "processSpan/cache.Get", "no call to the trace buffer's Get found")
		}
		isGet := func(v ssa.Value) bool { return isCallValue(v, nCacheGet) }
		as := &eng.Assume{Nil: func(v ssa.Value) eng.Tri {
			if isGet(v) {
				return eng.True
			}
			return eng.Unknown
		}}
		// on paths where the buffer has no entry, CheckSpan precedes cache.Set
		res := eng.Explore(eng.Query{Fn: ps, Assume: as, Classify: func(in ssa.Instruction, _ eng.Facts) eng.Event {
			if _, ok := eng.IsCall(in, nCheckSpan); ok {
				return eng.EvKill
			}
			if _, ok := eng.IsCall(in, nCacheSet); ok {
				return eng.EvSink
			}
			if cl, ok := eng.IsCall(in, "(*types.Trace).AddSpan"); ok && cl != nil {
				return eng.EvSink
			}
			return eng.EvNone
		}})
		c.Examined += res.States
		if len(res.Hits) == 0 {
			c.Hold(rLook, "processSpan/unknown-trace", x.PosOf(ps.Pos()), "with no buffer entry, every path consults the decision record (CheckSpan) before creating an entry or adding the span")
		}
		for _, h := range res.Hits {
			o := c.Violate(rLook, "processSpan/unknown-trace", x.Pos(h.Instr), "a span of a trace that is not in the buffer is buffered without first consulting the decision record: a late span of a decided trace starts a second decision")
			o.Path = eng.DescribePath(x.P.Pos, h.Path)
		}
		// after a CheckSpan that found a record: the span goes to dealWithSentTrace and is never buffered
		for _, cs := range callsIn(ps, nCheckSpan) {
			found := extractOf(cs, 2)
			as := &eng.Assume{Bool: func(v ssa.Value) eng.Tri {
				for _, f := range found {
					if v == f {
						return eng.True
					}
				}
				return eng.Unknown
			}}
			bad := ""
			var badIn ssa.Instruction
			r2 := eng.Explore(eng.Query{Fn: ps, Assume: as, Start: cs, Classify: func(in ssa.Instruction, _ eng.Facts) eng.Event {
				if _, ok := eng.IsCall(in, nCacheSet, "(*types.Trace).AddSpan"); ok {
					return eng.EvSink
				}
				return eng.EvNone
			}})
			for _, h := range r2.Hits {
				bad, badIn = "buffers the span although a decision record was found", h.Instr
			}
			r3 := eng.Explore(eng.Query{Fn: ps, Assume: as, Start: cs, Classify: func(in ssa.Instruction, _ eng.Facts) eng.Event {
				if _, ok := eng.IsCall(in, nDealWithSent); ok {
					return eng.EvSink
				}
				return eng.EvNone
			}})
			for _, e := range r3.Exits {
				if _, ok := e.Instr.(*ssa.Return); ok && e.Sinks == 0 {
					bad, badIn = "returns without applying the recorded decision (dealWithSentTrace)", e.Instr
				}
			}
			c.Examined += r2.States + r3.States
			if bad != "" {
				c.Violate("C01.record-obeyed", "processSpan/found", x.Pos(badIn), "after CheckSpan found a record a path "+bad)
			} else {
				c.Hold("C01.record-obeyed", "processSpan/found", x.Pos(cs), "found ⇒ dealWithSentTrace, never buffered")
			}
		}
		c.Min("C01.record-obeyed", 2)
		// trace.Sent branch: a sent trace never gets the span added
		sent := eng.FieldIs("types", "Trace", "Sent")
		asSent := &eng.Assume{Bool: func(v ssa.Value) eng.Tri {
			if loadsField(v, sent) {
				return eng.True
			}
			return eng.Unknown
		}}
		r4 := eng.Explore(eng.Query{Fn: ps, Assume: asSent, Classify: func(in ssa.Instruction, _ eng.Facts) eng.Event {
			if _, ok := eng.IsCall(in, "(*types.Trace).AddSpan"); ok {
				return eng.EvSink
			}
			return eng.EvNone
		}})
		c.Examined += r4.States
		if len(r4.Hits) > 0 {
			c.Violate("C01.sent-trace-closed", "processSpan/trace.Sent", x.Pos(r4.Hits[0].Instr), "a span is added to a trace whose decision was already applied (trace.Sent)")
		} else {
			c.Hold("C01.sent-trace-closed", "processSpan/trace.Sent", x.PosOf(ps.Pos()), "trace.Sent ⇒ no AddSpan")
		}
	}
	c.Min(rLook, 1)

	const rImm = "C01.stress-path-recorded"
	if pi := x.Fn(rImm, "collect", "InMemCollector", "ProcessSpanImmediately"); pi != nil {
		css := callsIn(pi, nCheckSpan)
		if len(css) != 1 {
			c.Undecided(rImm, "ProcessSpanImmediately/CheckSpan", x.PosOf(pi.Pos()), sprintf("expected exactly one decision-record lookup, found %d", len(css)))
		} else {
			found := extractOf(css[0], 2)
			mk := func(val eng.Tri) *eng.Assume {
				return &eng.Assume{Bool: func(v ssa.Value) eng.Tri {
					for _, f := range found {
						if v == f {
							return val
						}
					}
					return eng.Unknown
				}}
			}
			// not found: Record precedes any enqueue
			r := eng.Explore(eng.Query{Fn: pi, Assume: mk(eng.False), Start: css[0], Classify: func(in ssa.Instruction, _ eng.Facts) eng.Event {
				if _, ok := eng.IsCall(in, nRecord); ok {
					return eng.EvKill
				}
				if _, ok := eng.IsCall(in, nEnqueueSpan, nEnqueueEvent); ok {
					return eng.EvSink
				}
				return eng.EvNone
			}})
			c.Examined += r.States
			if len(r.Hits) > 0 {
				c.Violate(rImm, "ProcessSpanImmediately/not-found", x.Pos(r.Hits[0].Instr), "a span of a new trace is forwarded under stress without recording the decision: later spans may be decided differently")
			} else {
				c.Hold(rImm, "ProcessSpanImmediately/not-found", x.Pos(css[0]), "new trace ⇒ Record before EnqueueSpan")
			}
			// found: the keep value tested before the enqueue is the record's
			enq := callsIn(pi, nEnqueueSpan, nEnqueueEvent)
			for _, e := range enq {
				// find controlling conditions: phi with edges from Kept() and GetSampleRate
				okKept, okNew := false, false
				eng.Instrs(pi, func(in ssa.Instruction) {
					iff, ok := in.(*ssa.If)
					if !ok || !iff.Block().Dominates(e.Block()) {
						return
					}
					if _, ok := eng.Derives(iff.Cond, func(v ssa.Value) bool { return isCallValue(v, "(collect/cache.TraceSentRecord).Kept") }, eng.FlowOpts{}); ok {
						okKept = true
					}
					if _, ok := eng.Derives(iff.Cond, func(v ssa.Value) bool { return isExtractOf(v, 1, "(collect.StressReliever).GetSampleRate") }, eng.FlowOpts{}); ok {
						okNew = true
					}
				})
				c.Decide(okKept && okNew, rImm, "ProcessSpanImmediately/keep-source", x.Pos(e),
					"the forwarding test uses record.Kept() for known traces and the stress sampler's keep for new ones",
					"the test guarding the enqueue does not use the recorded decision (record.Kept()) for known traces")
			}
		}
	}
	c.Min(rImm, 2)
	// the stress path looks the span's trace up in the decision record before it lets the stress sampler decide:
	// a trace decided before stress relief switched on must keep its decision
	if psi := x.P.Func("collect", "InMemCollector", "ProcessSpanImmediately"); psi != nil && psi.Blocks != nil {
		c.Examined++
		r := eng.Explore(eng.Query{Fn: psi, Classify: func(in ssa.Instruction, _ eng.Facts) eng.Event {
			if _, ok := eng.IsCall(in, nCheckSpan); ok {
				return eng.EvKill
			}
			if cl, ok := in.(ssa.CallInstruction); ok && strings.HasSuffix(eng.CalleeName(cl), "StressReliever).GetSampleRate") {
				return eng.EvSink
			}
			return eng.EvNone
		}})
		c.Decide(len(r.Hits) == 0, rImm, "ProcessSpanImmediately/lookup-first", x.PosOf(psi.Pos()), "the decision record is consulted before the stress sampler",
			"on the stress path the stress sampler decides before (or without) the look-up in the decision record: a span of a trace that was kept before stress relief switched on is dropped, and the drop that is recorded shadows the kept decision for later spans")
	}

	// ---- clause 4: the buffer is worker-confined -------------------------------
	x.workerConfined("C01.buffer-confined", funcs)
	c.Min("C01.buffer-confined", 4)
}

// workerConfined decides that the lock-free per-worker state (trace buffer, sampler
// cache, span counter) is reachable only from the worker's own collect loop (shared by C01 and C35).
func (x *Ctx) workerConfined(rConf string, funcs []*ssa.Function) {
	c := x.C
	collectFn := x.Fn(rConf, "collect", "CollectorWorker", "collect")
	ctor := x.P.Func("collect", "", "NewCollectorWorker")
	confined := eng.FieldIs("collect", "CollectorWorker", "cache", "datasetSamplers", "localSpanProcessed")
	seenFn := map[*ssa.Function]bool{}
	if collectFn != nil {
		for _, a := range eng.FieldAccesses(funcs, confined) {
			c.Examined++
			if seenFn[a.Fn] {
				continue
			}
			seenFn[a.Fn] = true
			if a.Fn == ctor || a.Fn == collectFn {
				continue
			}
			roots, viaGo := x.RootsOf(a.Fn, map[*ssa.Function]bool{collectFn: true})
			bad := []string{}
			for _, r := range roots {
				bad = append(bad, FName(r))
			}
			for _, e := range viaGo {
				bad = append(bad, "go in "+FName(e.Caller.Func))
			}
			if len(bad) > 0 {
				c.Violate(rConf, BaseName(a.Fn)+"/"+a.Field.Name, x.Pos(a.Instr), "worker-private state ("+a.Field.Name+") is reachable from outside the worker's collect loop: "+strings.Join(bad, ", ")+" – the buffer has no lock, two goroutines may decide the same trace")
			} else {
				c.Hold(rConf, BaseName(a.Fn)+"/"+a.Field.Name, x.Pos(a.Instr), "reachable only from CollectorWorker.collect")
			}
		}
	}
}
