package rules

import (
	"go/types"
	"go/token"

	"golang.org/x/tools/go/ssa"

	"refcheck/internal/eng"
)

func init() { Register("C07", c07) }

func c07(x *Ctx) {
	c := x.C
	c.Explanation = "C07 (memory-pressure ejection decides traces): decides that (1) every worker is asked to eject on each over-budget check (no iteration of the worker loop in checkAlloc skips the request) with a share derived from (heap − limit)/workers, (2) the ejection loop decides each candidate with the reason trace_send_ejected_memsize, removes only decided traces and hands them to send (shared with C02), (3) candidates are ordered heaviest estimated impact first, (4) the loop stops early only when the bytes of decided traces exceed the worker's share, and only decided traces are counted."
	c.NotCovered = "the impact estimate itself (CacheImpact arithmetic) and real heap behaviour."

	ste := x.Fn("C07.reason-constant", "collect", "CollectorWorker", "sendTracesEarly")
	if ste != nil {
		// reason constant
		want, _ := x.constStr("C07.reason-constant", "collect", "TraceSendEjectedMemsize")
		for _, md := range callsIn(ste, nMakeDecision) {
			a := eng.CallArgs(md)
			s, ok := eng.ConstString(a[len(a)-1])
			c.Decide(ok && s == want, "C07.reason-constant", "sendTracesEarly/makeDecision", x.Pos(md), "reason "+want, "ejected traces are decided with reason "+s+" instead of "+want)
			// candidate comes from the whole buffer
			c.Decide(rangeElemOf(a[1], func(v ssa.Value) bool { return isCallValue(v, nCacheGetAll) }), "C07.candidates-from-buffer", "sendTracesEarly/makeDecision", x.Pos(md),
				"candidates are the buffer's traces", "the traces decided early are not taken from the worker's buffer (GetAll)")
		}
		c.Min("C07.reason-constant", 1)
		c.Min("C07.candidates-from-buffer", 1)

		// heaviest first
		const rSort = "C07.heaviest-first"
		sorted := false
		eng.Instrs(ste, func(in ssa.Instruction) {
			cl, ok := eng.IsCall(in, "sort.Slice", "sort.SliceStable")
			if !ok {
				return
			}
			args := eng.CallArgs(cl)
			mc, ok := args[1].(*ssa.MakeClosure)
			if !ok {
				c.Undecided(rSort, "sendTracesEarly/comparator", x.Pos(in), "comparator is not a function literal")
				sorted = true
				return
			}
			cmp := mc.Fn.(*ssa.Function)
			sorted = true
			okCmp := false
			detail := "comparator does not compare CacheImpact of the two elements"
			eng.Instrs(cmp, func(i2 ssa.Instruction) {
				ret, ok := i2.(*ssa.Return)
				if !ok || len(ret.Results) != 1 {
					return
				}
				bo, ok := ret.Results[0].(*ssa.BinOp)
				if !ok {
					return
				}
				side := func(v ssa.Value) int {
					call, ok := v.(*ssa.Call)
					if !ok || eng.CalleeName(call) != "(*types.Trace).CacheImpact" {
						return -1
					}
					for k, p := range cmp.Params {
						if _, ok := eng.Derives(call.Call.Args[0], func(w ssa.Value) bool {
							if ia, ok := w.(*ssa.IndexAddr); ok {
								return ia.Index == ssa.Value(p)
							}
							if ix, ok := w.(*ssa.Index); ok {
								return ix.Index == ssa.Value(p)
							}
							return w == ssa.Value(p)
						}, eng.FlowOpts{}); ok {
							return k
						}
					}
					return -1
				}
				a, b := side(bo.X), side(bo.Y)
				if a < 0 || b < 0 || a == b {
					return
				}
				// less(i,j) must mean impact(i) > impact(j)
				desc := a == 0 && bo.Op == token.GTR || a == 1 && bo.Op == token.LSS
				if desc {
					okCmp = true
				} else {
					detail = "the ejection candidates are sorted lightest first (or with ties reordered): memory pressure ejects many small traces instead of the heaviest"
				}
			})
			c.Decide(okCmp, rSort, "sendTracesEarly/comparator", x.Pos(in), "less(i,j) ⇔ impact(i) > impact(j)", detail)
			// the sorted slice is the one iterated
			for _, md := range callsIn(ste, nMakeDecision) {
				if !eng.Dominates(in, md) {
					c.Violate(rSort, "sendTracesEarly/sort-before-loop", x.Pos(in), "the sort does not precede the ejection loop")
				}
			}
		})
		if !sorted {
			c.Violate(rSort, "sendTracesEarly/comparator", x.PosOf(ste.Pos()), "the ejection candidates are not sorted by impact")
		}
		c.Min(rSort, 1)

		// stop rule
		const rStop = "C07.stop-rule"
		mds := callsIn(ste, nMakeDecision)
		if len(mds) == 1 {
			h := loopHeader(mds[0])
			budget := param(ste, "sendEarlyBytes")
			if len(ste.Params) == 3 {
				budget = ste.Params[2]
			}
			dataSize := eng.FieldIs("types", "Trace", "DataSize")
			isSum := func(v ssa.Value) bool {
				bo, ok := v.(*ssa.BinOp)
				if ok && bo.Op == token.ADD && (loadsField(bo.X, dataSize) || loadsField(bo.Y, dataSize)) {
					return true
				}
				if phi, ok := v.(*ssa.Phi); ok {
					for _, e := range phi.Edges {
						if bo, ok := e.(*ssa.BinOp); ok && bo.Op == token.ADD && (loadsField(bo.X, dataSize) || loadsField(bo.Y, dataSize)) {
							return true
						}
					}
				}
				return false
			}
			isBudget := func(v ssa.Value) bool { return budget != nil && v == ssa.Value(budget) }
			if h == nil {
				c.Undecided(rStop, "sendTracesEarly/loop", x.Pos(mds[0]), "makeDecision is not inside a loop")
			} else {
				inLoop := func(b *ssa.BasicBlock) bool { return inNaturalLoop(b, h) }
				n := 0
				for _, b := range ste.Blocks {
					if !inLoop(b) || b == h {
						continue
					}
					for si, s := range b.Succs {
						if inLoop(s) {
							continue
						}
						n++
						iff, ok := b.Instrs[len(b.Instrs)-1].(*ssa.If)
						if !ok {
							c.Violate(rStop, "sendTracesEarly/early-exit", x.Pos(b.Instrs[len(b.Instrs)-1]), "the ejection loop is left unconditionally before all candidates were considered")
							continue
						}
						over := eng.EvalRel(iff.Cond, []eng.RelFact{{A: isSum, B: isBudget, Rel: eng.GT}})
						under := eng.EvalRel(iff.Cond, []eng.RelFact{{A: isSum, B: isBudget, Rel: eng.LT | eng.EQ}})
						takesExit := func(t eng.Tri) bool { return t == eng.True && si == 0 || t == eng.False && si == 1 }
						staysIn := func(t eng.Tri) bool { return t == eng.True && si == 1 || t == eng.False && si == 0 }
						c.Decide(takesExit(over) && staysIn(under), rStop, "sendTracesEarly/early-exit", x.Pos(iff),
							"early exit ⇔ bytes of decided traces > the worker's share",
							"the ejection loop can stop early on a condition other than `bytes decided > share` (or with the comparison reversed): the worker releases less than its share while traces remain buffered")
					}
				}
				if n == 0 {
					c.Hold(rStop, "sendTracesEarly/early-exit", x.Pos(mds[0]), "no early exit: all candidates are considered")
				}
				// only decided traces are counted: the accumulation is unreachable after a failed decision
				errs := extractOf(mds[0], 1)
				as := &eng.Assume{Nil: func(v ssa.Value) eng.Tri {
					for _, e := range errs {
						if v == e {
							return eng.False
						}
					}
					return eng.Unknown
				}}
				r := eng.Explore(eng.Query{Fn: ste, Assume: as, Start: mds[0], Classify: func(in ssa.Instruction, _ eng.Facts) eng.Event {
					if in == h.Instrs[0] {
						return eng.EvKill
					}
					if v, ok := in.(ssa.Value); ok {
						if bo, ok := v.(*ssa.BinOp); ok && bo.Op == token.ADD && (loadsField(bo.X, dataSize) || loadsField(bo.Y, dataSize)) {
							return eng.EvSink
						}
					}
					return eng.EvNone
				}})
				c.Decide(len(r.Hits) == 0, rStop, "sendTracesEarly/count-only-decided", x.Pos(mds[0]), "bytes are counted only after a successful decision", "bytes of a trace whose decision failed are counted towards the share: the loop stops before enough memory was released")
			}
		} else {
			c.Undecided(rStop, "sendTracesEarly/shape", x.PosOf(ste.Pos()), sprintf("expected one makeDecision site, found %d", len(mds)))
		}
		c.Min(rStop, 2)
	}

	// every worker is asked, share = (heap − limit) / workers
	const rAll = "C07.every-worker-asked"
	if ca := x.Fn(rAll, "collect", "InMemCollector", "checkAlloc"); ca != nil {
		se := eng.FieldIs("collect", "CollectorWorker", "sendEarly")
		var sends []*ssa.Send
		eng.Instrs(ca, func(in ssa.Instruction) {
			if s, ok := in.(*ssa.Send); ok && loadsField(s.Chan, se) {
				sends = append(sends, s)
			}
		})
		if len(sends) != 1 {
			c.Undecided(rAll, "checkAlloc/send", x.PosOf(ca.Pos()), sprintf("expected one send on worker.sendEarly, found %d", len(sends)))
		} else {
			s := sends[0]
			h := loopHeader(s)
			workers := eng.FieldIs("collect", "InMemCollector", "workers")
			fromWorkers := false
			if fr, base, ok := eng.LoadedField(s.Chan); ok && se(fr) {
				fromWorkers = rangeElemOf(base, func(v ssa.Value) bool { return loadsField(v, workers) })
			}
			if h == nil || !fromWorkers {
				c.Violate(rAll, "checkAlloc/loop", x.Pos(s), "the ejection request is not sent inside a range over all workers")
			} else if body := loopBody(h); body != nil {
				r := eng.Explore(eng.Query{Fn: ca, Start: body.Instrs[0], Classify: func(in ssa.Instruction, _ eng.Facts) eng.Event {
					if in == ssa.Instruction(s) {
						return eng.EvKill
					}
					if in == h.Instrs[0] {
						return eng.EvSink
					}
					return eng.EvNone
				}})
				bad := len(r.Hits) > 0
				for _, e := range r.Exits {
					if _, ok := e.Instr.(*ssa.Return); ok {
						bad = true
					}
				}
				c.Decide(!bad, rAll, "checkAlloc/every-iteration-sends", x.Pos(s), "each worker receives an ejection request", "an iteration over the workers can skip the ejection request: that worker's buffered traces are never ejected under memory pressure")
			}
			// share provenance
			var share ssa.Value
			if mk, ok := s.X.(*ssa.UnOp); ok {
				// struct literal: find store to field bytesToSend of the alloc
				if a, ok := mk.X.(*ssa.Alloc); ok {
					eng.Instrs(ca, func(in ssa.Instruction) {
						if st, ok := in.(*ssa.Store); ok {
							if fr, base, ok := eng.FieldRefOf(st.Addr); ok && fr.Name == "bytesToSend" && base == ssa.Value(a) {
								share = st.Val
							}
						}
					})
				}
			}
			okShare := false
			if share != nil {
				_, okShare = eng.Derives(share, func(v ssa.Value) bool {
					bo, ok := v.(*ssa.BinOp)
					if !ok || bo.Op != token.QUO {
						return false
					}
					_, byWorkers := eng.Derives(bo.Y, func(w ssa.Value) bool { return loadsField(w, workers) }, eng.FlowOpts{})
					_, over := eng.Derives(bo.X, func(w ssa.Value) bool {
						sub, ok := w.(*ssa.BinOp)
						if !ok || sub.Op != token.SUB {
							return false
						}
						_, lim := eng.Derives(sub.Y, func(z ssa.Value) bool { return isCallValue(z, "(config.CollectionConfig).GetMaxAlloc") }, eng.FlowOpts{})
						return lim
					}, eng.FlowOpts{})
					return byWorkers && over
				}, eng.FlowOpts{})
			}
			c.Decide(okShare, rAll, "checkAlloc/share", x.Pos(s), "share = (heap − MaxAlloc) / len(workers)", "the per-worker share is not (current heap − configured limit) / number of workers")
		}
	}
	c.Min(rAll, 2)

	// ---- the impact estimate the ordering uses -----------------------------------------------------------------
	// (the property orders ejection by "estimated impact"; decided here is only that the estimate is what the code
	// documents: size × an age factor with sub-timeout resolution, summed over all spans of the trace)
	const rImp = "C07.impact-estimate"
	if si := x.Fn(rImp, "types", "Span", "CacheImpact"); si != nil && len(si.Params) >= 2 {
		timeout := si.Params[1]
		for _, rv := range returnedValues(si, 0) {
			c.Examined++
			dep := func(pred func(ssa.Value) bool) bool {
				_, ok := eng.Derives(rv, pred, eng.FlowOpts{ThroughCalls: true})
				return ok
			}
			size := dep(func(v ssa.Value) bool {
				return isCallValue(v, "(*types.Span).GetDataSize") || loadsField(v, func(fr eng.FieldRef) bool { return fr.Name == "DataSize" })
			})
			age := dep(func(v ssa.Value) bool { return loadsField(v, func(fr eng.FieldRef) bool { return fr.Name == "ArrivalTime" }) })
			tmo := dep(func(v ssa.Value) bool { return v == ssa.Value(timeout) })
			c.Decide(size && age && tmo, rImp, "Span.CacheImpact/inputs", x.PosOf(si.Pos()), "depends on the span's size, its arrival time and the trace timeout",
				"the span's cache impact no longer depends on all of: its data size, its arrival time and the trace timeout")
		}
		// the age is scaled up before it is divided by the timeout (integer durations: age/timeout alone is 0 until a
		// whole timeout has passed, which removes the age weighting for every trace that is still waiting)
		eng.Instrs(si, func(in ssa.Instruction) {
			q, ok := in.(*ssa.BinOp)
			if !ok || q.Op != token.QUO {
				return
			}
			if _, d := eng.Derives(q.Y, func(v ssa.Value) bool { return v == ssa.Value(timeout) }, eng.FlowOpts{}); !d {
				return
			}
			if b, isB := q.X.Type().Underlying().(*types.Basic); !isB || b.Info()&types.IsInteger == 0 {
				return
			}
			c.Examined++
			scaled := false
			if m, ok := eng.StripConv(q.X).(*ssa.BinOp); ok && m.Op == token.MUL {
				for _, o := range []ssa.Value{m.X, m.Y} {
					if k, ok := eng.ConstInt(o); ok && k > 1 {
						scaled = true
					}
					if u, ok := eng.StripConv(o).(*ssa.UnOp); ok {
						if _, isG := u.X.(*ssa.Global); isG {
							scaled = true
						}
					}
				}
			}
			c.Decide(scaled, rImp, "Span.CacheImpact/age-resolution", x.Pos(in), "the age is multiplied by the impact factor before the integer division by the timeout",
				"the span's age is divided by the trace timeout as integers before it is scaled: the quotient is 0 for every span younger than one full timeout, so the age weighting of the impact estimate disappears exactly for the traces that are still waiting")
		})
	}
	if ti := x.Fn(rImp, "types", "Trace", "CacheImpact"); ti != nil {
		c.Examined++
		sums := false
		eng.Instrs(ti, func(in ssa.Instruction) {
			cl, ok := in.(*ssa.Call)
			if !ok || eng.CalleeName(cl) != "(*types.Span).CacheImpact" {
				return
			}
			// called on the element of a range over all spans of the trace, and added up
			elemOK := rangeElemOf(cl.Call.Args[0], func(v ssa.Value) bool {
				return isCallValue(v, "(*types.Trace).GetSpans") || loadsField(v, func(fr eng.FieldRef) bool { return fr.Name == "spans" })
			})
			added := false
			for _, ref := range *cl.Referrers() {
				if bo, ok := ref.(*ssa.BinOp); ok && bo.Op == token.ADD {
					added = true
				}
			}
			if elemOK && added && loopHeader(in) != nil {
				sums = true
			}
		})
		c.Decide(sums, rImp, "Trace.CacheImpact/sum", x.PosOf(ti.Pos()), "sum of the spans' impacts over all spans of the trace", "the trace's impact is not the sum of Span.CacheImpact over all of its spans")
	}
	c.Min(rImp, 3)
}