// Package rules holds the per-property rule definitions. Slots are filled from
// the repository through go/types / go/ssa; nothing is keyed by line or text.
package rules

import (
	"fmt"
	"go/token"
	"go/types"
	"sort"
	"strings"

	"golang.org/x/tools/go/callgraph"
	"golang.org/x/tools/go/ssa"

	"refcheck/internal/eng"
	"refcheck/internal/load"
	"refcheck/internal/report"
)

type Ctx struct {
	P    *load.Program
	C    *report.Check
	Tier string

	repoFuncs []*ssa.Function
	invokes   map[string][]invokeSite // method name -> invoke-mode call sites in production code
}

type invokeSite struct {
	fn    *ssa.Function
	site  ssa.CallInstruction
	iface *types.Interface
}

type Rule struct {
	ID  string
	Run func(x *Ctx)
}

var registry = map[string]Rule{}

func Register(id string, run func(x *Ctx)) { registry[id] = Rule{id, run} }

func Lookup(id string) (Rule, bool) { r, ok := registry[id]; return r, ok }

func IDs() []string {
	var out []string
	for k := range registry {
		out = append(out, k)
	}
	sort.Strings(out)
	return out
}

// Fn resolves an anchor function; a missing anchor is recorded once.
func (x *Ctx) Fn(rule, rel, recv, name string) *ssa.Function {
	f := x.P.Func(rel, recv, name)
	if f == nil || f.Blocks == nil {
		n := rel + "." + name
		if recv != "" {
			n = rel + "." + recv + "." + name
		}
		x.C.Unresolved(rule, n, "anchor function "+n+" not found (renamed or removed): the rule cannot be evaluated")
		return nil
	}
	return f
}

func (x *Ctx) Pos(in ssa.Instruction) string { return x.P.Pos(eng.InstrPos(in)) }
func (x *Ctx) PosOf(p token.Pos) string      { return x.P.Pos(p) }

// RepoFuncs returns all production functions (test doubles excluded), sorted.
func (x *Ctx) RepoFuncs() []*ssa.Function {
	if x.repoFuncs != nil {
		return x.repoFuncs
	}
	for _, f := range x.P.SortedFuncs() {
		if x.P.IsDoubleFunc(f) {
			continue
		}
		x.repoFuncs = append(x.repoFuncs, f)
	}
	return x.repoFuncs
}

// PkgFuncs returns production functions of the given repository-relative packages.
func (x *Ctx) PkgFuncs(rels ...string) []*ssa.Function {
	var out []*ssa.Function
	for _, f := range x.RepoFuncs() {
		r := x.P.FuncRel(f)
		for _, w := range rels {
			if r == w {
				out = append(out, f)
			}
		}
	}
	return out
}

// FName is the short display name of a function ("collect.(*CollectorWorker).processSpan$1").
func FName(f *ssa.Function) string {
	return eng.Short(f.String())
}

// BaseName returns "processSpan" for methods/functions, "processSpan$1" for closures.
func BaseName(f *ssa.Function) string {
	s := f.Name()
	if i := strings.Index(s, "["); i > 0 {
		// generic instantiation: name of the origin (closures keep their $n suffix)
		j := strings.LastIndex(s, "]")
		s = s[:i] + s[j+1:]
	}
	return s
}

// Callers returns the repository functions with a call edge to f in the VTA
// call graph, with the call sites.
func (x *Ctx) Callers(f *ssa.Function) []*callgraph.Edge {
	cg := x.P.CallGraph()
	n := cg.Nodes[f]
	if n == nil {
		return nil
	}
	var out []*callgraph.Edge
	seenSite := map[ssa.CallInstruction]bool{}
	for _, e := range n.In {
		if e.Site != nil {
			seenSite[e.Site] = true
		}
	}
	// Components are wired by reflection (facebookgo/inject), so VTA sees no
	// assignment of concrete types to injected interface fields: add the
	// class-hierarchy edges for interface calls whose interface f's receiver implements.
	if recv := f.Signature.Recv(); recv != nil && f.Synthetic == "" {
		if x.invokes == nil {
			x.invokes = map[string][]invokeSite{}
			for _, g := range x.RepoFuncs() {
				eng.Instrs(g, func(in ssa.Instruction) {
					if ci, ok := in.(ssa.CallInstruction); ok && ci.Common().IsInvoke() {
						if it, ok := ci.Common().Value.Type().Underlying().(*types.Interface); ok {
							m := ci.Common().Method.Name()
							x.invokes[m] = append(x.invokes[m], invokeSite{g, ci, it})
						}
					}
				})
			}
		}
		for _, is := range x.invokes[f.Name()] {
			if seenSite[is.site] {
				continue
			}
			if types.Implements(recv.Type(), is.iface) {
				out = append(out, &callgraph.Edge{Caller: cg.CreateNode(is.fn), Site: is.site, Callee: n})
			}
		}
	}
	for _, e := range n.In {
		if e.Caller == nil || e.Caller.Func == nil {
			continue
		}
		if !x.P.Funcs()[e.Caller.Func] {
			// synthetic wrappers (bound methods, thunks) belong to no package: follow through them
			if e.Caller.Func.Synthetic != "" {
				out = append(out, x.Callers(e.Caller.Func)...)
			}
			continue
		}
		if x.P.IsDoubleFunc(e.Caller.Func) {
			continue
		}
		out = append(out, e)
	}
	return out
}

// RootsOf walks callers of f backwards (through closures to their parents,
// through the VTA call graph) and returns the entry functions from which f can
// be reached without passing through a function in stop. A function is an entry
// when it has no production caller or is started by a `go` statement.
func (x *Ctx) RootsOf(f *ssa.Function, stop map[*ssa.Function]bool) (roots []*ssa.Function, viaGo []*callgraph.Edge) {
	seen := map[*ssa.Function]bool{}
	var walk func(g *ssa.Function)
	walk = func(g *ssa.Function) {
		if seen[g] || stop[g] {
			return
		}
		seen[g] = true
		edges := x.Callers(g)
		n := 0
		for _, e := range edges {
			n++
			if _, isGo := e.Site.(*ssa.Go); isGo {
				viaGo = append(viaGo, e)
				continue
			}
			walk(e.Caller.Func)
		}
		if g.Parent() != nil {
			// a closure runs at the latest where it is created or passed; treat the parent as a caller
			n++
			walk(g.Parent())
		}
		if n == 0 {
			roots = append(roots, g)
		}
	}
	walk(f)
	return
}

// Reachable returns the production functions reachable from f in the call graph (incl. f).
func (x *Ctx) Reachable(f *ssa.Function) map[*ssa.Function]bool {
	cg := x.P.CallGraph()
	seen := map[*ssa.Function]bool{}
	var walk func(g *ssa.Function)
	walk = func(g *ssa.Function) {
		if g == nil || seen[g] {
			return
		}
		seen[g] = true
		n := cg.Nodes[g]
		if n == nil {
			return
		}
		for _, e := range n.Out {
			walk(e.Callee.Func)
		}
		for _, a := range g.AnonFuncs {
			walk(a)
		}
	}
	walk(f)
	return seen
}

// ReachPath finds a call path from f to a function satisfying pred (BFS), for reports.
func (x *Ctx) ReachPath(f *ssa.Function, pred func(*ssa.Function) bool) []string {
	cg := x.P.CallGraph()
	type item struct {
		f    *ssa.Function
		prev *item
	}
	seen := map[*ssa.Function]bool{f: true}
	q := []*item{{f, nil}}
	for len(q) > 0 {
		it := q[0]
		q = q[1:]
		if it.f != f && pred(it.f) || it.f == f && pred(f) {
			var out []string
			for x := it; x != nil; x = x.prev {
				out = append([]string{eng.Short(x.f.String())}, out...)
			}
			return out
		}
		n := cg.Nodes[it.f]
		var next []*ssa.Function
		if n != nil {
			for _, e := range n.Out {
				next = append(next, e.Callee.Func)
			}
		}
		next = append(next, it.f.AnonFuncs...)
		for _, g := range next {
			if g != nil && !seen[g] {
				seen[g] = true
				q = append(q, &item{g, it})
			}
		}
	}
	return nil
}

func joinNames(fs []*ssa.Function) string {
	var s []string
	for _, f := range fs {
		s = append(s, FName(f))
	}
	sort.Strings(s)
	return strings.Join(s, ", ")
}

func sprintf(f string, a ...any) string { return fmt.Sprintf(f, a...) }
