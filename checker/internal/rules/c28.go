package rules

import (
	"go/token"
	"go/types"
	"strings"

	"golang.org/x/tools/go/ssa"

	"refcheck/internal/eng"
)

func init() { Register("C28", c28) }

// isConfigOrLen: v derives from a configuration struct field (package config) or a len() call.
func (x *Ctx) fromConfigField(v ssa.Value) (string, bool) {
	name := ""
	_, ok := eng.Derives(v, func(w ssa.Value) bool {
		fr, _, isF := eng.FieldRefOf(w)
		if !isF {
			if u, isU := w.(*ssa.UnOp); isU && u.Op == token.MUL {
				fr, _, isF = eng.FieldRefOf(u.X)
			}
		}
		if isF && fr.Struct != nil && fr.Struct.Obj().Pkg() != nil && strings.HasSuffix(fr.Struct.Obj().Pkg().Path(), "/config") {
			name = fr.String()
			return true
		}
		return false
	}, eng.FlowOpts{At: dummyInstr, ThroughCalls: false})
	return name, ok
}

var dummyInstr ssa.Instruction = (*ssa.Jump)(nil)

func c28(x *Ctx) {
	c := x.C
	c.Explanation = "C28 (no accepted configuration or request can crash Refinery) – the statically decidable clauses: (a) every datatype, validation type and format argument used in the two metadata files has a case in the validator (whose default arms panic); (b) every integer division, remainder and rand.Intn whose divisor/argument derives from a configuration field is guarded so that it cannot be zero / below one; (c) every constant-index access s[0] on a string that derives from configuration data is guarded by a length test."
	c.NotCovered = "arbitrary bytes through third-party decoders, hangs, memory exhaustion, nil dereferences in general (the compiler's unproven bounds checks are attached as information only)."

	// ---- (a) validator tables ---------------------------------------------------------------------
	const ra = "C28.validator-tables"
	vd := x.Fn(ra, "config", "", "validateDatatype")
	vf := x.Fn(ra, "config", "Metadata", "Validate")
	usedTypes, usedVals, usedFormats := map[string]string{}, map[string]string{}, map[string]string{}
	for _, file := range []string{"config/metadata/configMeta.yaml", "config/metadata/rulesMeta.yaml"} {
		m := x.loadMeta(ra, file)
		if m == nil {
			continue
		}
		for _, f := range m.AllFields() {
			if f.Type != "" {
				usedTypes[f.Type] = file + ":" + f.Group + "." + f.Name
			}
			for _, v := range f.Validations {
				usedVals[v.Type] = file + ":" + f.Group + "." + f.Name
				if v.Type == "format" {
					if s, ok := v.Arg.(string); ok {
						usedFormats[s] = file + ":" + f.Group + "." + f.Name
					}
				}
			}
		}
	}
	if vd != nil {
		ts := x.switches(x.pkgOf(vd), vd.Syntax(), func(tag string) bool { return tag == "typ" })
		if len(ts) == 0 {
			c.Undecided(ra, "validateDatatype/switch", x.PosOf(vd.Pos()), "no switch on the datatype found")
		} else {
			have := ts[0].Labels
			for t, where := range usedTypes {
				c.Examined++
				_, ok := have[t]
				c.Decide(ok, ra, "datatype:"+t, where, "datatype handled by validateDatatype", "metadata uses datatype '"+t+"' ("+where+") which validateDatatype does not handle: loading any configuration that sets this field panics")
			}
		}
	}
	if vf != nil {
		ts := x.switches(x.pkgOf(vf), vf.Syntax(), func(tag string) bool { return strings.HasSuffix(tag, "validation.Type") })
		fs := x.switches(x.pkgOf(vf), vf.Syntax(), func(tag string) bool { return strings.Contains(tag, "validation.Arg") })
		have := map[string]bool{}
		for _, t := range ts {
			for l := range t.Labels {
				have[l] = true
			}
		}
		for t, where := range usedVals {
			c.Examined++
			c.Decide(have[t], ra, "validation:"+t, where, "validation type handled", "metadata uses validation '"+t+"' ("+where+") which Validate does not handle (its default arm panics)")
		}
		haveF := map[string]bool{}
		for _, t := range fs {
			for l := range t.Labels {
				haveF[l] = true
			}
		}
		for t, where := range usedFormats {
			c.Examined++
			c.Decide(haveF[t], ra, "format:"+t, where, "format handled", "metadata uses format '"+t+"' ("+where+") which Validate does not handle (panics)")
		}
	}
	c.Min(ra, 30)

	// ---- (b) divisors derived from configuration ---------------------------------------------------
	const rb = "C28.config-divisor-guarded"
	for _, f := range x.RepoFuncs() {
		rel := x.P.FuncRel(f)
		if strings.HasPrefix(rel, "tools/") || strings.HasPrefix(rel, "cmd/") {
			continue
		}
		eng.Instrs(f, func(in ssa.Instruction) {
			var div ssa.Value
			what := ""
			switch y := in.(type) {
			case *ssa.BinOp:
				if y.Op != token.QUO && y.Op != token.REM {
					return
				}
				if b, ok := y.Type().Underlying().(*types.Basic); !ok || b.Info()&types.IsInteger == 0 {
					return
				}
				div, what = y.Y, "integer "+y.Op.String()
			case *ssa.Call:
				if n := eng.CalleeName(y); n == "math/rand.Intn" || n == "math/rand.Int63n" || n == "math/rand.Int31n" {
					div, what = y.Call.Args[0], n
				} else {
					return
				}
			default:
				return
			}
			if _, isConst := div.(*ssa.Const); isConst {
				return
			}
			src, fromCfg := x.fromConfigField(div)
			if !fromCfg {
				return
			}
			c.Examined++
			key := BaseName(f) + "/" + strings.ReplaceAll(what, " ", "")
			if eng.AtLeastOne(div) {
				c.Hold(rb, key, x.Pos(in), "divisor floored at 1 ("+src+")")
				return
			}
			// guarded: with the root location < 1 the operation is unreachable
			roots := []ssa.Value{div}
			for _, l := range leaves(div, nil) {
				roots = append(roots, l)
			}
			guarded := false
			for _, rt := range roots {
				as := &eng.Assume{Bool: func(v ssa.Value) eng.Tri { return eng.EvalRel(v, []eng.RelFact{eng.LessThanOneFact(rt)}) }}
				r := eng.ReachableSinks(f, as, nil, func(i2 ssa.Instruction) bool { return i2 == in })
				if len(r.Hits) == 0 {
					guarded = true
				}
			}
			// the field read may itself have been stored from a floored value in the same type (one level)
			if !guarded {
				// min(v, K) / max(v, K) with K >= 1 is at least one whenever v is
				coreDiv := eng.StripConv(div)
				for i := 0; i < 4; i++ {
					cl, isCall := coreDiv.(*ssa.Call)
					if !isCall {
						break
					}
					b, isB := cl.Call.Value.(*ssa.Builtin)
					if !isB || (b.Name() != "min" && b.Name() != "max") {
						break
					}
					var rest []ssa.Value
					for _, a := range cl.Call.Args {
						if k, ok := eng.ConstInt(a); ok && k >= 1 {
							continue
						}
						rest = append(rest, a)
					}
					if len(rest) != 1 {
						break
					}
					coreDiv = eng.StripConv(rest[0])
				}
				if fr, _, ok := eng.LoadedField(coreDiv); ok {
					allFloored := true
					n := 0
					for _, w := range eng.FieldWrites(x.PkgFuncs(rel), func(g eng.FieldRef) bool { return g.Var == fr.Var }) {
						n++
						st := w.Instr.(*ssa.Store)
						if eng.AtLeastOne(st.Val) {
							continue
						}
						// stored value guarded in its own function (e.g. `if x == 0 { x = 1 }` right after)
						okSt := false
						r := eng.Explore(eng.Query{Fn: w.Fn, Start: st})
						_ = r
						// a following store of a floored value on the zero path
						for _, w2 := range eng.FieldWrites([]*ssa.Function{w.Fn}, func(g eng.FieldRef) bool { return g.Var == fr.Var }) {
							st2 := w2.Instr.(*ssa.Store)
							if st2 != st && eng.AtLeastOne(st2.Val) && eng.MayPrecede(st, st2) {
								okSt = true
							}
						}
						if !okSt {
							allFloored = false
						}
					}
					if n > 0 && allFloored && !strings.HasSuffix(fr.Struct.Obj().Pkg().Path(), "/config") {
						guarded = true
					}
				}
			}
			c.Decide(guarded, rb, key, x.Pos(in), "guarded against zero ("+src+")",
				what+" by a value derived from "+src+" with no guard against zero: a configuration that passes validation with this field 0 makes the process panic (division by zero / Intn(0))")
		})
	}
	c.Min(rb, 3)

	// ---- (c) constant index on configuration strings --------------------------------------------------
	const rc = "C28.config-string-index-guarded"
	for _, f := range x.RepoFuncs() {
		rel := x.P.FuncRel(f)
		if rel != "config" && rel != "sample" && rel != "collect" && rel != "route" && rel != "types" {
			continue
		}
		if rv := f.Signature.Recv(); rv != nil && strings.Contains(rv.Type().String(), "config.Metadata") {
			continue // the embedded documentation metadata is part of the binary, not user input
		}
		eng.Instrs(f, func(in ssa.Instruction) {
			// s[k] and s[a:b] with constant bounds need len(s) > k / len(s) >= b
			var sx ssa.Value
			var need int64 // minimal length that makes the access safe
			what := ""
			switch y := in.(type) {
			case *ssa.Lookup:
				if k, ok := eng.ConstInt(y.Index); ok {
					sx, need, what = y.X, k+1, sprintf("s[%d]", k)
				}
			case *ssa.Index:
				if k, ok := eng.ConstInt(y.Index); ok {
					sx, need, what = y.X, k+1, sprintf("s[%d]", k)
				}
			case *ssa.Slice:
				hi, lo := int64(-1), int64(-1)
				if y.High != nil {
					if k, ok := eng.ConstInt(y.High); ok {
						hi = k
					}
				}
				if y.Low != nil {
					if k, ok := eng.ConstInt(y.Low); ok {
						lo = k
					}
				}
				switch {
				case hi > 0:
					sx, need, what = y.X, hi, sprintf("s[…:%d]", hi)
				case lo > 0 && y.High == nil:
					sx, need, what = y.X, lo, sprintf("s[%d:]", lo)
				}
			}
			if sx == nil || need <= 0 {
				return
			}
			if b, isB := sx.Type().Underlying().(*types.Basic); !isB || b.Info()&types.IsString == 0 {
				return
			}
			// the string comes from configuration or from a request: an element of a []string parameter/field, a
			// configuration field, or (package config) a string parameter of an exported function – directly or
			// through string helpers (TrimSpace, ToLower, …), which can return a shorter string
			isInput := func(v ssa.Value) bool {
				if _, ok := x.fromConfigField(v); ok {
					return true
				}
				if rel == "config" && rangeElemOf(v, func(w ssa.Value) bool { _, isP := w.(*ssa.Parameter); return isP }) {
					return true
				}
				if p, ok := v.(*ssa.Parameter); ok && rel == "config" && p.Parent() != nil && p.Parent().Object() != nil && p.Parent().Object().Exported() && p.Parent().Signature.Recv() == nil {
					return true
				}
				return false
			}
			if _, ok := eng.Derives(sx, isInput, eng.FlowOpts{ThroughCalls: true}); !ok {
				return
			}
			c.Examined++
			kk := need - 1 // unsafe exactly when len(s) <= need-1
			as := &eng.Assume{Bool: func(v ssa.Value) eng.Tri {
				// s == "" is the need = 1 form of the length guard
				if b, ok := v.(*ssa.BinOp); ok && kk == 0 && (b.Op == token.EQL || b.Op == token.NEQ) {
					var other ssa.Value
					if eng.SameLoc(b.X, sx) {
						other = b.Y
					} else if eng.SameLoc(b.Y, sx) {
						other = b.X
					}
					if str, ok := eng.ConstString(other); other != nil && ok && str == "" {
						if b.Op == token.EQL {
							return eng.True
						}
						return eng.False
					}
				}
				// strings.HasPrefix(s, "lit") implies len(s) >= len("lit")
				if cl, ok := v.(*ssa.Call); ok && eng.CalleeName(cl) == "strings.HasPrefix" && len(cl.Call.Args) == 2 && eng.SameLoc(cl.Call.Args[0], sx) {
					if lit, ok := eng.ConstString(cl.Call.Args[1]); ok && int64(len(lit)) > kk {
						return eng.False
					}
				}
				return eng.EvalRel(v, []eng.RelFact{{A: func(u ssa.Value) bool {
					cl, ok := u.(*ssa.Call)
					if !ok {
						return false
					}
					b, ok := cl.Call.Value.(*ssa.Builtin)
					return ok && b.Name() == "len" && eng.SameLoc(cl.Call.Args[0], sx)
				}, BConst: &kk, Rel: eng.LT | eng.EQ}})
			}}
			r := eng.ReachableSinks(f, as, nil, func(i2 ssa.Instruction) bool { return i2 == in })
			c.Decide(len(r.Hits) == 0, rc, BaseName(f)+"/"+what, x.Pos(in), "guarded by a length test on the same string",
				what+" on a string that comes from configuration or a request header is reachable when the string is shorter: an entry such as \"\" or \" \" (after trimming), or a short API key, passes validation and panics here – over gRPC and in the collector goroutines nothing recovers")
		})
	}
	c.Min(rc, 1)

	// ---- (d) the root span of a trace may be missing: dereferences are guarded -----------------------------------
	// (any client can leave the root span out; a decision made for a trace without one runs this code in a collector
	// goroutine, where nothing recovers a nil dereference)
	const rd = "C28.root-span-nil-guarded"
	rootF := func(fr eng.FieldRef) bool {
		return fr.Name == "RootSpan" && fr.Struct != nil && fr.Struct.Obj().Name() == "Trace"
	}
	isRootLoad := func(v ssa.Value) bool { return loadsField(v, rootF) }
	nGuard := 0
	for _, f := range x.RepoFuncs() {
		rel := x.P.FuncRel(f)
		if rel != "sample" && rel != "collect" && rel != "types" {
			continue
		}
		seen := map[string]bool{}
		eng.Instrs(f, func(in ssa.Instruction) {
			var base ssa.Value
			switch y := in.(type) {
			case *ssa.FieldAddr:
				base = y.X
			case *ssa.Field:
				base = y.X
			default:
				return
			}
			if !isRootLoad(base) {
				return
			}
			key := BaseName(f) + "/RootSpan"
			if seen[key] {
				// one obligation per function; any unguarded site fails it
			}
			nGuard++
			c.Examined++
			as := &eng.Assume{Nil: func(v ssa.Value) eng.Tri {
				if isRootLoad(v) {
					return eng.True
				}
				return eng.Unknown
			}}
			r := eng.ReachableSinks(f, as, nil, func(i2 ssa.Instruction) bool { return i2 == in })
			if len(r.Hits) > 0 {
				c.Violate(rd, key, x.Pos(in), "the trace's root span is dereferenced on a path where it can be nil (no `RootSpan != nil` test covers it): a trace decided without a root span – which any client can cause by never sending one – crashes the process here")
			} else if !seen[key] {
				c.Hold(rd, key, x.Pos(in), "every dereference of RootSpan is behind a nil test")
			}
			seen[key] = true
		})
	}
	if nGuard == 0 {
		c.Unresolved(rd, "types.Trace.RootSpan", "no dereference of Trace.RootSpan found")
	}
}
