package rules

import (
	"go/token"
	"strings"

	"golang.org/x/tools/go/ssa"

	"refcheck/internal/eng"
)

func init() { Register("C31", c31) }

func c31(x *Ctx) {
	c := x.C
	c.Explanation = "C31 (the decision cache remembers what it promises): decides that both lookups consult the dropped set/filter before the kept LRU on every path (a drop wins) and answer a dropped trace with the dropped record; that Record stores a kept decision in the LRU with the interned reason and a dropped one in both the recent-drop set and the filter; and that shrinking the kept cache on reload carries over the newest entries, not the oldest."
	c.NotCovered = "LRU / cuckoo filter retention and resize arithmetic (library internals, capacities); the asynchronous insertion queue of the filter."
	const nCheck = "(*collect/cache.CuckooTraceChecker).Check"
	isKeptGet := func(in ssa.Instruction) bool {
		cl, ok := in.(ssa.CallInstruction)
		return ok && strings.HasPrefix(eng.CalleeName(cl), "(*github.com/hashicorp/golang-lru/v2.Cache") && strings.HasSuffix(eng.CalleeName(cl), ".Get")
	}
	isKeptAdd := func(in ssa.Instruction) bool {
		cl, ok := in.(ssa.CallInstruction)
		return ok && strings.HasPrefix(eng.CalleeName(cl), "(*github.com/hashicorp/golang-lru/v2.Cache") && strings.HasSuffix(eng.CalleeName(cl), ".Add")
	}
	const r1 = "C31.dropped-first"
	for _, name := range []string{"CheckSpan", "CheckTrace"} {
		f := x.Fn(r1, "collect/cache", "cuckooSentCache", name)
		if f == nil {
			continue
		}
		r := eng.Explore(eng.Query{Fn: f, Classify: func(in ssa.Instruction, _ eng.Facts) eng.Event {
			if _, ok := eng.IsCall(in, nCheck); ok {
				return eng.EvKill
			}
			if isKeptGet(in) {
				return eng.EvSink
			}
			return eng.EvNone
		}})
		c.Examined += r.States
		c.Decide(len(r.Hits) == 0, r1, name+"/order", x.PosOf(f.Pos()), "dropped filter consulted before the kept LRU", "the kept LRU is consulted before (or without) the dropped filter: a trace recorded in both halves is reported kept by one lookup and dropped by the other")
		// dropped ⇒ dropped record, found
		as := &eng.Assume{Bool: func(v ssa.Value) eng.Tri {
			if isCallValue(v, nCheck) {
				return eng.True
			}
			if cl, ok := v.(*ssa.Call); ok {
				if n := eng.CalleeName(cl); strings.HasPrefix(n, "(*generics.SetWithTTL") && strings.HasSuffix(n, ".Contains") {
					return eng.False
				}
			}
			return eng.Unknown
		}}
		r2 := eng.Explore(eng.Query{Fn: f, Assume: as, TrackPhi: func(*ssa.Phi) bool { return true }})
		ok, n := true, 0
		for _, e := range r2.Exits {
			ret, isRet := e.Instr.(*ssa.Return)
			if !isRet {
				continue
			}
			n++
			rec := e.Facts.Resolve(ret.Results[0])
			_, isDropped := eng.Derives(rec, func(v ssa.Value) bool {
				a, ok := v.(*ssa.Alloc)
				return ok && strings.Contains(a.Type().String(), "cuckooDroppedRecord")
			}, eng.FlowOpts{})
			if !isDropped || e.Facts.Bool(e.Facts.Resolve(ret.Results[2])) != eng.True {
				ok = false
			}
		}
		c.Decide(ok && n > 0, r1, name+"/dropped-answer", x.PosOf(f.Pos()), "filter hit ⇒ (dropped record, found)", "a trace found in the dropped filter is not answered with the dropped record")
	}
	c.Min(r1, 4)
	const r2 = "C31.record-paths"
	if rec := x.Fn(r2, "collect/cache", "cuckooSentCache", "Record"); rec != nil {
		keep := param(rec, "keep")
		mk := func(t eng.Tri) *eng.Assume {
			return &eng.Assume{Bool: func(v ssa.Value) eng.Tri {
				if keep != nil && v == ssa.Value(keep) {
					return t
				}
				return eng.Unknown
			}}
		}
		count := func(as *eng.Assume, is func(ssa.Instruction) bool) (min, max int) {
			r := eng.Explore(eng.Query{Fn: rec, Assume: as, Classify: func(in ssa.Instruction, _ eng.Facts) eng.Event {
				if is(in) {
					return eng.EvSink
				}
				return eng.EvNone
			}})
			min, max = 9, 0
			for _, e := range r.Exits {
				if _, isRet := e.Instr.(*ssa.Return); isRet {
					if e.Sinks < min {
						min = e.Sinks
					}
					if e.Sinks > max {
						max = e.Sinks
					}
				}
			}
			return
		}
		isRecent := func(in ssa.Instruction) bool {
			n := eng.CalleeName2(in)
			return strings.HasPrefix(n, "(*generics.SetWithTTL") && strings.HasSuffix(n, ".Add")
		}
		isFilter := func(in ssa.Instruction) bool {
			_, ok := eng.IsCall(in, "(*collect/cache.CuckooTraceChecker).Add")
			return ok
		}
		mn, _ := count(mk(eng.True), isKeptAdd)
		c.Decide(mn >= 1, r2, "Record/kept", x.PosOf(rec.Pos()), "keep ⇒ stored in the kept LRU", "a kept decision is not stored in the kept LRU on some path: late spans of a kept trace are not recognised")
		mn1, _ := count(mk(eng.False), isRecent)
		mn2, _ := count(mk(eng.False), isFilter)
		c.Decide(mn1 >= 1, r2, "Record/dropped-recent", x.PosOf(rec.Pos()), "drop ⇒ recorded in the recent-drop set", "a dropped decision is not recorded in the synchronous recent-drop set: until the filter's asynchronous insert runs (or for good, when its queue is full) a late span of the dropped trace starts a new decision")
		c.Decide(mn2 >= 1, r2, "Record/dropped-filter", x.PosOf(rec.Pos()), "drop ⇒ recorded in the dropped filter", "a dropped decision is not recorded in the dropped-trace filter: it is forgotten when the recent-drop entry expires")
		_, mxK := count(mk(eng.False), isKeptAdd)
		c.Decide(mxK == 0, r2, "Record/dropped-not-kept", x.PosOf(rec.Pos()), "drop ⇒ not in the kept LRU", "a dropped decision is stored in the kept LRU")
		// interned reason
		interned := false
		eng.Instrs(rec, func(in ssa.Instruction) {
			if cl, ok := eng.IsCall(in, "(collect/cache.KeptTrace).SetKeptReason"); ok {
				if isCallValue(eng.CallArgs(cl)[0], "(*collect/cache.KeptReasonsCache).Set") {
					interned = true
				}
			}
		})
		c.Decide(interned, r2, "Record/interned-reason", x.PosOf(rec.Pos()), "kept reason interned and attached to the trace", "the kept reason is not interned through the reasons cache before the entry is stored: the reason reported for late spans is wrong")
	}
	c.Min(r2, 5)
	const r3 = "C31.resize-keeps-newest"
	if rs := x.Fn(r3, "collect/cache", "cuckooSentCache", "Resize"); rs != nil {
		n := 0
		eng.Instrs(rs, func(in ssa.Instruction) {
			sl, ok := in.(*ssa.Slice)
			if !ok {
				return
			}
			if _, fromKeys := eng.Derives(sl.X, func(v ssa.Value) bool {
				cl, ok := v.(*ssa.Call)
				return ok && strings.HasSuffix(eng.CalleeName(cl), ".Keys")
			}, eng.FlowOpts{}); !fromKeys {
				return
			}
			n++
			tail := sl.High == nil && sl.Low != nil
			if tail {
				bo, ok := sl.Low.(*ssa.BinOp)
				tail = ok && bo.Op == token.SUB
			}
			c.Decide(tail, r3, "Resize/carry-over", x.Pos(in), "when shrinking, the newest keys (tail of Keys(), oldest→newest) are carried over", "when the kept cache shrinks the oldest entries are carried over and the newest decisions are forgotten, although they are within the new capacity")
		})
		if n == 0 {
			c.Undecided(r3, "Resize/carry-over", x.PosOf(rs.Pos()), "cannot find how the kept entries are carried over")
		}
	}
	c.Min(r3, 1)
}
