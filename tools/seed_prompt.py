#!/usr/bin/env python3
"""Writes the prompt given to an independent seeding sub-agent for one property (nothing from /verif's checks is included)."""
import json, sys
pid, wt, out = sys.argv[1], sys.argv[2], sys.argv[3]
p = next(json.loads(l) for l in open("/verif/properties.jsonl") if json.loads(l)["id"] == pid)
mech = "\n".join(f"  - {m.get('name','')} ({m.get('where','')})" for m in p["anchors"].get("mechanism", []))
print(f"""You are helping to evaluate a verification tool for the open-source Go project honeycombio/refinery (a tail-based trace sampling proxy).
You have your own scratch git worktree of the repository at {wt} (a detached checkout of the pinned commit). Work ONLY inside {wt} and {out}. Do not read or write /verif, /repo or other /tmp/seed directories.

PROPERTY {pid}: {p['title']}
Statement: {p['statement']}
Quantifier: {p['quantifier']['text']}
Why the existing tests cannot settle it: {p['why_tests_cant']}
Relevant files: {', '.join(p['anchors']['files'])}
Mechanisms meant to make it hold:
{mech}

TASK: produce THREE independent, realistic source changes to the repository (each one separately, starting from the pristine tree) that BREAK this property while the repository still compiles and the existing test suite still passes. Think of them as plausible regressions a developer could introduce in a refactoring, optimisation or feature change - not sabotage that ordinary use would expose at once. Each change should need something specific to manifest: a particular interleaving, a fault at a particular point, a multi-step sequence of operations, an unusual input or configuration, or two cooperating sites that each look fine alone. Prefer changes in different functions / different mechanisms of the property for the three. Keep each change small (a few lines to a few dozen), touching only non-test .go files (or the embedded metadata/templates if the property is about those).

For each change k in 1..3 create the directory {out}/{pid}-k/ containing:
  - patch.diff : `git diff` of the change against the pristine worktree (non-test files only)
  - a demonstration: a Go test file (name it demo_test.go and say in NOTES.md which package directory it must be copied into) or a small program, which FAILS with the change applied and PASSES without it. The demonstration must not be part of patch.diff.
  - NOTES.md : which clause of the property it breaks, why the existing tests do not notice, what it needs to manifest, and the exact commands you ran with their outcome.

How to build and test (offline sandbox, no network):
  cd {wt} && GOFLAGS=-mod=mod go build ./... 
  python3 /tmp/seed/stable_tests.py {wt}            # runs the suite (minus the redis-only pubsub package) and compares with the pinned list of stable tests; must print 'not passing: 0'
  python3 /tmp/seed/stable_tests.py {wt} github.com/honeycombio/refinery/collect   # restrict to packages while iterating
  GOFLAGS=-mod=mod go test -vet=off -count=1 -run 'TestDemo' ./collect/    # run your demonstration
Verify all of: (a) with the patch, build OK and stable tests 'not passing: 0' (run the full stable_tests.py at least once per change, without your demo file present); (b) demo fails with the patch; (c) demo passes on the pristine tree. After finishing each change, restore the worktree to pristine (`git checkout -- . && git clean -fd`) before starting the next. At the very end leave the worktree pristine.
Do not commit anything. Reply with a short summary listing the three changes (file/function and the idea) and confirming (a)(b)(c) for each.""")
