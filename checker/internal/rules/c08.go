package rules

import (
	"go/token"
	"strings"

	"golang.org/x/tools/go/ssa"

	"refcheck/internal/eng"
)

func init() { Register("C08", c08) }

// matchesCallSites: dynamic calls through the field RulesBasedSamplerCondition.Matches.
func matchesCallSites(funcs []*ssa.Function) []eng.Site {
	mf := eng.FieldIs("config", "RulesBasedSamplerCondition", "Matches")
	var out []eng.Site
	for _, f := range funcs {
		eng.Instrs(f, func(in ssa.Instruction) {
			c, ok := in.(*ssa.Call)
			if !ok || c.Call.IsInvoke() || c.Call.StaticCallee() != nil {
				return
			}
			if loadsField(c.Call.Value, mf) {
				out = append(out, eng.Site{Fn: f, Instr: in})
			}
		})
	}
	return out
}

func c08(x *Ctx) {
	c := x.C
	c.Explanation = "C08 (rules sampler semantics): decides (1) the first matching rule in configuration order answers – no path continues the rule loop after a match, the loop is a range in slice order, the fall-through keeps at rate 1; (2) span-scope matching is used exactly under Scope 'span', trace-scope under 'trace' or ''; (3) the operator and datatype tables agree between the documented choices, the declared constants, the typed-matcher switch and the untyped fallback; (4) a condition on a field absent from the span cannot match unless the operator is not-exists – either every matcher literal returns false under exists=false or every call site refuses absent values; (5) a drop rule never keeps, a downstream sampler is the one stored under the rule, otherwise rate = rule.SampleRate."
	c.NotCovered = "the comparison semantics of each typed matcher on concrete values; extractValueFromSpan's field order and nested-field lookup (value-level)."

	gs := x.Fn("C08.first-match", "sample", "RulesBasedSampler", "GetSampleRate")
	const nSpanM, nTraceM = "sample.ruleMatchesSpanInTrace", "sample.ruleMatchesTrace"
	if gs != nil {
		// ---- clause 1 -----------------------------------------------------------
		const r1 = "C08.first-match"
		rulesF := eng.FieldIs("config", "RulesBasedSamplerConfig", "Rules")
		matchCalls := callsIn(gs, nSpanM, nTraceM)
		var hdr *ssa.BasicBlock
		for _, mc := range matchCalls {
			c.Examined++
			h := loopHeader(mc)
			hdr = h
			ruleArg := eng.CallArgs(mc)[1]
			inOrder := false
			eng.Derives(ruleArg, func(v ssa.Value) bool {
				if ia, ok := v.(*ssa.IndexAddr); ok && isRangeIndex(ia.Index) {
					if _, ok := eng.Derives(ia.X, func(w ssa.Value) bool { return loadsField(w, rulesF) }, eng.FlowOpts{}); ok {
						inOrder = true
					}
				}
				return false
			}, eng.FlowOpts{})
			if h == nil || !inOrder {
				c.Violate(r1, "GetSampleRate/"+eng.MethodBase(eng.CalleeName(mc))+"/order", x.Pos(mc), "the rule being matched is not the element of an ascending range over Config.Rules: rules are not tried in configuration order")
				continue
			}
			as := &eng.Assume{Bool: func(v ssa.Value) eng.Tri {
				if v == mc.(ssa.Value) {
					return eng.True
				}
				return eng.Unknown
			}}
			r := eng.Explore(eng.Query{Fn: gs, Assume: as, Start: mc, Classify: func(in ssa.Instruction, _ eng.Facts) eng.Event {
				if in == h.Instrs[0] {
					return eng.EvSink
				}
				return eng.EvNone
			}})
			c.Examined += r.States
			if len(r.Hits) > 0 {
				o := c.Violate(r1, "GetSampleRate/"+eng.MethodBase(eng.CalleeName(mc))+"/return-on-match", x.Pos(mc), "after a rule matched a path continues with the next rule: a later rule can answer instead of the first matching one")
				o.Path = eng.DescribePath(x.P.Pos, r.Hits[0].Path)
			} else {
				c.Hold(r1, "GetSampleRate/"+eng.MethodBase(eng.CalleeName(mc))+"/return-on-match", x.Pos(mc), "match ⇒ return before the next rule")
			}
		}
		// fall-through
		if hdr != nil {
			for _, s := range hdr.Succs {
				if eng.BlockReaches(s, hdr) {
					continue
				}
				// loop-done successor: must return (1, true, …)
				r := eng.Explore(eng.Query{Fn: gs, Start: hdr.Instrs[len(hdr.Instrs)-1], Assume: &eng.Assume{Bool: func(v ssa.Value) eng.Tri {
					if iff, ok := hdr.Instrs[len(hdr.Instrs)-1].(*ssa.If); ok && v == iff.Cond {
						if hdr.Succs[0] == s {
							return eng.True
						}
						return eng.False
					}
					return eng.Unknown
				}}})
				ok := len(r.Exits) > 0
				var at ssa.Instruction
				for _, e := range r.Exits {
					ret, isRet := e.Instr.(*ssa.Return)
					if !isRet {
						continue
					}
					at = ret
					rate, okR := eng.ConstInt(ret.Results[0])
					if !okR || rate != 1 || e.Facts.Bool(ret.Results[1]) != eng.True {
						ok = false
					}
				}
				p := x.PosOf(gs.Pos())
				if at != nil {
					p = x.Pos(at)
				}
				c.Decide(ok, r1, "GetSampleRate/no-rule-matched", p, "no rule matched ⇒ keep at rate 1", "when no rule matches the trace is not kept at rate 1")
			}
		}
		c.Min(r1, 3)

		// ---- clause 2: scope dispatch ----------------------------------------------
		const r2 = "C08.scope-dispatch"
		scopeF := eng.FieldIs("config", "RulesBasedSamplerRule", "Scope")
		scopeIs := func(vals map[string]eng.Tri) *eng.Assume {
			return &eng.Assume{Bool: func(v ssa.Value) eng.Tri {
				b, ok := v.(*ssa.BinOp)
				if !ok || (b.Op != token.EQL && b.Op != token.NEQ) {
					return eng.Unknown
				}
				var other ssa.Value
				if loadsField(b.X, scopeF) {
					other = b.Y
				} else if loadsField(b.Y, scopeF) {
					other = b.X
				}
				if other == nil {
					return eng.Unknown
				}
				s, ok := eng.ConstString(other)
				if !ok {
					return eng.Unknown
				}
				t, ok := vals[s]
				if !ok {
					t = eng.False
				}
				if b.Op == token.NEQ {
					return t.Not()
				}
				return t
			}}
		}
		type sc struct {
			name   string
			vals   map[string]eng.Tri
			expect string
		}
		for _, s := range []sc{
			{"span", map[string]eng.Tri{"span": eng.True}, nSpanM},
			{"trace", map[string]eng.Tri{"trace": eng.True}, nTraceM},
			{"unset", map[string]eng.Tri{"": eng.True}, nTraceM},
		} {
			var start ssa.Instruction
			if hdr != nil {
				if b := loopBody(hdr); b != nil {
					start = b.Instrs[0]
				}
			}
			r := eng.Explore(eng.Query{Fn: gs, Assume: scopeIs(s.vals), Start: start, Classify: func(in ssa.Instruction, _ eng.Facts) eng.Event {
				if hdr != nil && in == hdr.Instrs[0] {
					return eng.EvKill
				}
				if _, ok := eng.IsCall(in, nSpanM, nTraceM); ok {
					return eng.EvSink
				}
				return eng.EvNone
			}})
			c.Examined += r.States
			got := map[string]bool{}
			for _, h := range r.Hits {
				got[eng.CalleeName(h.Instr.(ssa.CallInstruction))] = true
			}
			c.Decide(len(got) == 1 && got[s.expect], r2, "GetSampleRate/scope-"+s.name, x.PosOf(gs.Pos()), "Scope "+s.name+" ⇒ "+eng.MethodBase(s.expect),
				"with Scope '"+s.name+"' the rule is not evaluated by "+eng.MethodBase(s.expect)+" only")
		}
		c.Min(r2, 3)

		// ---- clause 5: drop / delegate / rate -----------------------------------------
		const r5 = "C08.drop-delegate-rate"
		dropF := eng.FieldIs("config", "RulesBasedSamplerRule", "Drop")
		samplerF := eng.FieldIs("config", "RulesBasedSamplerRule", "Sampler")
		rateF := eng.FieldIs("config", "RulesBasedSamplerRule", "SampleRate")
		mkAs := func(samplerNil eng.Tri, drop eng.Tri) *eng.Assume {
			return &eng.Assume{
				Nil: func(v ssa.Value) eng.Tri {
					if loadsField(v, samplerF) {
						return samplerNil
					}
					return eng.Unknown
				},
				Bool: func(v ssa.Value) eng.Tri {
					if loadsField(v, dropF) {
						return drop
					}
					for _, mc := range matchCalls {
						if v == mc.(ssa.Value) {
							return eng.True
						}
					}
					return eng.Unknown
				},
			}
		}
		if len(matchCalls) > 0 {
			start := matchCalls[0]
			// drop rule without a downstream sampler never keeps
			r := eng.Explore(eng.Query{Fn: gs, Assume: mkAs(eng.True, eng.True), Start: start, TrackPhi: func(*ssa.Phi) bool { return true }})
			ok, n := true, 0
			var at ssa.Instruction
			for _, e := range r.Exits {
				if ret, isRet := e.Instr.(*ssa.Return); isRet {
					n++
					if e.Facts.Bool(e.Facts.Resolve(ret.Results[1])) != eng.False && e.Facts.Bool(ret.Results[1]) != eng.False {
						ok, at = false, ret
					}
				}
			}
			p := x.Pos(start)
			if at != nil {
				p = x.Pos(at)
			}
			c.Decide(ok && n > 0, r5, "GetSampleRate/drop-rule", p, "Drop ⇒ keep=false", "a matching rule with Drop: true can still return keep=true")
			// no downstream sampler: rate = rule.SampleRate
			r = eng.Explore(eng.Query{Fn: gs, Assume: mkAs(eng.True, eng.False), Start: start, TrackPhi: func(*ssa.Phi) bool { return true }})
			ok, n = true, 0
			for _, e := range r.Exits {
				if ret, isRet := e.Instr.(*ssa.Return); isRet {
					n++
					rate := e.Facts.Resolve(ret.Results[0])
					_, fromRule := eng.Derives(rate, func(v ssa.Value) bool { return loadsField(v, rateF) }, eng.FlowOpts{Stop: func(v ssa.Value) bool { _, p := v.(*ssa.Phi); return p }})
					if !fromRule {
						ok, at = false, ret
					}
				}
			}
			c.Decide(ok && n > 0, r5, "GetSampleRate/rate-from-rule", x.Pos(start), "no downstream sampler ⇒ rate = rule.SampleRate", "a matching rule without a downstream sampler does not answer with its own SampleRate")
			// downstream sampler: the one stored under rule.String()
			r = eng.Explore(eng.Query{Fn: gs, Assume: mkAs(eng.False, eng.False), Start: start, TrackPhi: func(*ssa.Phi) bool { return true }})
			ok, n = true, 0
			for _, e := range r.Exits {
				ret, isRet := e.Instr.(*ssa.Return)
				if !isRet {
					continue
				}
				n++
				rate := e.Facts.Resolve(ret.Results[0])
				if k, isC := eng.ConstInt(rate); isC && k == 1 && e.Facts.Bool(ret.Results[1]) == eng.True {
					continue // "bad rule" fallback: keep at 1
				}
				ex, isEx := rate.(*ssa.Extract)
				good := false
				if isEx && isExtractOf(ex, 0, nSamplerRate) {
					recv := ex.Tuple.(*ssa.Call).Call.Value
					_, good = eng.Derives(recv, func(v ssa.Value) bool {
						lk, ok := v.(*ssa.Lookup)
						if !ok {
							return false
						}
						return loadsField(lk.X, eng.FieldIs("sample", "RulesBasedSampler", "samplers")) && isCallValue(lk.Index, "(*config.RulesBasedSamplerRule).String")
					}, eng.FlowOpts{})
				}
				if !good {
					ok, at = false, ret
				}
			}
			c.Decide(ok && n > 0, r5, "GetSampleRate/delegate", x.Pos(start), "downstream sampler looked up under rule.String() answers", "a rule with a downstream sampler is not answered by the sampler registered for that rule")
		}
		c.Min(r5, 3)
	}

	// ---- clause 3: operator / datatype tables -----------------------------------------
	const r3 = "C08.operator-tables"
	declared := toSet(nil)
	for _, v := range x.constBlocks("config", "EQ", "Contains") {
		declared[v] = true
	}
	var documented map[string]bool
	var docTypes map[string]bool
	if meta := x.loadMeta(r3, "config/metadata/rulesMeta.yaml"); meta != nil {
		if f := meta.Field("Conditions", "Operator"); f != nil {
			documented = toSet(f.Choices)
		} else {
			c.Unresolved(r3, "rulesMeta/Conditions.Operator", "operator choices not found in rulesMeta.yaml")
		}
		if f := meta.Field("Conditions", "Datatype"); f != nil {
			docTypes = toSet(f.Choices)
		}
	}
	smf := x.Fn(r3, "config", "RulesBasedSamplerCondition", "setMatchesFunction")
	var implemented map[string]bool
	var compareOps []string
	if smf != nil {
		ts := x.switches(x.pkgOf(smf), smf.Syntax(), func(tag string) bool { return strings.HasSuffix(tag, ".Operator") })
		if len(ts) != 1 {
			c.Undecided(r3, "setMatchesFunction/switch", x.PosOf(smf.Pos()), sprintf("expected one switch on the operator, found %d", len(ts)))
		} else {
			implemented = toSet(ts[0].Sorted())
			for i, cl := range ts[0].Clauses {
				// operators delegated to setCompareOperators may leave Matches nil
				body := ts[0].Bodies[i]
				txt := false
				for _, st := range body.Body {
					if strings.Contains(nodeString(x, st), "setCompareOperators") {
						txt = true
					}
				}
				if txt {
					compareOps = append(compareOps, cl...)
				}
			}
		}
	}
	if documented != nil && implemented != nil {
		c.Examined += len(documented) + len(implemented) + len(declared)
		d1, d2 := setDiff(documented, implemented), setDiff(implemented, documented)
		c.Decide(len(d1) == 0 && len(d2) == 0, r3, "documented=implemented", x.PosOf(smf.Pos()), sprintf("%d operators documented and handled by setMatchesFunction", len(documented)),
			"operators documented but not handled: ["+quoteList(d1)+"]; handled but not documented: ["+quoteList(d2)+"]")
		d3, d4 := setDiff(declared, implemented), setDiff(implemented, declared)
		c.Decide(len(d3) == 0 && len(d4) == 0, r3, "declared=implemented", x.PosOf(smf.Pos()), "operator constants = case labels",
			"operator constants without a case: ["+quoteList(d3)+"]; case labels that are no declared operator: ["+quoteList(d4)+"]")
	}
	if cmv := x.Fn(r3, "sample", "", "conditionMatchesValue"); cmv != nil {
		ts := x.switches(x.pkgOf(cmv), cmv.Syntax(), func(tag string) bool { return strings.HasSuffix(tag, ".Operator") })
		un := map[string]bool{}
		for _, t := range ts {
			for l := range t.Labels {
				un[l] = true
			}
		}
		miss := setDiff(toSet(compareOps), un)
		c.Decide(len(compareOps) > 0 && len(miss) == 0, r3, "untyped-fallback-covers-compare-operators", x.PosOf(cmv.Pos()), sprintf("%d comparison operators have an untyped fallback", len(compareOps)),
			"operators that can be left without a typed matcher (no Datatype) have no case in conditionMatchesValue: ["+quoteList(miss)+"] – such a condition silently never matches")
	}
	for _, fn := range []string{"setCompareOperators", "setInBasedOperators"} {
		f := x.Fn(r3, "config", "", fn)
		if f == nil || docTypes == nil {
			continue
		}
		ts := x.switches(x.pkgOf(f), f.Syntax(), func(tag string) bool { return strings.HasSuffix(tag, ".Datatype") })
		if len(ts) != 1 {
			c.Undecided(r3, fn+"/datatype-switch", x.PosOf(f.Pos()), sprintf("expected one switch on Datatype, found %d", len(ts)))
			continue
		}
		got := toSet(ts[0].Sorted())
		delete(got, "")
		miss, extra := setDiff(docTypes, got), setDiff(got, docTypes)
		c.Decide(len(miss) == 0 && len(extra) == 0, r3, fn+"/datatypes", x.PosOf(f.Pos()), "Datatype choices = case labels", "Datatype choices without a case: ["+quoteList(miss)+"]; cases that are not documented: ["+quoteList(extra)+"]")
	}
	c.Min(r3, 5)

	// ---- clause 4: an absent field never matches ----------------------------------------
	const r4 = "C08.absent-no-match"
	notExists, _ := x.constStr(r4, "config", "NotExists")
	opF := eng.FieldIs("config", "RulesBasedSamplerCondition", "Operator")
	// (a) call sites: is every dynamic call of Matches guarded against exists=false?
	sites := matchesCallSites(x.PkgFuncs("sample"))
	allGuarded := len(sites) > 0
	for _, s := range sites {
		c.Examined++
		call := s.Instr.(*ssa.Call)
		existsArg := call.Call.Args[1]
		as := &eng.Assume{Bool: func(v ssa.Value) eng.Tri {
			if v == existsArg {
				return eng.False
			}
			// operator is not not-exists
			if b, ok := v.(*ssa.BinOp); ok && (b.Op == token.EQL || b.Op == token.NEQ) {
				var other ssa.Value
				if loadsField(b.X, opF) {
					other = b.Y
				} else if loadsField(b.Y, opF) {
					other = b.X
				}
				if s, ok := eng.ConstString(other); other != nil && ok {
					t := eng.False
					if s != notExists {
						return eng.Unknown
					}
					if b.Op == token.NEQ {
						return t.Not()
					}
					return t
				}
			}
			return eng.Unknown
		}}
		// start where exists is defined
		var start ssa.Instruction
		if in, ok := existsArg.(ssa.Instruction); ok {
			start = in
		}
		r := eng.Explore(eng.Query{Fn: s.Fn, Assume: as, Start: start, Classify: func(in ssa.Instruction, _ eng.Facts) eng.Event {
			if in == s.Instr {
				return eng.EvSink
			}
			return eng.EvNone
		}})
		if len(r.Hits) > 0 {
			allGuarded = false
		}
	}
	// (b) the literals
	matchesF := eng.FieldIs("config", "RulesBasedSamplerCondition", "Matches")
	var lits []*ssa.Function
	seenLit := map[*ssa.Function]bool{}
	addLit := func(v ssa.Value) {
		eng.Derives(v, func(w ssa.Value) bool {
			if mc, ok := w.(*ssa.MakeClosure); ok {
				if f, ok := mc.Fn.(*ssa.Function); ok && !seenLit[f] {
					seenLit[f] = true
					lits = append(lits, f)
				}
			}
			if f, ok := w.(*ssa.Function); ok && f.Parent() != nil && !seenLit[f] {
				seenLit[f] = true
				lits = append(lits, f)
			}
			return false
		}, eng.FlowOpts{})
	}
	for _, w := range eng.FieldWrites(x.PkgFuncs("config"), matchesF) {
		addLit(w.Instr.(*ssa.Store).Val)
	}
	for _, lit := range lits {
		c.Examined++
		if len(lit.Params) != 2 {
			continue
		}
		key := BaseName(lit)
		// exempt the not-exists literal: installed only under Operator == not-exists
		exempt := false
		for _, w := range eng.FieldWrites([]*ssa.Function{lit.Parent()}, matchesF) {
			st := w.Instr.(*ssa.Store)
			uses := false
			eng.Derives(st.Val, func(v ssa.Value) bool {
				if mc, ok := v.(*ssa.MakeClosure); ok && mc.Fn == lit || v == ssa.Value(lit) {
					uses = true
				}
				return false
			}, eng.FlowOpts{})
			if !uses {
				continue
			}
			as := &eng.Assume{Bool: func(v ssa.Value) eng.Tri {
				if b, ok := v.(*ssa.BinOp); ok && b.Op == token.EQL {
					var other ssa.Value
					if loadsField(b.X, opF) {
						other = b.Y
					} else if loadsField(b.Y, opF) {
						other = b.X
					}
					if s, ok := eng.ConstString(other); other != nil && ok && s == notExists {
						return eng.False
					}
				}
				return eng.Unknown
			}}
			r := eng.ReachableSinks(lit.Parent(), as, nil, func(in ssa.Instruction) bool { return in == ssa.Instruction(st) })
			if len(r.Hits) == 0 {
				exempt = true
			}
		}
		if exempt {
			c.Hold(r4, key, x.PosOf(lit.Pos()), "matcher for not-exists: matches exactly when the field is absent")
			continue
		}
		existsP := lit.Params[1]
		as := &eng.Assume{Bool: func(v ssa.Value) eng.Tri {
			if v == ssa.Value(existsP) {
				return eng.False
			}
			return eng.Unknown
		}}
		r := eng.Explore(eng.Query{Fn: lit, Assume: as, TrackPhi: func(*ssa.Phi) bool { return true }})
		bad := false
		for _, e := range r.Exits {
			if ret, ok := e.Instr.(*ssa.Return); ok && len(ret.Results) == 1 {
				if e.Facts.Bool(e.Facts.Resolve(ret.Results[0])) != eng.False && e.Facts.Bool(ret.Results[0]) != eng.False {
					bad = true
				}
			}
		}
		switch {
		case !bad:
			c.Hold(r4, key, x.PosOf(lit.Pos()), "returns false when the field is absent")
		case allGuarded:
			c.Hold(r4, key, x.PosOf(lit.Pos()), "ignores `exists`, but every call site refuses absent values unless the operator is not-exists")
		default:
			c.Violate(r4, key, x.PosOf(lit.Pos()), "this matcher ignores `exists` and no call site guards it: a condition on a field that is absent from the span can match (the nil value is coerced, e.g. to \"<nil>\"), although the documentation says an absent field never matches unless the operator is not-exists")
		}
	}
	c.Min(r4, 25)
	// untyped fallback: exists=false matches only for not-exists
	if cmv := x.P.Func("sample", "", "conditionMatchesValue"); cmv != nil && len(cmv.Params) == 3 {
		existsP := cmv.Params[2]
		as := &eng.Assume{Bool: func(v ssa.Value) eng.Tri {
			if v == ssa.Value(existsP) {
				return eng.False
			}
			if b, ok := v.(*ssa.BinOp); ok && b.Op == token.EQL {
				var other ssa.Value
				if loadsField(b.X, opF) {
					other = b.Y
				} else if loadsField(b.Y, opF) {
					other = b.X
				}
				if s, ok := eng.ConstString(other); other != nil && ok && s == notExists {
					return eng.False
				}
			}
			return eng.Unknown
		}}
		r := eng.Explore(eng.Query{Fn: cmv, Assume: as, TrackPhi: func(*ssa.Phi) bool { return true }})
		bad := false
		for _, e := range r.Exits {
			if ret, ok := e.Instr.(*ssa.Return); ok {
				if e.Facts.Bool(e.Facts.Resolve(ret.Results[0])) != eng.False && e.Facts.Bool(ret.Results[0]) != eng.False {
					bad = true
				}
			}
		}
		c.Decide(!bad, r4, "conditionMatchesValue/untyped", x.PosOf(cmv.Pos()), "untyped fallback: absent ⇒ no match unless not-exists", "the untyped comparison can match an absent field for an operator other than not-exists")
	}

	// ---- the key under which a rule's downstream sampler is kept identifies the rule completely -----------------
	// (the rules sampler stores and finds the delegate of a rule under rule.String(); two rules must never share it)
	const rKey = "C08.downstream-key-complete"
	if sf := x.P.Func("config", "RulesBasedSamplerRule", "String"); sf != nil && sf.Blocks != nil && len(sf.Params) >= 1 {
		c.Examined++
		recv := sf.Params[0]
		whole := false
		for _, rv := range returnedValues(sf, 0) {
			if _, d := eng.Derives(rv, func(v ssa.Value) bool {
				// the whole struct value (a load of *r, boxed for fmt), not a selection of its fields
				u, ok := v.(*ssa.UnOp)
				return ok && u.Op == token.MUL && u.X == ssa.Value(recv)
			}, eng.FlowOpts{ThroughCalls: true}); d {
				whole = true
			}
		}
		c.Decide(whole, rKey, "RulesBasedSamplerRule.String", x.PosOf(sf.Pos()), "the key renders the whole rule value (including its sampler pointer)",
			"RulesBasedSamplerRule.String() – the key of the rules sampler's delegate map – is built from a selection of fields instead of the whole rule: two rules with the same name/scope/shape but different downstream samplers share one entry, and the first matching rule's trace is handed to the other rule's sampler")
	} else {
		c.Unresolved(rKey, "config.RulesBasedSamplerRule.String", "method not found")
	}
	// the untyped comparison keeps integers exact (shared with C09)
	x.integerCompareExact("C08.integer-compare-exact")
	// field extraction with the root. prefix: the stop-at-the-first-span shortcut is sound (shared with C09)
	x.rootShortcutCarried("C08.root-shortcut-carried")
}
