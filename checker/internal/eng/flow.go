package eng

import (
	"go/token"
	"go/types"

	"golang.org/x/tools/go/ssa"
)

// E5 – intra-procedural provenance over SSA def-use chains.

// FlowOpts tunes Derives.
type FlowOpts struct {
	ThroughCalls bool // a call's result derives from its arguments and receiver
	// At, when set, makes loads from local allocs / struct fields flow-sensitive:
	// only stores that may precede At are considered.
	At ssa.Instruction
	// Stop prevents traversal through a value.
	Stop func(ssa.Value) bool
	// InterProc: follow parameters into the arguments of repository call sites (set by rules through Callers).
	Callers func(p *ssa.Parameter) []ssa.Value
}

// Derives reports whether v derives (backwards through def-use) from a value
// satisfying pred, and returns the witness.
func Derives(v ssa.Value, pred func(ssa.Value) bool, o FlowOpts) (ssa.Value, bool) {
	seen := map[ssa.Value]bool{}
	// ref is the load through which the current memory location is being read:
	// with o.At set (flow-sensitive mode) a load sees only stores that may precede it.
	var ref ssa.Instruction
	visible := func(st *ssa.Store) bool {
		if o.At == nil || ref == nil {
			return true
		}
		if st.Parent() != ref.Parent() {
			return true
		}
		return MayPrecede(st, ref)
	}
	var walk func(v ssa.Value, depth int) (ssa.Value, bool)
	walk = func(v ssa.Value, depth int) (ssa.Value, bool) {
		if v == nil || seen[v] || depth > 60 {
			return nil, false
		}
		seen[v] = true
		if pred(v) {
			return v, true
		}
		if o.Stop != nil && o.Stop(v) {
			return nil, false
		}
		try := func(xs ...ssa.Value) (ssa.Value, bool) {
			for _, x := range xs {
				if w, ok := walk(x, depth+1); ok {
					return w, true
				}
			}
			return nil, false
		}
		switch x := v.(type) {
		case *ssa.Phi:
			return try(x.Edges...)
		case *ssa.UnOp:
			if x.Op == token.MUL {
				// load: from alloc / field address → stores to the same address
				saved := ref
				ref = x
				defer func() { ref = saved }()
				if w, ok := walk(x.X, depth+1); ok {
					return w, true
				}
				for _, st := range StoresTo(x.X, x) {
					if o.At != nil && !MayPrecede(st, x) {
						continue
					}
					if w, ok := walk(st.Val, depth+1); ok {
						return w, true
					}
				}
				return nil, false
			}
			return try(x.X)
		case *ssa.BinOp:
			return try(x.X, x.Y)
		case *ssa.Convert:
			return try(x.X)
		case *ssa.ChangeType:
			return try(x.X)
		case *ssa.ChangeInterface:
			return try(x.X)
		case *ssa.MakeInterface:
			return try(x.X)
		case *ssa.SliceToArrayPointer:
			return try(x.X)
		case *ssa.TypeAssert:
			return try(x.X)
		case *ssa.Extract:
			return try(x.Tuple)
		case *ssa.Field:
			return try(x.X)
		case *ssa.FieldAddr:
			return try(x.X)
		case *ssa.Index:
			return try(x.X)
		case *ssa.IndexAddr:
			return try(x.X)
		case *ssa.Lookup:
			return try(x.X)
		case *ssa.Slice:
			return try(x.X)
		case *ssa.Next:
			return try(x.Iter)
		case *ssa.Range:
			return try(x.X)
		case *ssa.Call:
			if _, isBuiltin := x.Call.Value.(*ssa.Builtin); isBuiltin {
				return try(x.Call.Args...)
			}
			if o.ThroughCalls {
				if x.Call.IsInvoke() {
					if w, ok := walk(x.Call.Value, depth+1); ok {
						return w, true
					}
				}
				return try(x.Call.Args...)
			}
		case *ssa.Parameter:
			if o.Callers != nil {
				return try(o.Callers(x)...)
			}
		case *ssa.Alloc:
			// value stored into the alloc (address-taken locals), or into an element /
			// field of it (varargs arrays, composite literals)
			for _, st := range StoresTo(x, nil) {
				if !visible(st) {
					continue
				}
				if w, ok := walk(st.Val, depth+1); ok {
					return w, true
				}
			}
			if fn := x.Parent(); fn != nil {
				var vals []ssa.Value
				Instrs(fn, func(in ssa.Instruction) {
					st, ok := in.(*ssa.Store)
					if !ok || st.Addr == ssa.Value(x) || !visible(st) {
						return
					}
					a := st.Addr
					for i := 0; i < 4; i++ {
						switch y := a.(type) {
						case *ssa.IndexAddr:
							a = y.X
						case *ssa.FieldAddr:
							a = y.X
						}
					}
					if a == ssa.Value(x) {
						vals = append(vals, st.Val)
					}
				})
				for _, v := range vals {
					if w, ok := walk(v, depth+1); ok {
						return w, true
					}
				}
			}
		case *ssa.FreeVar:
			// captured variable: look at the binding in the parent
			fn := x.Parent()
			if fn != nil && fn.Parent() != nil {
				for i, fv := range fn.FreeVars {
					if fv == x {
						var out ssa.Value
						found := false
						Instrs(fn.Parent(), func(in ssa.Instruction) {
							if mc, ok := in.(*ssa.MakeClosure); ok && mc.Fn == fn && i < len(mc.Bindings) && !found {
								if w, ok := walk(mc.Bindings[i], depth+1); ok {
									out, found = w, true
								}
							}
						})
						if found {
							return out, true
						}
					}
				}
			}
		}
		return nil, false
	}
	return walk(v, 0)
}

// StoresTo finds stores in the same function to the same address expression:
// the identical SSA address value, or a FieldAddr of the same field on the same
// base value (go/ssa does not CSE FieldAddr).
func StoresTo(addr ssa.Value, _ ssa.Instruction) []*ssa.Store {
	fn := addr.Parent()
	if fn == nil {
		return nil
	}
	var out []*ssa.Store
	fr, base, isField := FieldRefOf(addr)
	Instrs(fn, func(in ssa.Instruction) {
		st, ok := in.(*ssa.Store)
		if !ok {
			return
		}
		if st.Addr == addr {
			out = append(out, st)
			return
		}
		if isField {
			if fr2, base2, ok := FieldRefOf(st.Addr); ok && fr2.Var == fr.Var && sameBase(base, base2) {
				out = append(out, st)
			}
		}
	})
	return out
}

func sameBase(a, b ssa.Value) bool {
	if a == b {
		return true
	}
	// loads of the same local alloc / same field chain
	la, oka := a.(*ssa.UnOp)
	lb, okb := b.(*ssa.UnOp)
	if oka && okb && la.Op == token.MUL && lb.Op == token.MUL {
		if la.X == lb.X {
			return true
		}
		fa, ba, ok1 := FieldRefOf(la.X)
		fb, bb, ok2 := FieldRefOf(lb.X)
		if ok1 && ok2 && fa.Var == fb.Var {
			return sameBase(ba, bb)
		}
	}
	fa, ba, ok1 := FieldRefOf(a)
	fb, bb, ok2 := FieldRefOf(b)
	if ok1 && ok2 && fa.Var == fb.Var {
		return sameBase(ba, bb)
	}
	return false
}

// SameObject reports whether two SSA values denote the same object modulo
// reloads of the same variable/field chain.
func SameObject(a, b ssa.Value) bool { return sameBase(a, b) }

// IsConstString returns the constant string value of v.
func ConstString(v ssa.Value) (string, bool) {
	c, ok := v.(*ssa.Const)
	if !ok || c.Value == nil {
		return "", false
	}
	if b, ok := c.Type().Underlying().(*types.Basic); ok && b.Info()&types.IsString != 0 {
		return constantString(c), true
	}
	return "", false
}

func constantString(c *ssa.Const) string {
	return constantStringVal(c)
}
