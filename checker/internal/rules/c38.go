package rules

import (
	"fmt"
	"go/ast"
	"regexp"
	"strconv"
	"strings"
	"text/template/parse"
)

func init() { Register("C38", c38) }

type tmplCall struct {
	Group, Helper, Name, Old string
	Line                     int
}

func c38(x *Ctx) {
	c := x.C
	c.Explanation = "C38 (the config converter preserves v1 settings): the conversion is driven by the checked-in template tools/convert/templates/configV2.tmpl, which is generated from configMeta.yaml. Decides that the template is current and complete: for every metadata field the generator emits (group and field without lastversion, field not unpublished) the template contains, under the same group, the call its valuetype produces – same helper, same v2 name, same v1 source (v1group.v1name, v1name or the v2 name) – with no call left over; every helper used is registered; every valuetype in the metadata has an arm in the field generator template."
	c.NotCovered = "what each helper does with a value (nonDefaultOnly, secondsToDuration, …), validity of the output under v2 validation, default/example arguments of the calls, and the rules converter (value-level)."
	const r = "C38.template-current"
	meta := x.loadMeta(r, "config/metadata/configMeta.yaml")
	if meta == nil {
		return
	}
	read := func(rel string) (string, bool) {
		b, err := x.P.ReadFile(rel)
		if err != nil {
			c.Unresolved(r, rel, "cannot read "+rel)
			return "", false
		}
		return string(b), true
	}
	// helper names registered in helpers()
	helperNames := map[string]any{}
	if f, pk := x.P.FileAST("tools/convert/helpers.go"); f != nil && pk != nil {
		ast.Inspect(f, func(n ast.Node) bool {
			fd, ok := n.(*ast.FuncDecl)
			if !ok || fd.Name.Name != "helpers" {
				return true
			}
			ast.Inspect(fd, func(m ast.Node) bool {
				if kv, ok := m.(*ast.KeyValueExpr); ok {
					if bl, ok := kv.Key.(*ast.BasicLit); ok {
						if s, err := strconv.Unquote(bl.Value); err == nil {
							helperNames[s] = func() {}
						}
					}
				}
				return true
			})
			return false
		})
	}
	if len(helperNames) < 10 {
		c.Unresolved(r, "tools/convert/helpers.go:helpers", "cannot read the registered template helpers")
		return
	}
	builtins := map[string]any{}
	for _, b := range []string{"and", "call", "html", "index", "slice", "js", "len", "not", "or", "print", "printf", "println", "urlquery", "eq", "ge", "gt", "le", "lt", "ne"} {
		builtins[b] = func() {}
	}
	// ---- arms of genfield.tmpl ----------------------------------------------------------------
	armHelper := map[string]string{}
	if gf, ok := read("tools/convert/templates/genfield.tmpl"); ok {
		// the arm for valuetype V calls helper H: {{- else if eq $field.ValueType "V" }} … printf "H .Data …
		re := regexp.MustCompile(`eq \$field\.ValueType "(\w+)"\s*\}\}`)
		locs := re.FindAllStringSubmatchIndex(gf, -1)
		for i, loc := range locs {
			end := len(gf)
			if i+1 < len(locs) {
				end = locs[i+1][0]
			}
			m := []string{"", gf[loc[2]:loc[3]], gf[loc[1]:end]}
			if j := strings.Index(m[2], "{{- else"); j >= 0 {
				m[2] = m[2][:j]
			}
			body := m[2]
			h := ""
			if mm := regexp.MustCompile(`printf "(\w+) \.Data`).FindStringSubmatch(body); mm != nil {
				h = mm[1]
			}
			armHelper[m[1]] = h
		}
		if _, err := parse.Parse("genfield.tmpl", gf, "", "", helperNames, builtins); err != nil {
			c.Violate("C38.generator-parses", "genfield.tmpl", "tools/convert/templates/genfield.tmpl", "the field generator template does not parse with the registered helpers: "+err.Error())
		}
	}
	if len(armHelper) < 8 {
		c.Undecided(r, "genfield.tmpl/arms", "tools/convert/templates/genfield.tmpl", "cannot read the valuetype arms of the generator template")
		return
	}
	if gg, ok := read("tools/convert/templates/gengroup.tmpl"); ok {
		okFilters := strings.Contains(gg, ".LastVersion") && strings.Contains(gg, ".Unpublished")
		c.Decide(okFilters, "C38.generator-filters", "gengroup.tmpl", "tools/convert/templates/gengroup.tmpl", "generator skips removed groups/fields and unpublished fields", "the group generator no longer filters on LastVersion/Unpublished: the expected set of template calls cannot be derived")
	}
	// ---- expected calls from the metadata --------------------------------------------------------
	type key struct{ g, h, n, o string }
	expected := map[key]string{}
	usedVT := map[string]bool{}
	for _, g := range meta.Groups {
		if g.LastVersion != "" {
			continue
		}
		for _, f := range g.Fields {
			if f.LastVersion != "" || f.Unpublished {
				continue
			}
			usedVT[f.ValueType] = true
			h, ok := armHelper[f.ValueType]
			if !ok {
				c.Violate("C38.valuetype-arms", "valuetype:"+f.ValueType, "config/metadata/configMeta.yaml", "metadata field "+g.Name+"."+f.Name+" has valuetype '"+f.ValueType+"' for which genfield.tmpl has no arm: the generated template contains an ERROR marker instead of a conversion")
				continue
			}
			if h == "" {
				continue // showexample / assigndefault: literal text, no v1 value is carried over
			}
			old := f.Name
			if f.V1Name != "" {
				old = f.V1Name
				if f.V1Group != "" {
					old = f.V1Group + "." + f.V1Name
				}
			}
			if f.ValueType == "conditional" {
				old = "*"
			}
			expected[key{g.Name, h, f.Name, old}] = g.Name + "." + f.Name
		}
	}
	for vt := range usedVT {
		_, ok := armHelper[vt]
		c.Decide(ok, "C38.valuetype-arms", "valuetype:"+vt, "tools/convert/templates/genfield.tmpl", "valuetype has a generator arm", "valuetype '"+vt+"' has no arm in genfield.tmpl")
	}
	// ---- calls present in the template ---------------------------------------------------------------
	tv, ok := read("tools/convert/templates/configV2.tmpl")
	if !ok {
		return
	}
	trees, err := parse.Parse("configV2.tmpl", tv, "", "", helperNames, builtins)
	if err != nil {
		c.Violate("C38.helpers-registered", "configV2.tmpl", "tools/convert/templates/configV2.tmpl", "the conversion template does not parse with the registered helpers (a helper it uses is not registered, or the syntax is broken): "+err.Error())
		return
	}
	c.Hold("C38.helpers-registered", "configV2.tmpl", "tools/convert/templates/configV2.tmpl", "every function used by the template is registered in helpers()")
	tree := trees["configV2.tmpl"]
	var got []tmplCall
	group := ""
	groupRe := regexp.MustCompile(`(?m)^(\w+):\s*$`)
	lineOf := func(pos parse.Pos) int { return 1 + strings.Count(tv[:int(pos)], "\n") }
	var walk func(n parse.Node)
	walk = func(n parse.Node) {
		switch y := n.(type) {
		case *parse.ListNode:
			if y == nil {
				return
			}
			for _, ch := range y.Nodes {
				walk(ch)
			}
		case *parse.TextNode:
			for _, m := range groupRe.FindAllStringSubmatch(string(y.Text), -1) {
				group = m[1]
			}
		case *parse.ActionNode:
			for _, cmd := range y.Pipe.Cmds {
				if len(cmd.Args) < 3 {
					continue
				}
				id, ok := cmd.Args[0].(*parse.IdentifierNode)
				if !ok {
					continue
				}
				fld, ok := cmd.Args[1].(*parse.FieldNode)
				if !ok || strings.Join(fld.Ident, ".") != "Data" {
					continue
				}
				strs := []string{}
				for _, a := range cmd.Args[2:] {
					if s, ok := a.(*parse.StringNode); ok {
						strs = append(strs, s.Text)
					}
				}
				call := tmplCall{Group: group, Helper: id.Ident, Line: lineOf(y.Pos)}
				if len(strs) > 0 {
					call.Name = strs[0]
				}
				if len(strs) > 1 {
					call.Old = strs[1]
				}
				if id.Ident == "conditional" {
					call.Old = "*"
				}
				got = append(got, call)
			}
		case *parse.IfNode:
			walk(y.List)
			walk(y.ElseList)
		case *parse.RangeNode:
			walk(y.List)
			walk(y.ElseList)
		case *parse.WithNode:
			walk(y.List)
			walk(y.ElseList)
		}
	}
	walk(tree.Root)
	seen := map[key]bool{}
	for _, g := range got {
		c.Examined++
		k := key{g.Group, g.Helper, g.Name, g.Old}
		pos := fmt.Sprintf("tools/convert/templates/configV2.tmpl:%d", g.Line)
		if _, ok := expected[k]; ok {
			seen[k] = true
			c.Hold(r, g.Group+"."+g.Name, pos, fmt.Sprintf("%s(%q ← %q) as generated from the metadata", g.Helper, g.Name, g.Old))
		} else {
			c.Violate(r, g.Group+"."+g.Name, pos, fmt.Sprintf("the template converts %s.%s with %s from v1 key %q, which is not what configMeta.yaml generates (stale or hand-edited template): the v1 value is mis-sourced or the setting no longer exists", g.Group, g.Name, g.Helper, g.Old))
		}
	}
	for k, name := range expected {
		if !seen[k] {
			c.Violate(r, name, "tools/convert/templates/configV2.tmpl", fmt.Sprintf("configMeta.yaml generates %s .Data %q %q under %s, but the checked-in template has no such call: the v1 setting is silently dropped by the converter", k.h, k.n, k.o, k.g))
		}
	}
	c.Info["expected_calls"] = len(expected)
	c.Info["template_calls"] = len(got)
	c.Min(r, 80)
}
