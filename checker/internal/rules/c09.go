package rules

import (
	"go/types"
	"sort"
	"strings"

	"golang.org/x/tools/go/ssa"

	"refcheck/internal/eng"
)

func init() { Register("C09", c09); Register("C11", c11) }

// numeric dynamic types the ingestion decoders can put into a span value
// (confirmed by reading tinylib/msgp ReadIntfBytes and the JSON path; the
// thorough tier re-derives the msgpack set from the library's SSA).
var decoderNumericTypes = []string{"int64", "uint64", "float32", "float64"}

func c09(x *Ctx) {
	c := x.C
	c.Explanation = "C09 (sampling independent of wire encoding and span order): decides (1) every numeric dynamic type the decoders can produce (int64, uint64, float32, float64 – msgpack signed/unsigned integers, 32/64-bit floats, JSON numbers) has a case in each consumer that branches on the dynamic type of a span value (sample.compare, config.tryConvertToInt, config.tryConvertToFloat), so that two encodings of the same number are not treated differently by a fall-through arm; (2) the values and fields that make up a dynamic key are sorted before they are emitted."
	c.NotCovered = "rule evaluation under permutation of spans (follows from C08's 'some span' semantics), OTLP translation in husky, float32→float64 widening of non-representable decimals."

	const r1 = "C09.type-table"
	producers := append([]string{}, decoderNumericTypes...)
	if x.P.Whole {
		// re-derive the producer set from the msgpack library
		var rib *ssa.Function
		for _, pk := range x.P.SSA.AllPackages() {
			if pk.Pkg.Path() == "github.com/tinylib/msgp/msgp" {
				rib = pk.Func("ReadIntfBytes")
			}
		}
		if rib == nil || rib.Blocks == nil {
			c.Unresolved(r1, "msgp.ReadIntfBytes", "cannot find the msgpack decoder in the whole-program SSA")
		} else {
			got := map[string]bool{}
			eng.Instrs(rib, func(in ssa.Instruction) {
				if mi, ok := in.(*ssa.MakeInterface); ok {
					got[typeString(mi.X.Type())] = true
				}
			})
			var numeric []string
			for t := range got {
				if b, ok := lookupBasic(t); ok && b.Info()&types.IsNumeric != 0 && b.Info()&types.IsComplex == 0 {
					numeric = append(numeric, t)
				}
			}
			sort.Strings(numeric)
			c.Info["msgpack_decoder_dynamic_types"] = keys(got)
			miss := setDiff(toSet(numeric), toSet(producers))
			c.Decide(len(miss) == 0, r1, "producer-table-current", "github.com/tinylib/msgp/msgp.ReadIntfBytes", "the checker's producer table covers what the library produces: "+strings.Join(numeric, ","),
				"msgp.ReadIntfBytes can produce numeric types missing from the checker's table: "+strings.Join(miss, ","))
			for _, m := range miss {
				producers = append(producers, m)
			}
		}
	}
	type consumer struct{ rel, recv, name string }
	for _, cs := range []consumer{{"sample", "", "compare"}, {"config", "", "tryConvertToInt"}, {"config", "", "tryConvertToFloat"}} {
		f := x.Fn(r1, cs.rel, cs.recv, cs.name)
		if f == nil {
			continue
		}
		// type switches on the first parameter (the span value)
		p0 := ""
		if len(f.Params) > 0 {
			p0 = f.Params[0].Name()
		}
		ts := x.switches(x.pkgOf(f), f.Syntax(), func(tag string) bool { return tag == p0+".(type)" })
		if len(ts) == 0 {
			c.Undecided(r1, cs.name+"/type-switch", x.PosOf(f.Pos()), "no type switch on the span value found (another dispatch idiom would need to be added)")
			continue
		}
		labels := map[string]bool{}
		for _, t := range ts {
			for l := range t.Labels {
				labels[l] = true
			}
		}
		for _, pt := range producers {
			c.Examined++
			c.Decide(labels[pt], r1, cs.name+":"+pt, x.PosOf(ts[0].Pos), "has a case for "+pt,
				cs.name+" has no case for "+pt+": a number the msgpack decoder delivers as "+pt+" falls to the no-match arm, so the same value sent as "+pt+" and as int64/float64 is sampled differently")
		}
	}
	c.Min(r1, 12)
	c09sorted(x, "C09.sorted-values")

	x.integerCompareExact("C09.integer-compare-exact")

	// ---- key stringification has no lossy numeric conversion --------------------------------------------
	// (a float64 squeezed through int64, or a wide integer through a narrower one, prints different digits
	// from the same number delivered as uint64/int64 by another encoding once it is out of range)
	const r3 = "C09.key-no-lossy-conversion"
	if af := x.Fn(r3, "sample", "distinctValue", "AddAsString"); af != nil {
		var bad *ssa.Convert
		eng.Instrs(af, func(in ssa.Instruction) {
			cv, ok := in.(*ssa.Convert)
			if !ok {
				return
			}
			from, ok1 := cv.X.Type().Underlying().(*types.Basic)
			to, ok2 := cv.Type().Underlying().(*types.Basic)
			if !ok1 || !ok2 {
				return
			}
			c.Examined++
			isF := func(b *types.Basic) bool { return b.Info()&types.IsFloat != 0 }
			isI := func(b *types.Basic) bool { return b.Info()&types.IsInteger != 0 }
			size := func(b *types.Basic) int64 { return types.SizesFor("gc", "amd64").Sizeof(b) }
			switch {
			case isF(from) && isI(to):
				bad = cv
			case isI(from) && isI(to) && size(to) < size(from):
				bad = cv
			case isI(from) && isI(to) && size(to) == size(from) && (from.Info()&types.IsUnsigned != 0) != (to.Info()&types.IsUnsigned != 0):
				bad = cv
			case isF(from) && isF(to) && size(to) < size(from):
				bad = cv
			}
		})
		if bad != nil {
			c.Violate(r3, "AddAsString", x.Pos(bad), "the key builder converts "+typeString(bad.X.Type())+" to "+typeString(bad.Type())+" before printing: values outside the target's range print different digits than the same number delivered in another wire type, so the sample key depends on the encoding")
		} else {
			c.Hold(r3, "AddAsString", x.PosOf(af.Pos()), "numbers are printed from their own type (or widened)")
		}
	}

	x.rootShortcutCarried("C09.root-shortcut-carried")
}

func lookupBasic(name string) (*types.Basic, bool) {
	for _, b := range types.Typ {
		if b != nil && b.Name() == name {
			return b, true
		}
	}
	return nil, false
}

func keys(m map[string]bool) []string {
	var out []string
	for k := range m {
		out = append(out, k)
	}
	sort.Strings(out)
	return out
}

// c09sorted: order independence of dynamic keys (shared by C09 clause 2 and C11).
func c09sorted(x *Ctx, rule string) {
	c := x.C
	if vf := x.Fn(rule, "sample", "distinctValue", "Values"); vf != nil {
		r := eng.Explore(eng.Query{Fn: vf, Classify: func(in ssa.Instruction, _ eng.Facts) eng.Event {
			if _, ok := eng.IsCall(in, "sort.Strings", "slices.Sort", "sort.Sort"); ok {
				return eng.EvSink
			}
			return eng.EvNone
		}})
		bad := false
		var at ssa.Instruction
		n := 0
		for _, e := range r.Exits {
			ret, ok := e.Instr.(*ssa.Return)
			if !ok || len(ret.Results) != 1 {
				continue
			}
			if cst, ok := ret.Results[0].(*ssa.Const); ok && cst.IsNil() {
				continue
			}
			n++
			if e.Sinks == 0 {
				bad, at = true, ret
			}
		}
		p := x.PosOf(vf.Pos())
		if at != nil {
			p = x.Pos(at)
		}
		c.Decide(!bad && n > 0, rule, "Values/sorted-before-return", p, "distinct values are sorted before they are returned", "distinct values are returned in map iteration order: the same trace yields different sample keys from run to run and between span orders")
	}
	if nk := x.Fn(rule, "sample", "", "newTraceKey"); nk != nil {
		// the stored field lists derive from a slice that was sorted
		var sorts []ssa.Instruction
		eng.Instrs(nk, func(in ssa.Instruction) {
			if _, ok := eng.IsCall(in, "sort.Strings", "slices.Sort"); ok {
				sorts = append(sorts, in)
			}
		})
		ok := false
		for _, s := range sorts {
			arg := eng.CallArgs(s.(ssa.CallInstruction))[0]
			// every range loop feeding the struct comes after the sort and ranges over the sorted slice
			feeds := 0
			eng.Instrs(nk, func(in ssa.Instruction) {
				if ia, isIA := in.(*ssa.IndexAddr); isIA && isRangeIndex(ia.Index) && (ia.X == arg || eng.SameObject(ia.X, arg)) && eng.Dominates(s, ia) {
					feeds++
				}
			})
			if feeds > 0 {
				ok = true
			}
		}
		c.Decide(ok, rule, "newTraceKey/fields-sorted", x.PosOf(nk.Pos()), "configured key fields are copied, sorted, then split", "the key's field list is used in configuration order: two equivalent configurations / reloads produce different keys")
	}
	if bf := x.Fn(rule, "sample", "traceKey", "build"); bf != nil {
		// strings written per field come from Values()
		n, ok := 0, true
		eng.Instrs(bf, func(in ssa.Instruction) {
			cl, isC := eng.IsCall(in, "(*bytes.Buffer).WriteString")
			if !isC {
				return
			}
			arg := eng.CallArgs(cl)[0]
			h := loopHeader(in)
			if h == nil {
				return
			}
			if rangeElemOf(arg, func(v ssa.Value) bool { return isCallValue(v, "(*sample.distinctValue).Values") }) {
				n++
				return
			}
			// other writes inside loops: root-only fields (formatted values) – see C11
			_ = ok
		})
		c.Decide(n > 0, rule, "build/values-from-sorted-set", x.PosOf(bf.Pos()), "per-field key parts are the sorted distinct values", "the key is not built from the sorted distinct values")
	}
}

func c11(x *Ctx) {
	c := x.C
	c.Explanation = "C11 (dynamic keys depend only on distinct field values): decides that distinct values are de-duplicated by value (a map keyed by the hash of the value's bytes), emitted sorted, that field order is the sorted configuration copy, that `root.` fields are read from the trace's root span only, that useTraceLength appends the span count, and – with C04 – that each dynsampler-backed sampler floors the rate before the random draw `rand.Intn(rate)`."
	c.NotCovered = "separation of distinct value sets under hash collisions and the 100-value cap arithmetic."
	c09sorted(x, "C11.sorted")
	c.Min("C11.sorted", 3)
	const rD = "C11.dedupe-by-value"
	if af := x.Fn(rD, "sample", "distinctValue", "AddAsString"); af != nil {
		n := 0
		eng.Instrs(af, func(in ssa.Instruction) {
			mu, ok := in.(*ssa.MapUpdate)
			if !ok {
				return
			}
			n++
			_, keyFromHash := eng.Derives(mu.Key, func(v ssa.Value) bool {
				cl, ok := v.(*ssa.Call)
				if !ok || !strings.HasSuffix(eng.CalleeName(cl), "wyhash.Hash") {
					return false
				}
				return loadsField(cl.Call.Args[0], eng.FieldIs("sample", "distinctValue", "buf"))
			}, eng.FlowOpts{})
			_, valFromBuf := eng.Derives(mu.Value, func(v ssa.Value) bool { return loadsField(v, eng.FieldIs("sample", "distinctValue", "buf")) }, eng.FlowOpts{})
			c.Decide(keyFromHash && valFromBuf, rD, "AddAsString/map-update", x.Pos(mu), "stored under the hash of the value's own bytes", "a distinct value is not stored under the hash of its own string form: duplicates or different values collapse")
		})
		if n == 0 {
			c.Violate(rD, "AddAsString/map-update", x.PosOf(af.Pos()), "no store of distinct values found")
		}
	}
	c.Min(rD, 1)
	const rR = "C11.root-fields-from-root"
	if bf := x.Fn(rR, "sample", "traceKey", "build"); bf != nil {
		rootOnly := eng.FieldIs("sample", "traceKey", "rootOnlyFields")
		rootSpan := eng.FieldIs("types", "Trace", "RootSpan")
		n := 0
		eng.Instrs(bf, func(in ssa.Instruction) {
			cl, ok := eng.IsCall(in, "(*types.Payload).Get", "(*types.Payload).Exists")
			if !ok {
				return
			}
			fieldArg := eng.CallArgs(cl)[0]
			if !rangeElemOf(fieldArg, func(v ssa.Value) bool { return loadsField(v, rootOnly) }) {
				return
			}
			n++
			_, fromRoot := eng.Derives(eng.Receiver(cl), func(v ssa.Value) bool { return loadsField(v, rootSpan) }, eng.FlowOpts{})
			c.Decide(fromRoot, rR, "build/"+eng.MethodBase(eng.CalleeName(cl)), x.Pos(in), "root.-prefixed key fields read from trace.RootSpan", "a `root.` key field is read from a span other than the trace's root span")
		})
		if n == 0 {
			c.Violate(rR, "build/root-fields", x.PosOf(bf.Pos()), "root-only key fields are never read")
		}
		// trace length
		tl := false
		eng.Instrs(bf, func(in ssa.Instruction) {
			if cl, ok := eng.IsCall(in, "strconv.FormatInt", "strconv.Itoa"); ok {
				if _, d := eng.Derives(eng.CallArgs(cl)[0], func(v ssa.Value) bool {
					if c2, ok := v.(*ssa.Call); ok {
						if b, ok := c2.Call.Value.(*ssa.Builtin); ok && b.Name() == "len" {
							return isCallValue(c2.Call.Args[0], "(*types.Trace).GetSpans")
						}
					}
					return false
				}, eng.FlowOpts{}); d {
					tl = true
				}
			}
		})
		c.Decide(tl, "C11.trace-length", "build/useTraceLength", x.PosOf(bf.Pos()), "useTraceLength appends len(spans)", "useTraceLength does not append the number of spans")
	}
	c.Min(rR, 2)
	// sibling agreement: floor before rand.Intn(rate) in every dynsampler-backed sampler
	const rF = "C11.floor-before-draw"
	for _, f := range x.implementations("sample", "Sampler", "GetSampleRate", "sample") {
		eng.Instrs(f, func(in ssa.Instruction) {
			cl, ok := eng.IsCall(in, "math/rand.Intn", "math/rand/v2.IntN", "math/rand.Int63n")
			if !ok {
				return
			}
			c.Examined++
			arg := eng.CallArgs(cl)[0]
			okArg := eng.AtLeastOne(arg)
			if !okArg {
				// guarded by a dominating `x > 0` test (rules sampler)
				as := &eng.Assume{Bool: func(v ssa.Value) eng.Tri { return eng.EvalRel(v, []eng.RelFact{eng.LessThanOneFact(arg)}) }}
				r := eng.ReachableSinks(f, as, nil, func(i2 ssa.Instruction) bool { return i2 == in })
				okArg = len(r.Hits) == 0
			}
			c.Decide(okArg, rF, typeString(f.Signature.Recv().Type())+"/rand.Intn", x.Pos(in), "argument of the random draw is >= 1", "rand.Intn can be called with a rate below 1 (panics for n <= 0): a crash in the decision goroutine, and the kept fraction is undefined")
		})
	}
	c.Min(rF, 6)

	// ---- the random keep is drawn with the rate that is reported ----------------------------------------------
	// (for the dynsampler-backed samplers: keep ⇔ rand.Intn(rate) == 0 with the floored rate that is returned; a
	// draw made on the value before the floor reports rate 1 for traces it never keeps)
	const rK = "C11.keep-drawn-with-returned-rate"
	for _, f := range x.implementations("sample", "Sampler", "GetSampleRate", "sample") {
		tn := typeString(f.Signature.Recv().Type())
		if !strings.Contains(tn, "Dynamic") && !strings.Contains(tn, "Throughput") {
			continue
		}
		var draws []ssa.CallInstruction
		eng.Instrs(f, func(in ssa.Instruction) {
			if cl, ok := eng.IsCall(in, "math/rand.Intn", "math/rand/v2.IntN", "math/rand.Int63n"); ok {
				draws = append(draws, cl)
			}
		})
		if len(draws) == 0 {
			continue
		}
		c.Examined++
		rates := returnedValues(f, 0)
		same := func(a, b ssa.Value) bool {
			a, b = eng.StripConv(a), eng.StripConv(b)
			if a == b {
				return true
			}
			// through a floor helper: rateAtLeastOne(x) on both sides
			return false
		}
		ok := true
		for _, d := range draws {
			arg := eng.CallArgs(d)[0]
			for _, rv := range rates {
				if !same(arg, rv) {
					ok = false
				}
			}
		}
		c.Decide(ok, rK, tn, x.PosOf(f.Pos()), "rand.Intn is drawn on the very rate that is returned",
			"the random keep in "+tn+" is drawn on a different value than the sample rate it returns (e.g. the rate before the floor of 1): traces for which the dynsampler has no rate yet are reported with rate 1 and never kept")
	}
	c.Min(rK, 5)

	// ---- "already seen" is always answered by the field's own set ---------------------------------------------------
	const rS = "C11.seen-per-field"
	if af := x.Fn(rS, "sample", "distinctValue", "AddAsString"); af != nil && len(af.Params) >= 3 {
		idx := af.Params[2]
		valuesF := eng.FieldIs("sample", "distinctValue", "values")
		// a look-up in values[fieldIdx]
		isFieldLookup := func(in ssa.Instruction) bool {
			lk, ok := in.(*ssa.Lookup)
			if !ok {
				return false
			}
			_, d := eng.Derives(lk.X, func(v ssa.Value) bool {
				ia, ok := v.(*ssa.IndexAddr)
				return ok && loadsField(ia.X, valuesF) && ia.Index == ssa.Value(idx)
			}, eng.FlowOpts{})
			return d
		}
		c.Examined++
		r := eng.Explore(eng.Query{Fn: af, TrackPhi: func(*ssa.Phi) bool { return true }, Classify: func(in ssa.Instruction, _ eng.Facts) eng.Event {
			if isFieldLookup(in) {
				return eng.EvSink
			}
			return eng.EvNone
		}})
		bad := false
		var path []*ssa.BasicBlock
		for _, e := range r.Exits {
			if _, isRet := e.Instr.(*ssa.Return); isRet && e.Sinks == 0 {
				bad, path = true, e.Path
			}
		}
		if bad {
			o := c.Violate(rS, "AddAsString", x.PosOf(af.Pos()), "AddAsString can answer (return) without having consulted the set of the field it was called for – a shortcut such as 'same as the previous value' that ignores the field index: a value seen for one field is then dropped for the next field, so the key depends on the order of the spans")
			o.Path = eng.DescribePath(x.P.Pos, path)
		} else {
			c.Hold(rS, "AddAsString", x.PosOf(af.Pos()), "every answer follows a look-up in values[fieldIdx]")
		}
	}
}

// integerCompareExact: the untyped rule comparison compares two integers as integers (shared by C08 and C09).
func (x *Ctx) integerCompareExact(r2b string) {
	c := x.C
	// ---- two integers are compared as integers -----------------------------------------------------------------
	// (untyped rule comparison: routing int64 × int64 through float64 makes neighbouring 64-bit values – ids,
	// nanosecond timestamps – compare equal, so a rule matches for one encoding/magnitude and not for another)
	if cf := x.P.Func("sample", "", "compare"); cf != nil && cf.Blocks != nil && len(cf.Params) == 2 {
		pa, pb := cf.Params[0], cf.Params[1]
		of := func(v ssa.Value, p *ssa.Parameter) bool {
			_, d := eng.Derives(v, func(w ssa.Value) bool { return w == ssa.Value(p) }, eng.FlowOpts{})
			return d
		}
		for _, sc := range []struct{ name, ta, tb string }{{"int64×int64", "int64", "int64"}, {"int64×int", "int64", "int"}} {
			c.Examined++
			as := &eng.Assume{Bool: func(v ssa.Value) eng.Tri {
				e, ok := v.(*ssa.Extract)
				if !ok || e.Index != 1 {
					return eng.Unknown
				}
				ta, ok := e.Tuple.(*ssa.TypeAssert)
				if !ok || !ta.CommaOk {
					return eng.Unknown
				}
				t := typeString(ta.AssertedType)
				switch {
				case of(ta.X, pa) && !of(ta.X, pb):
					return triOf(t == sc.ta)
				case of(ta.X, pb) && !of(ta.X, pa):
					return triOf(t == sc.tb)
				}
				return eng.Unknown
			}, Nil: func(v ssa.Value) eng.Tri {
				if v == ssa.Value(pa) || v == ssa.Value(pb) {
					return eng.False
				}
				return eng.Unknown
			}}
			var bad ssa.Instruction
			eng.Explore(eng.Query{Fn: cf, Assume: as, TrackPhi: func(*ssa.Phi) bool { return true }, Classify: func(in ssa.Instruction, _ eng.Facts) eng.Event {
				intToFloat := func(i2 ssa.Instruction) bool {
					cv, ok := i2.(*ssa.Convert)
					if !ok {
						return false
					}
					from, ok1 := cv.X.Type().Underlying().(*types.Basic)
					to, ok2 := cv.Type().Underlying().(*types.Basic)
					return ok1 && ok2 && from.Info()&types.IsInteger != 0 && to.Info()&types.IsFloat != 0
				}
				if intToFloat(in) {
					bad = in
				}
				// …or inside a helper of this package that is handed one of the two values
				if cl, ok := in.(*ssa.Call); ok {
					if g := cl.Call.StaticCallee(); g != nil && g.Blocks != nil && x.P.FuncRel(g) == "sample" && g != cf {
						takes := false
						for _, a := range cl.Call.Args {
							if of(a, pa) || of(a, pb) {
								takes = true
							}
						}
						if takes {
							eng.Instrs(g, func(i2 ssa.Instruction) {
								if intToFloat(i2) {
									bad = in
								}
							})
						}
					}
				}
				return eng.EvNone
			}})
			p := x.PosOf(cf.Pos())
			if bad != nil {
				p = x.Pos(bad)
			}
			c.Decide(bad == nil, r2b, "compare/"+sc.name, p, "compared without leaving the integers",
				"when both the span's value and the rule's value are integers ("+sc.name+") the comparison converts an integer to float64: above 2^53 neighbouring integers compare as equal, so =, !=, <, > give wrong answers for 64-bit ids and nanosecond timestamps")
		}
	}

}

// rootShortcutCarried: the "only the root span was examined" flag of field extraction is carried across the
// fields examined (shared by C08 and C09).
func (x *Ctx) rootShortcutCarried(r4 string) {
	c := x.C
	// ---- span-order independence of the root-only shortcut ---------------------------------------------------
	// extractValueFromSpan tells its caller whether only root.-prefixed fields were examined (then the other
	// spans need not be looked at). That answer depends on every field examined so far, not on the one that
	// produced the value: inside the loop over fields it has to be carried from iteration to iteration.
	if ef := x.Fn(r4, "sample", "", "extractValueFromSpan"); ef != nil && ef.Signature.Results().Len() == 3 {
		n := 0
		eng.Instrs(ef, func(in ssa.Instruction) {
			ret, ok := in.(*ssa.Return)
			if !ok || len(ret.Results) != 3 {
				return
			}
			h := exitLoopHeader(ret)
			if h == nil {
				return
			}
			n++
			c.Examined++
			carried, local := false, ""
			seen := map[ssa.Value]bool{}
			var walk func(v ssa.Value)
			walk = func(v ssa.Value) {
				if v == nil || seen[v] {
					return
				}
				seen[v] = true
				switch y := v.(type) {
				case *ssa.Const:
				case *ssa.Phi:
					if y.Block() == h {
						carried = true
						return
					}
					// a choice between constants made inside this iteration is information about the current field only
					if h.Dominates(y.Block()) {
						allConst := true
						for _, e := range y.Edges {
							if _, isK := e.(*ssa.Const); !isK {
								allConst = false
							}
						}
						if allConst && len(y.Edges) > 1 {
							local = "a flag set from the current field alone"
						}
					}
					for _, e := range y.Edges {
						walk(e)
					}
				case *ssa.BinOp:
					walk(y.X)
					walk(y.Y)
				case *ssa.UnOp:
					walk(y.X)
				default:
					if in, ok := v.(ssa.Instruction); ok && h.Dominates(in.Block()) && in.Block() != h {
						local = v.String()
					}
				}
			}
			walk(ret.Results[2])
			c.Decide(carried || local == "", r4, "extractValueFromSpan/return-in-loop", x.Pos(ret), "the root-only flag is carried across the fields examined",
				"the 'only the root span was examined' flag returned from inside the loop over fields is computed from the current field alone ("+local+"): with mixed root./plain fields the caller stops at the first span, so whether a rule matches depends on the order in which the spans arrived")
		})
		if n == 0 {
			c.Hold(r4, "extractValueFromSpan/no-return-in-loop", x.PosOf(ef.Pos()), "no value is returned from inside the loop over fields")
		}
	}
}
