package rules

import (
	"golang.org/x/tools/go/ssa"

	"refcheck/internal/eng"
)

// addrRoot follows FieldAddr / IndexAddr / load chains to the value an address is derived from.
func addrRoot(v ssa.Value) ssa.Value {
	for i := 0; i < 12; i++ {
		switch y := v.(type) {
		case *ssa.FieldAddr:
			v = y.X
		case *ssa.IndexAddr:
			v = y.X
		case *ssa.Field:
			v = y.X
		case *ssa.UnOp:
			// load of a pointer-typed field: *(&x.F) – continue into x when F is a pointer (same object graph)
			if fa, ok := y.X.(*ssa.FieldAddr); ok {
				v = fa.X
				continue
			}
			return v
		default:
			return v
		}
	}
	return v
}

// isMutator reports whether method f stores through its receiver (directly or,
// one level down, by calling a mutator on a field of the receiver).
func (x *Ctx) isMutator(f *ssa.Function, depth int) bool {
	if f == nil || f.Blocks == nil || f.Signature.Recv() == nil || len(f.Params) == 0 {
		return false
	}
	recv := f.Params[0]
	found := false
	eng.Instrs(f, func(in ssa.Instruction) {
		if found {
			return
		}
		switch y := in.(type) {
		case *ssa.Store:
			if addrRoot(y.Addr) == ssa.Value(recv) {
				found = true
			}
		case *ssa.MapUpdate:
			if addrRoot(y.Map) == ssa.Value(recv) {
				found = true
			}
		case *ssa.Call:
			if depth > 0 {
				if cal := y.Call.StaticCallee(); cal != nil && cal.Signature.Recv() != nil && len(y.Call.Args) > 0 {
					if addrRoot(y.Call.Args[0]) == ssa.Value(recv) && x.isMutator(cal, depth-1) {
						found = true
					}
				}
			}
		}
	})
	return found
}

// writesThrough reports whether instruction in writes to memory reachable from
// object obj (a pointer): a Store/MapUpdate whose address derives from obj, or
// a call of a mutator method on a field of obj.
func (x *Ctx) writesThrough(in ssa.Instruction, isObj func(ssa.Value) bool) bool {
	switch y := in.(type) {
	case *ssa.Store:
		return isObj(addrRoot(y.Addr))
	case *ssa.MapUpdate:
		return isObj(addrRoot(y.Map))
	case *ssa.Call:
		if cal := y.Call.StaticCallee(); cal != nil && cal.Signature.Recv() != nil && len(y.Call.Args) > 0 {
			if isObj(addrRoot(y.Call.Args[0])) && x.isMutator(cal, 1) {
				return true
			}
		}
	}
	return false
}
