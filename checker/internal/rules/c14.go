package rules

import (
	"strings"

	"golang.org/x/tools/go/ssa"

	"refcheck/internal/eng"
)

func init() { Register("C14", c14) }

func c14(x *Ctx) {
	c := x.C
	c.Explanation = "C14 (each trace is sampled by the sampler configured for its destination): decides that sampler keys are produced only by Config.DetermineSamplerKey and that the argument of every sampler lookup (GetSamplerImplementationForKey, GetSamplingKeyFieldsForDestName) outside the query handlers derives from it; that its three arguments come from the same object (trace key/environment/dataset at decision time, the request's at ingestion time); that the environment branch is taken exactly for non-classic keys and the dataset branch applies DatasetPrefix; that the two lookups perform the same name → __default__ fallback; and that key fields are memoized for every span before the sampler decides."
	c.NotCovered = "the classification regexps of IsLegacyAPIKey against real key formats (string contents)."
	const nDet = "(config.Config).DetermineSamplerKey"
	fromDet := func(v ssa.Value) bool {
		_, ok := eng.Derives(v, func(w ssa.Value) bool { return isCallValue(w, nDet) }, eng.FlowOpts{Callers: func(p *ssa.Parameter) []ssa.Value { return x.callerArgs(p.Parent(), p) }})
		return ok
	}
	// ---- key provenance at lookups ------------------------------------------------------
	const r1 = "C14.key-provenance"
	lookups := map[string]bool{
		"(*sample.SamplerFactory).GetSamplerImplementationForKey": true,
		"(config.Config).GetSamplingKeyFieldsForDestName":         true,
		"(config.Config).GetSamplerConfigForDestName":             true,
	}
	for _, s := range eng.CallSites(x.RepoFuncs(), func(n string, _ ssa.CallInstruction) bool { return lookups[n] }) {
		c.Examined++
		fn := eng.Root(s.Fn)
		name := eng.CalleeName(s.Instr.(ssa.CallInstruction))
		key := BaseName(fn) + "/" + eng.MethodBase(name)
		arg := eng.CallArgs(s.Instr.(ssa.CallInstruction))[0]
		switch {
		case x.P.FuncRel(fn) == "config":
			continue // serialisation of the configuration itself
		case fn.Name() == "GetSamplerImplementationForKey" && x.P.FuncRel(fn) == "sample":
			// pass-through of its own parameter; the caller is checked
			c.Decide(len(fn.Params) == 2 && arg == ssa.Value(fn.Params[1]), r1, key, x.Pos(s.Instr), "forwards the caller's sampler key", "the factory looks up a sampler configuration under something other than the key it was given")
		case strings.HasPrefix(fn.Name(), "getSamplerRules") || strings.Contains(strings.ToLower(fn.Name()), "query") || fn.Name() == "getSamplerRules":
			c.Hold(r1, key, x.Pos(s.Instr), "query endpoint: the caller names the destination explicitly")
		default:
			must := x.mustDerive(arg, func(w ssa.Value) bool { return isCallValue(w, nDet) })
			c.Decide(fromDet(arg) && must, r1, key, x.Pos(s.Instr), "lookup key derives from DetermineSamplerKey on every path", "a sampler is looked up under a key that does not come from DetermineSamplerKey (e.g. the raw dataset): traces with an environment key are sampled by the wrong definition or fall back to __default__")
		}
	}
	c.Min(r1, 3)
	// arguments of DetermineSamplerKey come from one object
	const r2 = "C14.key-arguments"
	for _, s := range eng.CallSites(x.RepoFuncs(), func(n string, _ ssa.CallInstruction) bool { return n == nDet }) {
		c.Examined++
		fn := eng.Root(s.Fn)
		a := eng.CallArgs(s.Instr.(ssa.CallInstruction))
		names := []string{"", "", ""}
		bases := []ssa.Value{nil, nil, nil}
		for i := 0; i < 3 && i < len(a); i++ {
			if fr, base, ok := eng.LoadedField(a[i]); ok {
				names[i] = fr.Name
				bases[i] = base
			}
		}
		same := bases[0] != nil && bases[1] != nil && bases[2] != nil && eng.SameObject(bases[0], bases[1]) && eng.SameObject(bases[1], bases[2])
		okNames := strings.Contains(strings.ToLower(names[0]), "apikey") && strings.HasPrefix(strings.ToLower(names[1]), "env") && strings.Contains(strings.ToLower(names[2]), "dataset")
		c.Decide(same && okNames, r2, BaseName(fn), x.Pos(s.Instr), "API key, environment and dataset of one object, in that order",
			"DetermineSamplerKey is called with ("+strings.Join(names, ", ")+"): the three arguments are not the API key, environment and dataset of the same trace/request")
	}
	c.Min(r2, 2)

	// ---- DetermineSamplerKey branches --------------------------------------------------------
	const r3 = "C14.branching"
	if d := x.Fn(r3, "config", "fileConfig", "DetermineSamplerKey"); d != nil && len(d.Params) == 4 {
		apiKey, env, ds := d.Params[1], d.Params[2], d.Params[3]
		for _, sc := range []struct {
			name   string
			legacy eng.Tri
		}{{"environment-key", eng.False}, {"classic-key", eng.True}} {
			as := &eng.Assume{Bool: func(v ssa.Value) eng.Tri {
				if cl, ok := v.(*ssa.Call); ok && eng.CalleeName(cl) == "config.IsLegacyAPIKey" && cl.Call.Args[0] == ssa.Value(apiKey) {
					return sc.legacy
				}
				return eng.Unknown
			}}
			r := eng.Explore(eng.Query{Fn: d, Assume: as})
			ok, n := true, 0
			for _, e := range r.Exits {
				ret, isRet := e.Instr.(*ssa.Return)
				if !isRet {
					continue
				}
				n++
				v := ret.Results[0]
				_, fromEnv := eng.Derives(v, func(w ssa.Value) bool { return w == ssa.Value(env) }, eng.FlowOpts{ThroughCalls: true})
				_, fromDs := eng.Derives(v, func(w ssa.Value) bool { return w == ssa.Value(ds) }, eng.FlowOpts{ThroughCalls: true})
				if sc.legacy == eng.False && !(fromEnv && !fromDs) || sc.legacy == eng.True && !(fromDs && !fromEnv) {
					ok = false
				}
			}
			c.Decide(ok && n > 0, r3, "DetermineSamplerKey/"+sc.name, x.PosOf(d.Pos()), sc.name+" ⇒ the matching name", "for a "+sc.name+" the sampler key is not derived from the right one of environment / dataset")
		}
		// prefix applied when non-empty
		prefixed := false
		eng.Instrs(d, func(in ssa.Instruction) {
			if r, ok := in.(*ssa.Return); ok {
				if _, p := eng.Derives(r.Results[0], func(w ssa.Value) bool { return isCallValue(w, "(*config.fileConfig).GetDatasetPrefix") }, eng.FlowOpts{ThroughCalls: true}); p {
					if _, dsd := eng.Derives(r.Results[0], func(w ssa.Value) bool { return w == ssa.Value(ds) }, eng.FlowOpts{ThroughCalls: true}); dsd {
						prefixed = true
					}
				}
			}
		})
		c.Decide(prefixed, r3, "DetermineSamplerKey/dataset-prefix", x.PosOf(d.Pos()), "classic key ⇒ DatasetPrefix.dataset when a prefix is set", "DatasetPrefix is not applied to the dataset name")
	}
	c.Min(r3, 3)

	// ---- sibling fallback ------------------------------------------------------------------------
	const r4 = "C14.sibling-fallback"
	for _, fn := range []string{"GetSamplerConfigForDestName", "GetSamplingKeyFieldsForDestName"} {
		f := x.Fn(r4, "config", "fileConfig", fn)
		if f == nil {
			continue
		}
		var keysLooked []string
		eng.Instrs(f, func(in ssa.Instruction) {
			lk, ok := in.(*ssa.Lookup)
			if !ok || !lk.CommaOk {
				return
			}
			if _, d := eng.Derives(lk.X, func(v ssa.Value) bool {
				fr, _, ok := eng.FieldRefOf(v)
				return ok && fr.Name == "Samplers"
			}, eng.FlowOpts{}); !d {
				return
			}
			if s, ok := eng.ConstString(lk.Index); ok {
				keysLooked = append(keysLooked, "const:"+s)
			} else if p, ok := lk.Index.(*ssa.Parameter); ok && len(f.Params) == 2 && p == f.Params[1] {
				keysLooked = append(keysLooked, "param")
			} else {
				keysLooked = append(keysLooked, "other")
			}
		})
		got := strings.Join(keysLooked, ",")
		c.Decide(got == "param,const:__default__", r4, fn, x.PosOf(f.Pos()), "looks up the given name, then __default__", fn+" performs the lookups ["+got+"] instead of [name, __default__]: ingestion-time field extraction and decision-time sampler choice disagree for destinations without their own sampler")
	}
	c.Min(r4, 2)

	// ---- the two lookups answer from the rules in force, not from a copy kept across reloads ---------------------
	const r4b = "C14.lookup-from-current-rules"
	for _, fn := range []string{"GetSamplerConfigForDestName", "GetSamplingKeyFieldsForDestName"} {
		f := x.P.Func("config", "fileConfig", fn)
		if f == nil || f.Blocks == nil {
			continue
		}
		rulesF := eng.FieldIs("config", "fileConfig", "rulesConfig")
		seen := map[ssa.Value]bool{}
		var fromRules func(v ssa.Value) bool
		fromRules = func(v ssa.Value) bool {
			if v == nil || seen[v] {
				return true
			}
			seen[v] = true
			switch y := v.(type) {
			case *ssa.Const:
				return true
			case *ssa.Phi:
				for _, e := range y.Edges {
					if !fromRules(e) {
						return false
					}
				}
				return true
			case *ssa.Extract:
				return fromRules(y.Tuple)
			case *ssa.Lookup:
				return fromRules(y.X)
			case *ssa.TypeAssert:
				return fromRules(y.X)
			case *ssa.MakeInterface:
				return fromRules(y.X)
			case *ssa.ChangeInterface:
				return fromRules(y.X)
			case *ssa.Field:
				return fromRules(y.X)
			case *ssa.FieldAddr:
				if fr, _, ok := eng.FieldRefOf(y); ok && fr.Struct != nil && fr.Struct.Obj().Name() == "fileConfig" {
					return rulesF(fr)
				}
				return fromRules(y.X)
			case *ssa.UnOp:
				return fromRules(y.X)
			case *ssa.Slice:
				return fromRules(y.X)
			case *ssa.Call:
				if y.Call.IsInvoke() {
					return fromRules(y.Call.Value)
				}
				if cal := y.Call.StaticCallee(); cal != nil && cal.Signature.Recv() != nil && len(y.Call.Args) > 0 {
					return fromRules(y.Call.Args[0])
				}
				// a plain function of derived values
				for _, a := range y.Call.Args {
					if !fromRules(a) {
						return false
					}
				}
				return len(y.Call.Args) > 0
			case *ssa.Alloc:
				for _, st := range eng.StoresTo(y, nil) {
					if !fromRules(st.Val) {
						return false
					}
				}
				return true
			case *ssa.Parameter:
				return y != f.Params[0] // the name asked for is fine; the receiver as a whole is not "the rules"
			}
			return false
		}
		c.Examined++
		bad := ""
		eng.Instrs(f, func(in ssa.Instruction) {
			ret, ok := in.(*ssa.Return)
			if !ok || len(ret.Results) == 0 {
				return
			}
			if !fromRules(ret.Results[0]) {
				bad = x.Pos(ret)
			}
		})
		c.Decide(bad == "", r4b, fn, x.PosOf(f.Pos()), "every answer is computed from the rules configuration currently in force",
			fn+" can answer ("+bad+") from something other than the rules configuration currently in force (a cache kept in another field): after a rules reload it keeps answering with the previous rules, so the fields extracted at ingestion and the sampler chosen at decision time disagree")
	}

	// ---- memoize before decide ----------------------------------------------------------------------
	const r5 = "C14.memoize-before-decide"
	if md := x.Fn(r5, "collect", "CollectorWorker", "makeDecision"); md != nil {
		for _, g := range callsIn(md, nSamplerRate) {
			c.Examined++
			recv := eng.Receiver(g)
			// a GetKeyFields call on the same sampler dominates, its results feed MemoizeFields inside a range over all spans
			okKF, okLoop := false, false
			eng.Instrs(md, func(in ssa.Instruction) {
				kf, ok := eng.IsCall(in, "(sample.Sampler).GetKeyFields")
				if !ok || eng.Receiver(kf) != recv || !eng.Dominates(in, g.(ssa.Instruction)) {
					return
				}
				okKF = true
				eng.Instrs(md, func(i2 ssa.Instruction) {
					mz, ok := eng.IsCall(i2, "(*types.Payload).MemoizeFields")
					if !ok {
						return
					}
					_, fromKF := eng.Derives(eng.CallArgs(mz)[0], func(v ssa.Value) bool {
						e, ok := v.(*ssa.Extract)
						return ok && e.Tuple == kf.(ssa.Value)
					}, eng.FlowOpts{})
					onSpan := rangeElemOf(eng.Receiver(mz), func(v ssa.Value) bool { return isCallValue(v, "(*types.Trace).GetSpans") })
					if fromKF && onSpan && loopHeader(i2) != nil && eng.MayPrecede(i2, g.(ssa.Instruction)) {
						okLoop = true
					}
				})
			})
			// every span is memoized: no iteration skips MemoizeFields
			c.Decide(okKF && okLoop, r5, "makeDecision/GetSampleRate", x.Pos(g), "the selected sampler's key fields are memoized on every span before it decides", "the sampler decides before its key fields were extracted from the spans (or fields of a different sampler were): fields it reads are missing at decision time")
			if okLoop {
				var mzs []ssa.Instruction
				eng.Instrs(md, func(i2 ssa.Instruction) {
					if _, ok := eng.IsCall(i2, "(*types.Payload).MemoizeFields"); ok {
						mzs = append(mzs, i2)
					}
				})
				h := loopHeader(mzs[0])
				if body := loopBody(h); body != nil {
					r := eng.Explore(eng.Query{Fn: md, Start: body.Instrs[0], Classify: func(in ssa.Instruction, _ eng.Facts) eng.Event {
						if _, ok := eng.IsCall(in, "(*types.Payload).MemoizeFields"); ok {
							return eng.EvKill
						}
						if in == h.Instrs[0] {
							return eng.EvSink
						}
						return eng.EvNone
					}})
					c.Decide(len(r.Hits) == 0, r5, "makeDecision/every-span", x.Pos(mzs[0]), "no span is skipped", "some spans are skipped when key fields are memoized")
				}
			}
		}
	}
	c.Min(r5, 2)
}
