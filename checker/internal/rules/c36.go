package rules

import (
	"go/token"
	"go/types"
	"strings"

	"golang.org/x/tools/go/ssa"

	"refcheck/internal/eng"
)

func init() { Register("C36", c36) }

func c36(x *Ctx) {
	c := x.C
	c.Explanation = "C36 (graceful shutdown drains and stops cleanly): decides (1) drain – on the shutdown path (worker loop exit on closed input, or InMemCollector.Stop before the outgoing channel is closed) buffered traces are decided and handed to send, as the README promises for restarts; (2) stop order – monitor goroutine joined, then worker inputs closed, workers joined, then the outgoing channel closed, then the sender joined; (3) every goroutine started by a component has a way out: its select loop has a case on a stop signal (done/stop channel or context) from which every path leaves the loop; (4) a constructor that can return nil has its result nil-checked before a method is called on it in a Stop function; (5) the functions DirectTransmission.Stop runs to flush the remaining batches never read the stop signal it has just closed; (6) every blocking wait in the OpAMP agent also listens to the agent's context or a done channel. Transmission flush on stop is decided under C26."
	c.NotCovered = "what has been delivered by the time the process exits (HTTP), ShutdownDelay, goroutines inside libraries."
	// ---- 1 drain -------------------------------------------------------------------------------------
	const r1 = "C36.drain-on-stop"
	reachesDecide := func(f *ssa.Function) bool {
		if f == nil {
			return false
		}
		dec, snd := false, false
		for g := range x.Reachable(f) {
			if !x.P.Funcs()[g] {
				continue
			}
			n := eng.SSAFuncName(g)
			if n == nMakeDecision {
				dec = true
			}
			if n == nSend {
				snd = true
			}
		}
		return dec && snd
	}
	col := x.Fn(r1, "collect", "CollectorWorker", "collect")
	stop := x.Fn(r1, "collect", "InMemCollector", "Stop")
	tts := eng.FieldIs("collect", "InMemCollector", "tracesToSend")
	drains := false
	if col != nil {
		// every return of the worker loop is preceded by a call that reaches makeDecision+send
		r := eng.Explore(eng.Query{Fn: col, Classify: func(in ssa.Instruction, _ eng.Facts) eng.Event {
			if cl, ok := in.(*ssa.Call); ok {
				if cal := cl.Call.StaticCallee(); cal != nil && strings.Contains(strings.ToLower(cal.Name()), "drain") && reachesDecide(cal) {
					return eng.EvSink
				}
			}
			return eng.EvNone
		}})
		all, n := true, 0
		for _, e := range r.Exits {
			if _, isRet := e.Instr.(*ssa.Return); isRet {
				n++
				if e.Sinks == 0 {
					all = false
				}
			}
		}
		if all && n > 0 {
			drains = true
		}
	}
	if stop != nil && !drains {
		var closeOut ssa.Instruction
		eng.Instrs(stop, func(in ssa.Instruction) {
			if cl, ok := in.(*ssa.Call); ok {
				if b, ok := cl.Call.Value.(*ssa.Builtin); ok && b.Name() == "close" && loadsField(cl.Call.Args[0], tts) {
					closeOut = in
				}
			}
		})
		eng.Instrs(stop, func(in ssa.Instruction) {
			if cl, ok := in.(*ssa.Call); ok && closeOut != nil {
				if cal := cl.Call.StaticCallee(); cal != nil && reachesDecide(cal) && eng.MayPrecede(in, closeOut) {
					drains = true
				}
			}
		})
	}
	p := "collect/collect.go"
	if stop != nil {
		p = x.PosOf(stop.Pos())
	}
	c.Decide(drains, r1, "InMemCollector/buffered-traces", p, "buffered traces are decided and sent on shutdown",
		"on shutdown the workers return as soon as their input channels are closed and Stop closes the outgoing channel: traces still buffered are neither decided nor forwarded, although the README says all in-flight traces are flushed on restart")
	// ---- 2 order ----------------------------------------------------------------------------------------
	const r2 = "C36.stop-order"
	if stop != nil {
		find := func(pred func(ssa.Instruction) bool) ssa.Instruction {
			var out ssa.Instruction
			eng.Instrs(stop, func(in ssa.Instruction) {
				if out == nil && pred(in) {
					out = in
				}
			})
			return out
		}
		wgWait := func(field string) func(ssa.Instruction) bool {
			return func(in ssa.Instruction) bool {
				cl, ok := eng.IsCall(in, "(*sync.WaitGroup).Wait")
				if !ok {
					return false
				}
				fr, _, ok := eng.FieldRefOf(eng.Receiver(cl))
				return ok && fr.Name == field
			}
		}
		isClose := func(fieldPred func(eng.FieldRef) bool) func(ssa.Instruction) bool {
			return func(in ssa.Instruction) bool {
				cl, ok := in.(*ssa.Call)
				if !ok {
					return false
				}
				b, ok := cl.Call.Value.(*ssa.Builtin)
				return ok && b.Name() == "close" && loadsField(cl.Call.Args[0], fieldPred)
			}
		}
		mon := find(wgWait("monitorWG"))
		clIn := find(isClose(eng.FieldIs("collect", "CollectorWorker", "incoming")))
		wk := find(wgWait("workersWG"))
		clOut := find(isClose(tts))
		snd := find(wgWait("sendTracesWG"))
		// `a` precedes `b` on every path: a dominates b, or a sits in a loop whose header dominates b and b is after the loop
		before := func(a, b ssa.Instruction) bool {
			if eng.Dominates(a, b) {
				return true
			}
			h := loopHeader(a)
			return h != nil && h.Dominates(b.Block()) && !inNaturalLoop(b.Block(), h)
		}
		ok := mon != nil && clIn != nil && wk != nil && clOut != nil && snd != nil &&
			before(mon, clIn) && before(clIn, wk) && before(wk, clOut) && before(clOut, snd)
		c.Decide(ok, r2, "InMemCollector.Stop", x.PosOf(stop.Pos()), "monitor joined → inputs closed → workers joined → output closed → sender joined",
			"InMemCollector.Stop does not follow the order monitor joined → worker inputs closed → workers joined → outgoing channel closed → sender joined: a worker or the eviction path can send on a closed channel (panic), or the sender is never joined")
	}
	// ---- 3 goroutines stop ----------------------------------------------------------------------------------
	const r3 = "C36.goroutine-has-exit"
	for _, f := range x.RepoFuncs() {
		rel := x.P.FuncRel(f)
		if strings.HasPrefix(rel, "tools/") {
			continue
		}
		eng.Instrs(f, func(in ssa.Instruction) {
			g, ok := in.(*ssa.Go)
			if !ok {
				return
			}
			var target *ssa.Function
			if cal := g.Call.StaticCallee(); cal != nil {
				target = cal
			} else if mc, ok := g.Call.Value.(*ssa.MakeClosure); ok {
				target = mc.Fn.(*ssa.Function)
			}
			if target == nil || target.Blocks == nil || !x.P.Funcs()[eng.Root(target)] {
				return
			}
			for _, l := range serviceLoops(target) {
				// selects in this loop
				var sels []*ssa.Select
				for b := range l.Blocks {
					for _, i2 := range b.Instrs {
						if s, ok := i2.(*ssa.Select); ok && s.Blocking {
							sels = append(sels, s)
						}
					}
				}
				if len(sels) == 0 {
					// range over a channel / receive with ok-test: ends when the channel is closed –
					// provided the loop has a way out at all (an edge leaving it, or a return inside)
					hasExit := false
					for b := range l.Blocks {
						for _, s := range b.Succs {
							if !l.Blocks[s] {
								hasExit = true
							}
						}
						if len(b.Succs) == 0 {
							hasExit = true
						}
					}
					c.Examined++
					key := BaseName(f) + "→" + BaseName(target)
					c.Decide(hasExit, r3, key, x.Pos(in), "receive loop ends when its channel is closed",
						"the goroutine's receive loop has no case on a stop signal and no way out of the loop: it cannot be stopped")
					continue
				}
				c.Examined++
				key := BaseName(f) + "→" + BaseName(target)
				stopIdx, sel := -1, (*ssa.Select)(nil)
				for _, s := range sels {
					for i, st := range s.States {
						if st.Dir != types.RecvOnly {
							continue
						}
						if isStopSignal(st.Chan) {
							stopIdx, sel = i, s
						}
					}
				}
				// a loop whose data receive returns on a closed channel also terminates
				closesOnNotOK := false
				for _, b := range target.Blocks {
					for _, i2 := range b.Instrs {
						if _, isRet := i2.(*ssa.Return); isRet && eng.BlockReaches(l.Header, b) {
							closesOnNotOK = true
						}
					}
				}
				if sel == nil {
					if closesOnNotOK {
						c.Hold(r3, key, x.Pos(in), "loop returns when its input channel is closed")
					} else {
						c.Violate(r3, key, x.Pos(in), "the goroutine's select loop has no case on a stop signal (done/stop channel, context) and no return: it cannot be stopped")
					}
					continue
				}
				// from the stop case every path leaves the loop
				as := &eng.Assume{Bool: func(v ssa.Value) eng.Tri {
					b, ok := v.(*ssa.BinOp)
					if !ok || b.Op != token.EQL {
						return eng.Unknown
					}
					e, ok := b.X.(*ssa.Extract)
					if !ok || e.Tuple != ssa.Value(sel) || e.Index != 0 {
						return eng.Unknown
					}
					k, ok := eng.ConstInt(b.Y)
					if !ok {
						return eng.Unknown
					}
					if int(k) == stopIdx {
						return eng.True
					}
					return eng.False
				}}
				r := eng.Explore(eng.Query{Fn: target, Assume: as, Start: sel, Classify: func(i2 ssa.Instruction, _ eng.Facts) eng.Event {
					if i2 == l.Header.Instrs[0] {
						return eng.EvSink
					}
					return eng.EvNone
				}})
				if len(r.Hits) > 0 {
					c.Violate(r3, key, x.Pos(sel), "the case on the stop signal does not leave the loop (no return / labelled break): after the signal fires the closed channel is always ready, so the goroutine spins at full speed forever instead of exiting")
				} else {
					c.Hold(r3, key, x.Pos(sel), "stop signal ⇒ the goroutine leaves its loop")
				}
			}
		})
	}
	c.Min(r3, 8)
	// ---- 4 nil constructor results ---------------------------------------------------------------------------
	const r4 = "C36.nil-checked-before-stop"
	for _, f := range x.RepoFuncs() {
		if f.Name() != "Stop" {
			continue
		}
		eng.Instrs(f, func(in ssa.Instruction) {
			cl, ok := in.(ssa.CallInstruction)
			if !ok || cl.Common().IsInvoke() {
				return
			}
			cal := cl.Common().StaticCallee()
			if cal == nil || cal.Signature.Recv() == nil || len(cl.Common().Args) == 0 {
				return
			}
			recv := cl.Common().Args[0]
			fr, _, ok := eng.LoadedField(recv)
			if !ok {
				return
			}
			// where is this field stored, and can the stored value be nil?
			mayBeNil := ""
			for _, w := range eng.FieldWrites(x.RepoFuncs(), func(q eng.FieldRef) bool { return q.Var == fr.Var }) {
				st := w.Instr.(*ssa.Store)
				if ctor, ok := st.Val.(*ssa.Call); ok {
					if cf := ctor.Call.StaticCallee(); cf != nil && cf.Blocks != nil && x.P.Funcs()[cf] {
						eng.Instrs(cf, func(i2 ssa.Instruction) {
							if ret, ok := i2.(*ssa.Return); ok && len(ret.Results) == 1 {
								if k, ok := ret.Results[0].(*ssa.Const); ok && k.IsNil() {
									mayBeNil = FName(cf) + " (" + x.Pos(i2) + ")"
								}
							}
						})
					}
				}
			}
			if mayBeNil == "" {
				return
			}
			c.Examined++
			as := &eng.Assume{Nil: func(v ssa.Value) eng.Tri {
				if fr2, _, ok := eng.LoadedField(v); ok && fr2.Var == fr.Var {
					return eng.True
				}
				return eng.Unknown
			}}
			r := eng.ReachableSinks(f, as, nil, func(i2 ssa.Instruction) bool { return i2 == in })
			c.Decide(len(r.Hits) == 0, r4, FName(f)+"/"+fr.Name, x.Pos(in), "nil-checked before use",
				fr.Name+" is set from "+mayBeNil+", which can return nil, and "+FName(f)+" calls a method on it without a nil check: shutdown panics when the constructor had failed")
		})
	}
	c.Min(r4, 1)

	// ---- 5 what Stop runs to flush does not look at the stop signal ------------------------------------------------------
	// (DirectTransmission.Stop closes d.stop first and then sends the remaining batches through sendBatch: code on
	// that path that consults d.stop behaves as "shutting down" for every flushed batch – e.g. skips the Retry-After
	// wait and throws the batch away)
	const r5 = "C36.flush-ignores-stop-signal"
	if st := x.Fn(r5, "transmit", "DirectTransmission", "Stop"); st != nil {
		stopF := eng.FieldIs("transmit", "DirectTransmission", "stop")
		c.Examined++
		bad := ""
		for g := range x.Reachable(st) {
			if g == st || eng.Root(g) == st || !x.P.Funcs()[eng.Root(g)] || x.P.FuncRel(eng.Root(g)) != "transmit" {
				continue
			}
			for _, a := range eng.FieldAccesses([]*ssa.Function{g}, stopF) {
				bad = FName(g) + " at " + x.Pos(a.Instr)
			}
		}
		c.Decide(bad == "", r5, "DirectTransmission.Stop", x.PosOf(st.Pos()), "the functions Stop uses to flush never read the stop signal",
			"the stop signal is read in "+bad+", which Stop runs to flush the remaining batches after it has closed that signal: every flushed batch is treated as if shutdown had interrupted it (waits are skipped, retries fail), so events pending at shutdown are lost")
	}

	// ---- 6 blocking waits inside stoppable goroutines can be interrupted -------------------------------------------------
	const r6 = "C36.wait-can-be-interrupted"
	{
		agentFuncs := x.PkgFuncs("agent")
		n := 0
		for _, f := range agentFuncs {
			eng.Instrs(f, func(in ssa.Instruction) {
				switch y := in.(type) {
				case *ssa.UnOp:
					if y.Op != token.ARROW || y.CommaOk {
						return
					}
					if isStopSignal(y.X) {
						return
					}
					// a ticker / timer channel always fires
					if fr, _, ok := eng.LoadedField(y.X); ok && fr.Name == "C" {
						return
					}
					if cl, ok := y.X.(*ssa.Call); ok && (strings.HasSuffix(eng.CalleeName(cl), ".Chan") || strings.HasSuffix(eng.CalleeName(cl), ".After")) {
						return
					}
					n++
					c.Examined++
					c.Violate(r6, BaseName(f)+"/receive", x.Pos(in), "the OpAMP agent waits on a channel with a plain receive: when the agent is stopped (or the server never confirms) the goroutine blocks forever – the wait has to be a select that also listens to the agent's context")
				case *ssa.Select:
					if !y.Blocking {
						return
					}
					hasStop, hasOther := false, false
					for _, st := range y.States {
						if st.Dir != types.RecvOnly {
							continue
						}
						if isStopSignal(st.Chan) {
							hasStop = true
						} else {
							hasOther = true
						}
					}
					if !hasOther {
						return
					}
					n++
					c.Examined++
					c.Decide(hasStop, r6, BaseName(f)+"/select", x.Pos(in), "the wait also listens to the stop signal",
						"a blocking select in the OpAMP agent has no case on the agent's context or a done channel: it cannot be interrupted by Stop")
				}
			})
		}
		if n == 0 {
			c.Hold(r6, "agent/no-waits", "agent/agent.go", "no blocking waits in the agent package")
		}
	}
}

func isStopSignal(ch ssa.Value) bool {
	found := false
	eng.Derives(ch, func(v ssa.Value) bool {
		if isCallValue(v, "(context.Context).Done") {
			found = true
		}
		name := ""
		if fr, _, ok := eng.LoadedField(v); ok {
			name = fr.Name
		}
		switch y := v.(type) {
		case *ssa.FreeVar:
			name = y.Name()
		case *ssa.Parameter:
			name = y.Name()
		case *ssa.Alloc:
			name = y.Comment
		}
		if n := strings.ToLower(name); n == "done" || n == "stop" || n == "donech" || strings.HasSuffix(n, "done") || n == "quit" {
			found = true
		}
		return false
	}, eng.FlowOpts{})
	return found
}
