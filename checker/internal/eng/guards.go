package eng

import (
	"go/token"
	"go/types"

	"golang.org/x/tools/go/ssa"
)

// E3 – guard vocabulary: "value x is ≥ 1 at its use".

func isUnsigned(v ssa.Value) bool {
	b, ok := v.Type().Underlying().(*types.Basic)
	return ok && b.Info()&types.IsUnsigned != 0
}

// SameLoc: a and b are the same SSA value, or loads of the same variable /
// field chain (go/ssa does not CSE loads).
func SameLoc(a, b ssa.Value) bool {
	a, b = stripConv(a), stripConv(b)
	if a == b {
		return true
	}
	la, oka := a.(*ssa.UnOp)
	lb, okb := b.(*ssa.UnOp)
	if oka && okb && la.Op == token.MUL && lb.Op == token.MUL {
		return sameBase(la.X, lb.X) || sameAddr(la.X, lb.X)
	}
	return false
}

func sameAddr(a, b ssa.Value) bool {
	if a == b {
		return true
	}
	fa, ba, ok1 := FieldRefOf(a)
	fb, bb, ok2 := FieldRefOf(b)
	if ok1 && ok2 && fa.Var == fb.Var {
		return sameBase(ba, bb) || sameAddr(ba, bb)
	}
	return false
}

// LessThanOneFact builds the relational fact "x < 1" for x (and reloads of the same location).
func LessThanOneFact(x ssa.Value) RelFact {
	one, zero := int64(1), int64(0)
	is := func(v ssa.Value) bool { return SameLoc(v, x) }
	if isUnsigned(stripConv(x)) {
		return RelFact{A: is, BConst: &zero, Rel: EQ}
	}
	return RelFact{A: is, BConst: &one, Rel: LT}
}

// AtLeastOne decides structurally that v >= 1: constants, max(_, k>=1), the
// floor idiom `if x < 1 { x = 1 }` (a phi whose unguarded edge is excluded by
// the branch condition), conversions of such values.
func AtLeastOne(v ssa.Value) bool { return atLeastOne(v, 0, map[ssa.Value]bool{}) }

func atLeastOne(v ssa.Value, depth int, seen map[ssa.Value]bool) bool {
	if depth > 12 || seen[v] {
		return false
	}
	seen[v] = true
	defer delete(seen, v)
	switch x := v.(type) {
	case *ssa.Const:
		c, ok := ConstInt(x)
		return ok && c >= 1
	case *ssa.Convert:
		return atLeastOne(x.X, depth+1, seen)
	case *ssa.ChangeType:
		return atLeastOne(x.X, depth+1, seen)
	case *ssa.Call:
		if b, ok := x.Call.Value.(*ssa.Builtin); ok && b.Name() == "max" {
			for _, a := range x.Call.Args {
				if atLeastOne(a, depth+1, seen) {
					return true
				}
			}
		}
		if b, ok := x.Call.Value.(*ssa.Builtin); ok && b.Name() == "min" && len(x.Call.Args) > 0 {
			all := true
			for _, a := range x.Call.Args {
				if !atLeastOne(a, depth+1, seen) {
					all = false
				}
			}
			if all {
				return true
			}
		}
		// a helper whose every returned value is at least one ("rate floor" helpers)
		if f := x.Call.StaticCallee(); f != nil && f.Blocks != nil && depth < 6 {
			n := 0
			for _, b := range f.Blocks {
				for _, in := range b.Instrs {
					ret, ok := in.(*ssa.Return)
					if !ok || len(ret.Results) != 1 {
						continue
					}
					n++
					if !atLeastOne(ret.Results[0], depth+1, seen) {
						return false
					}
				}
			}
			return n > 0
		}
	case *ssa.Phi:
		for i, e := range x.Edges {
			if atLeastOne(e, depth+1, seen) {
				continue
			}
			if !edgeExcludesBelowOne(x, i, e) {
				return false
			}
		}
		return true
	}
	return false
}

// edgeExcludesBelowOne: the edge i of phi is taken only when e >= 1, judged by
// the branch condition of the predecessor (or of its single-predecessor chain).
func edgeExcludesBelowOne(phi *ssa.Phi, i int, e ssa.Value) bool {
	blk := phi.Block()
	p := blk.Preds[i]
	target := blk
	for hops := 0; hops < 4; hops++ {
		if iff, ok := p.Instrs[len(p.Instrs)-1].(*ssa.If); ok {
			k := -1
			for j, s := range p.Succs {
				if s == target {
					k = j
				}
			}
			if k >= 0 && p.Succs[0] != p.Succs[1] {
				t := EvalRel(iff.Cond, []RelFact{LessThanOneFact(e)})
				if k == 1 && t == True || k == 0 && t == False {
					return true
				}
			}
		}
		if len(p.Preds) != 1 {
			return false
		}
		target = p
		p = p.Preds[0]
	}
	return false
}
