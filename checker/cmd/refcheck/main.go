// refcheck decides statically checkable clauses of the refinery properties.
//
//	refcheck [-dir /repo] [-verif /verif] <Cnn|all> [quick|thorough]
package main

import (
	"flag"
	"fmt"
	"os"
	"os/exec"
	"runtime/debug"
	"strconv"
	"strings"
	"time"

	"golang.org/x/tools/go/ssa"

	"refcheck/internal/load"
	"refcheck/internal/report"
	"refcheck/internal/rules"
)

func gitStatus(dir string) string {
	out, err := exec.Command("git", "-C", dir, "status", "--porcelain").Output()
	if err != nil {
		return "?"
	}
	return string(out)
}

func main() {
	dir := flag.String("dir", "/repo", "repository root")
	verif := flag.String("verif", "/verif", "verif root (evidence, reports, known findings)")
	outDir := flag.String("out", "", "where evidence/ and reports/ are written (default: the verif root); used when checking scratch variants")
	noSelf := flag.Bool("no-selftest", false, "thorough: skip mutant self-validation")
	dump := flag.String("dump", "", "developer aid: print the SSA of rel:Recv:name (e.g. collect:CollectorWorker:makeDecision)")
	selfOnly := flag.Bool("selftest", false, "run only the mutant self-validation of the property (developer aid)")
	flag.Parse()
	if *dump != "" {
		prog, err := load.Load(load.Options{Dir: *dir})
		if err != nil {
			fmt.Fprintln(os.Stderr, err)
			os.Exit(2)
		}
		parts := strings.Split(*dump, ":")
		f := prog.Func(parts[0], parts[1], parts[2])
		if f == nil {
			fmt.Fprintln(os.Stderr, "not found")
			os.Exit(2)
		}
		var wr func(f *ssa.Function)
		wr = func(f *ssa.Function) {
			f.WriteTo(os.Stdout)
			for _, a := range f.AnonFuncs {
				wr(a)
			}
		}
		wr(f)
		return
	}
	args := flag.Args()
	if len(args) < 1 {
		fmt.Fprintln(os.Stderr, "usage: refcheck [-dir /repo] <Cnn|all> [quick|thorough]")
		os.Exit(2)
	}
	which := args[0]
	tier := "quick"
	if len(args) > 1 {
		tier = args[1]
	}
	if t := os.Getenv("VERIF_TIER"); t != "" && len(args) < 2 {
		tier = t
	}
	if tier != "quick" && tier != "thorough" {
		fmt.Fprintln(os.Stderr, "tier must be quick or thorough")
		os.Exit(2)
	}
	seed := int64(0)
	if s := os.Getenv("VERIF_SEED"); s != "" {
		seed, _ = strconv.ParseInt(s, 10, 64)
	}
	var ids []string
	if which == "all" {
		ids = rules.IDs()
	} else {
		if _, ok := rules.Lookup(which); !ok {
			fmt.Fprintf(os.Stderr, "no rules registered for %s (have %s)\n", which, strings.Join(rules.IDs(), " "))
			os.Exit(2)
		}
		ids = []string{which}
	}
	if *selfOnly {
		bad := 0
		for _, id := range ids {
			st := rules.SelfTest(id, *dir, *verif)
			if ms, ok := st.Info["mutants"].([]map[string]any); ok {
				for _, m := range ms {
					fmt.Printf("%s %-60v %v %v %v\n", id, m["mutant"], m["result"], m["at"], m["got"])
				}
			}
			if st.Broken != "" {
				fmt.Println("BROKEN:", st.Broken)
				bad = 2
			}
		}
		os.Exit(bad)
	}
	before := gitStatus(*dir)
	exit := 0
	defer func() {
		if r := recover(); r != nil {
			fmt.Fprintf(os.Stderr, "checker panic: %v\n%s\n", r, debug.Stack())
			os.Exit(2)
		}
	}()
	t0 := time.Now()
	prog, err := load.Load(load.Options{Dir: *dir, Whole: tier == "thorough"})
	if err != nil {
		fmt.Fprintln(os.Stderr, "BROKEN: cannot load", *dir+":", err)
		os.Exit(2)
	}
	kf, err := report.LoadKnown(*verif + "/known_findings.json")
	if err != nil {
		fmt.Fprintln(os.Stderr, "BROKEN:", err)
		os.Exit(2)
	}
	loadS := time.Since(t0).Seconds()
	for _, id := range ids {
		t1 := time.Now()
		r, _ := rules.Lookup(id)
		c := report.NewCheck(id)
		x := &rules.Ctx{P: prog, C: c, Tier: tier}
		r.Run(x)
		extra := map[string]any{
			"packages_loaded":    len(prog.Pkgs),
			"functions_analysed": len(prog.Funcs()),
			"whole_program":      prog.Whole,
			"load_s":             loadS,
		}
		if tier == "thorough" && !*noSelf {
			st := rules.SelfTest(id, *dir, *verif)
			for k, v := range st.Info {
				extra[k] = v
			}
			if st.Broken != "" {
				fmt.Printf("BROKEN self-validation for %s: %s\n", id, st.Broken)
				exit = 2
			}
		}
		out := *verif
		if *outDir != "" {
			out = *outDir
		}
		res := c.Finish(out, tier, seed, t1.Add(-time.Duration(loadS*float64(time.Second))), kf, extra)
		if res.ExitCode > exit {
			exit = res.ExitCode
		}
	}
	if after := gitStatus(*dir); after != before {
		fmt.Fprintf(os.Stderr, "BROKEN: the run changed %s's working tree:\n%s\n", *dir, after)
		exit = 2
	}
	os.Exit(exit)
}
