package rules

import (
	"go/types"

	"golang.org/x/tools/go/ssa"

	"refcheck/internal/eng"
)

func init() { Register("C22", c22) }

func isFloat(v ssa.Value) bool {
	b, ok := v.Type().Underlying().(*types.Basic)
	return ok && b.Info()&types.IsFloat != 0
}

func c22(x *Ctx) {
	c := x.C
	c.Explanation = "C22 (event timestamps preserved exactly): decides that on every path of getEventTime from an integer epoch header (strconv.ParseInt succeeded) to the arguments of time.Unix no value of type float64 occurs – a float64 of seconds has ~240 ns resolution at 2×10⁹ s and cannot carry 13–19 significant digits, so a millisecond/microsecond/nanosecond epoch would lose units; and that a msgpack timestamp of a batched event is returned unmodified (apart from the zone)."
	c.NotCovered = "the documented float header form (1535589382.641) is inherently a float; RFC 3339 parsing is the standard library's."
	const r1 = "C22.no-float-in-integer-epoch"
	g := x.Fn(r1, "route", "", "getEventTime")
	if g != nil {
		var parseInts []ssa.Value
		eng.Instrs(g, func(in ssa.Instruction) {
			if cl, ok := eng.IsCall(in, "strconv.ParseInt", "strconv.ParseUint", "strconv.Atoi"); ok {
				parseInts = append(parseInts, cl.(ssa.Value))
			}
		})
		if len(parseInts) == 0 {
			c.Undecided(r1, "getEventTime/integer-branch", x.PosOf(g.Pos()), "no integer parse of the header found")
		} else {
			first := parseInts[0].(*ssa.Call)
			// integer branch: ParseInt of the whole header succeeded
			as := &eng.Assume{Nil: func(v ssa.Value) eng.Tri {
				if e, ok := v.(*ssa.Extract); ok && e.Tuple == ssa.Value(first) && e.Index == 1 {
					return eng.True
				}
				return eng.Unknown
			}}
			n := 0
			r := eng.Explore(eng.Query{Fn: g, Assume: as, Start: first, Classify: func(in ssa.Instruction, _ eng.Facts) eng.Event {
				if _, ok := eng.IsCall(in, "time.Unix", "time.UnixMilli", "time.UnixMicro"); ok {
					return eng.EvSink
				}
				return eng.EvNone
			}})
			for _, h := range r.Hits {
				n++
				c.Examined++
				cl := h.Instr.(ssa.CallInstruction)
				bad := ""
				for _, a := range eng.CallArgs(cl) {
					if w, ok := eng.Derives(a, func(v ssa.Value) bool { return isFloat(v) }, eng.FlowOpts{ThroughCalls: true}); ok {
						bad = w.String()
					}
				}
				c.Decide(bad == "", r1, "getEventTime/time.Unix", x.Pos(h.Instr), "integer epoch reaches time.Unix through integers only",
					"an integer epoch header is converted through float64 ("+bad+") before time.Unix: e.g. 1535589382641 (ms) becomes …641000032 ns and 1700000000001 becomes …000999927 ns – the timestamp Honeycomb receives differs from the client's")
			}
			if n == 0 {
				c.Violate(r1, "getEventTime/time.Unix", x.PosOf(g.Pos()), "an integer epoch header never reaches time.Unix")
			}
		}
	}
	c.Min(r1, 2)
	const r2 = "C22.msgpack-time-unmodified"
	if be := x.Fn(r2, "route", "batchedEvent", "getEventTime"); be != nil {
		ok, n := true, 0
		mp := eng.FieldIs("route", "batchedEvent", "MsgPackTimestamp")
		as := &eng.Assume{Nil: func(v ssa.Value) eng.Tri {
			if loadsField(v, mp) {
				return eng.False
			}
			return eng.Unknown
		}}
		r := eng.Explore(eng.Query{Fn: be, Assume: as})
		for _, e := range r.Exits {
			ret, isRet := e.Instr.(*ssa.Return)
			if !isRet {
				continue
			}
			n++
			// result must be MsgPackTimestamp(.UTC()) – no arithmetic, no re-parse
			v := ret.Results[0]
			if cl, isC := v.(*ssa.Call); isC && eng.CalleeName(cl) == "(time.Time).UTC" {
				v = cl.Call.Args[0]
			}
			if u, isU := v.(*ssa.UnOp); !isU || !loadsField(u.X, mp) {
				ok = false
			}
		}
		c.Decide(ok && n > 0, r2, "batchedEvent.getEventTime", x.PosOf(be.Pos()), "msgpack timestamp returned as is (UTC)", "a msgpack timestamp is transformed (arithmetic, formatting or re-parsing) before it becomes the event time")
	}
	c.Min(r2, 1)

	// ---- the forwarded time is encoded by the msgpack library, from the time value itself -----------------
	const r3 = "C22.forwarded-time-encoder"
	tf := eng.FieldIs("transmit", "batchedEvent", "time")
	nUse := 0
	for _, f := range x.PkgFuncs("transmit") {
		eng.Instrs(f, func(in ssa.Instruction) {
			u, ok := in.(*ssa.UnOp)
			if !ok || !loadsField(u, tf) {
				return
			}
			nUse++
			c.Examined++
			bad := ""
			var uses func(v ssa.Value, depth int)
			uses = func(v ssa.Value, depth int) {
				if v.Referrers() == nil {
					return
				}
				for _, ref := range *v.Referrers() {
					cl, isCall := ref.(ssa.CallInstruction)
					if !isCall {
						if _, isDbg := ref.(*ssa.DebugRef); !isDbg {
							bad = "a use other than a call: " + ref.String()
						}
						continue
					}
					switch n := eng.CalleeName(cl); n {
					case "github.com/tinylib/msgp/msgp.AppendTimeExt", "(*github.com/tinylib/msgp/msgp.Writer).WriteTimeExt", "(time.Time).IsZero":
					default:
						// a helper of this repository that only passes the time on is fine
						g := cl.Common().StaticCallee()
						if g != nil && g.Blocks != nil && x.P.Funcs()[g] && depth < 2 {
							for i, a := range cl.Common().Args {
								if a == v && i < len(g.Params) {
									uses(g.Params[i], depth+1)
								}
							}
							continue
						}
						bad = "it is handed to " + n
					}
				}
			}
			uses(u, 0)
			c.Decide(bad == "", r3, BaseName(f)+"/time", x.Pos(in), "the event time goes to msgp's standard timestamp encoder unchanged",
				"the time forwarded to Honeycomb is not encoded by the msgpack library's standard timestamp encoder from the time value itself ("+bad+"): a hand-written or lossy encoding (seconds/nanoseconds arithmetic, formatting) changes instants the library encodes exactly")
		})
	}
	if nUse == 0 {
		c.Undecided(r3, "batchedEvent.time", "transmit/direct_transmit.go", "no read of the forwarded event's time found")
	}
	// the time stored in the forwarded event is the event's Timestamp
	for _, w := range eng.FieldWrites(x.PkgFuncs("transmit"), tf) {
		c.Examined++
		st := w.Instr.(*ssa.Store)
		c.Decide(loadsField(st.Val, eng.FieldIs("types", "Event", "Timestamp")), r3, BaseName(w.Fn)+"/time-source", x.Pos(st), "taken from Event.Timestamp as is", "the forwarded time is not the event's Timestamp field as is")
	}
	c.Min(r3, 2)

	// ---- strings taken from the pooled JSON parser are copied before they are kept ----------------------------
	// ((*fastjson.Value).GetStringBytes aliases the parser's buffer, which goes back to a pool and is overwritten
	// by the next request; the time and every other kept string must be copied while the parser is still held)
	const r4 = "C22.parser-bytes-copied"
	nGet := 0
	for _, f := range x.PkgFuncs("route") {
		eng.Instrs(f, func(in ssa.Instruction) {
			cl, ok := in.(*ssa.Call)
			if !ok || eng.CalleeName(cl) != "(*github.com/valyala/fastjson.Value).GetStringBytes" {
				return
			}
			nGet++
			c.Examined++
			bad := ""
			seen := map[ssa.Value]bool{}
			var walk func(v ssa.Value)
			walk = func(v ssa.Value) {
				if seen[v] || v.Referrers() == nil {
					return
				}
				seen[v] = true
				for _, ref := range *v.Referrers() {
					switch y := ref.(type) {
					case *ssa.Store:
						if y.Val == v {
							if _, local := y.Addr.(*ssa.Alloc); !local {
								bad = "stored at " + x.Pos(y)
							} else {
								// spilled local: follow its loads
								for _, r2 := range *y.Addr.Referrers() {
									if ld, ok := r2.(*ssa.UnOp); ok {
										walk(ld)
									}
								}
							}
						}
					case *ssa.MapUpdate:
						if y.Value == v || y.Key == v {
							bad = "kept in a map at " + x.Pos(y)
						}
					case *ssa.Slice:
						walk(y)
					case *ssa.Phi:
						walk(y)
					case *ssa.MakeInterface:
						bad = "boxed into an interface at " + x.Pos(y)
					case *ssa.Return:
						bad = "returned at " + x.Pos(y)
					case *ssa.Call:
						if b, ok := y.Call.Value.(*ssa.Builtin); ok && b.Name() == "append" && len(y.Call.Args) > 0 && y.Call.Args[0] == v {
							walk(y) // appending TO it keeps the alias
						}
					}
				}
			}
			walk(cl)
			c.Decide(bad == "", r4, BaseName(f)+"/GetStringBytes", x.Pos(in), "converted to a string (copied) before being kept",
				"bytes returned by the pooled JSON parser are kept without a copy ("+bad+"): they alias the parser's buffer, which the next request overwrites – the event's time (or field) silently becomes another request's")
		})
	}
	if nGet == 0 {
		c.Hold(r4, "route/no-GetStringBytes", "route/batched_event.go", "the JSON batch path takes no raw byte views from the parser")
	}
}
