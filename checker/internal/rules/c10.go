package rules

import (
	"go/token"
	"strings"

	"golang.org/x/tools/go/ssa"

	"refcheck/internal/eng"
)

func init() { Register("C10", c10) }

// pure library functions the kept bit may be computed through
var pureHashFuncs = map[string]bool{
	"crypto/sha1.Sum": true, "(encoding/binary.bigEndian).Uint32": true, "(encoding/binary.bigEndian).Uint64": true,
	"github.com/dgryski/go-wyhash.Hash": true, "crypto/sha256.Sum256": true, "hash/fnv.New32a": false,
}

func c10(x *Ctx) {
	c := x.C
	c.Explanation = "C10 (deterministic sampling is a pure, nested function of the trace ID): for DeterministicSampler.GetSampleRate and StressRelief.GetSampleRate decides that the kept bit is computed only from the trace ID, compile-time constants (salt/seed) and the threshold field through pure hash functions; that it has the shape hash <= threshold (hash on the small side); that the threshold field is stored only as CONST / rate (monotone non-increasing in the rate, hence nesting); and that rate <= 1 returns (1, true) before any hashing."
	c.NotCovered = "the 1/N kept fraction (statistical) and the uniformity of the hash."

	type target struct {
		rel, recv, thresholdField, rateField string
	}
	for _, t := range []target{
		{"sample", "DeterministicSampler", "upperBound", "sampleRate"},
		{"collect", "StressRelief", "upperBound", "sampleRate"},
	} {
		f := x.Fn("C10.pure", t.rel, t.recv, "GetSampleRate")
		if f == nil {
			continue
		}
		thrF := eng.FieldIs(t.rel, t.recv, t.thresholdField)
		rateF := eng.FieldIs(t.rel, t.recv, t.rateField)
		traceID := eng.FieldIs("types", "Trace", "TraceID")
		name := t.recv
		// keep results at every return
		var keeps []ssa.Value
		var rets []*ssa.Return
		eng.Instrs(f, func(in ssa.Instruction) {
			if r, ok := in.(*ssa.Return); ok && len(r.Results) >= 2 {
				rets = append(rets, r)
			}
		})
		collect := func(v ssa.Value) []ssa.Value {
			// resolve spilled named results
			var out []ssa.Value
			if u, ok := v.(*ssa.UnOp); ok && u.Op == token.MUL {
				if a, ok := u.X.(*ssa.Alloc); ok {
					for _, st := range eng.StoresTo(a, nil) {
						out = append(out, st.Val)
					}
					return out
				}
			}
			return []ssa.Value{v}
		}
		for _, r := range rets {
			keeps = append(keeps, collect(r.Results[1])...)
		}
		// ---- purity by data dependence ---------------------------------------------
		bad := ""
		var cmp *ssa.BinOp
		for _, k := range keeps {
			if _, isConst := k.(*ssa.Const); isConst {
				continue
			}
			if b, ok := k.(*ssa.BinOp); ok {
				cmp = b
			}
			for _, l := range leaves(k, func(cl *ssa.Call) bool { return pureHashFuncs[eng.CalleeName(cl)] }) {
				c.Examined++
				switch y := l.(type) {
				case *ssa.Const, *ssa.Function, *ssa.Builtin:
				case *ssa.Parameter:
					if y.Name() != "traceID" && !strings.Contains(typeString(y.Type()), "types.Trace") {
						bad = "parameter " + y.Name()
					}
				case *ssa.UnOp:
					if g, ok := y.X.(*ssa.Global); ok && g.Pkg != nil && g.Pkg.Pkg.Path() == "encoding/binary" {
						continue // binary.BigEndian: stateless byte-order value of the standard library
					}
					if !(loadsField(y, thrF) || loadsField(y, traceID)) {
						bad = "a read of " + y.X.String() + " (" + typeString(y.Type()) + ")"
						if fr, _, ok := eng.LoadedField(y); ok {
							bad = "field " + fr.String()
						}
						if g, ok := y.X.(*ssa.Global); ok {
							bad = "package variable " + g.Name() + " (not a constant)"
						}
					}
				case *ssa.Call:
					bad = "the result of " + eng.CalleeName(y)
				case *ssa.Alloc:
					// local array (sha1 sum) – follow stores
					for _, st := range eng.StoresTo(y, nil) {
						for _, l2 := range leaves(st.Val, func(cl *ssa.Call) bool { return pureHashFuncs[eng.CalleeName(cl)] }) {
							switch z := l2.(type) {
							case *ssa.Const:
							case *ssa.UnOp:
								if !(loadsField(z, thrF) || loadsField(z, traceID)) {
									bad = "a read of " + z.X.String()
								}
							case *ssa.Parameter:
							default:
								bad = l2.String()
							}
						}
					}
				default:
					bad = l.String()
				}
			}
		}
		c.Decide(bad == "", "C10.pure", name+"/kept-bit-inputs", x.PosOf(f.Pos()), "kept bit computed from the trace ID, constants and the threshold only",
			"the keep decision depends on "+bad+": two nodes (or two calls) can disagree about the same trace ID")
		// ---- shape -----------------------------------------------------------------------
		if cmp == nil {
			c.Undecided("C10.threshold-shape", name+"/comparison", x.PosOf(f.Pos()), "the kept bit is not a single comparison (another monotone formulation would have to be added after reading it)")
		} else {
			hashSide := func(v ssa.Value) bool {
				_, ok := eng.Derives(v, func(w ssa.Value) bool {
					return w.Type().String() == "string" && (loadsField(w, traceID) || isParamNamed(w, "traceID"))
				}, eng.FlowOpts{ThroughCalls: true})
				return ok
			}
			thrSide := func(v ssa.Value) bool { return loadsField(v, thrF) }
			ok := hashSide(cmp.X) && thrSide(cmp.Y) && (cmp.Op == token.LEQ || cmp.Op == token.LSS) ||
				hashSide(cmp.Y) && thrSide(cmp.X) && (cmp.Op == token.GEQ || cmp.Op == token.GTR)
			c.Decide(ok, "C10.threshold-shape", name+"/comparison", x.Pos(cmp), "keep ⇔ hash(traceID) <= threshold",
				"the kept bit is not `hash(traceID) <= threshold`: with another shape (modulo, >=) the traces kept at rate N are not a superset of those kept at rate M > N, so nodes with different rates (or a rate change) split traces")
		}
		// ---- threshold = CONST / rate -----------------------------------------------------
		n := 0
		for _, w := range eng.FieldWrites(x.PkgFuncs(t.rel), thrF) {
			n++
			st := w.Instr.(*ssa.Store)
			okT := false
			if bo, ok := st.Val.(*ssa.BinOp); ok && bo.Op == token.QUO {
				_, isConst := bo.X.(*ssa.Const)
				// the divisor is the rate: a read of the rate field, or the very value that is stored into it
				// (also when the division sits in a setter helper that is handed that value)
				isRate := func(v ssa.Value) bool {
					if loadsField(v, rateF) {
						return true
					}
					if v.Referrers() != nil {
						for _, r := range *v.Referrers() {
							if s2, ok := r.(*ssa.Store); ok && s2.Val == v {
								if fr, _, ok := eng.FieldRefOf(s2.Addr); ok && rateF(fr) {
									return true
								}
							}
						}
					}
					return false
				}
				_, fromRate := eng.Derives(bo.Y, func(v ssa.Value) bool { return loadsField(v, rateF) }, eng.FlowOpts{})
				okT = isConst && (fromRate || x.mustDerive(bo.Y, isRate))
				// … and the whole rate: a divisor capped from above (min(rate, K)) stops shrinking the threshold while
				// the reported rate keeps growing, so beyond K the kept set no longer matches the rate that is reported
				var capped func(v ssa.Value, d int) bool
				capped = func(v ssa.Value, d int) bool {
					if d > 6 {
						return false
					}
					switch y := v.(type) {
					case *ssa.Convert:
						return capped(y.X, d+1)
					case *ssa.ChangeType:
						return capped(y.X, d+1)
					case *ssa.Phi:
						for _, e := range y.Edges {
							if capped(e, d+1) {
								return true
							}
						}
					case *ssa.Call:
						if b, ok := y.Call.Value.(*ssa.Builtin); ok {
							if b.Name() == "min" {
								for _, a := range y.Call.Args {
									if _, isK := a.(*ssa.Const); isK {
										return true
									}
								}
							}
							for _, a := range y.Call.Args {
								if capped(a, d+1) {
									return true
								}
							}
						}
					}
					return false
				}
				if okT && capped(bo.Y, 0) {
					okT = false
				}
			}
			c.Decide(okT, "C10.threshold-monotone", name+"/"+BaseName(w.Fn)+"/upperBound", x.Pos(st), "threshold = MAX / rate", "the threshold is not stored as CONSTANT / rate: it is no longer monotone non-increasing in the rate")
		}
		if n == 0 {
			c.Violate("C10.threshold-monotone", name+"/upperBound", x.PosOf(f.Pos()), "the threshold field is never stored")
		}
		// ---- rate and threshold change together ---------------------------------------------------
		// GetSampleRate reads both under one (read) lock; a writer that releases the lock between
		// storing the rate and storing the threshold lets a reader pair the new rate with the old threshold.
		storesOf := func(fn *ssa.Function, pred func(eng.FieldRef) bool) []ssa.Instruction {
			var out []ssa.Instruction
			eng.Instrs(fn, func(in ssa.Instruction) {
				if st, ok := in.(*ssa.Store); ok {
					if fr, _, ok := eng.FieldRefOf(st.Addr); ok && pred(fr) {
						out = append(out, in)
					}
				}
			})
			return out
		}
		// a call to a helper of the package that stores the field counts as a store at the call site
		var storesDeep func(fn *ssa.Function, pred func(eng.FieldRef) bool, depth int) []ssa.Instruction
		storesDeep = func(fn *ssa.Function, pred func(eng.FieldRef) bool, depth int) []ssa.Instruction {
			out := storesOf(fn, pred)
			if depth >= 2 {
				return out
			}
			eng.Instrs(fn, func(in ssa.Instruction) {
				if cl, ok := in.(*ssa.Call); ok {
					if cal := cl.Call.StaticCallee(); cal != nil && cal.Pkg == fn.Pkg && len(cal.Blocks) > 0 && cal != fn {
						if len(storesDeep(cal, pred, depth+1)) > 0 {
							out = append(out, in)
						}
					}
				}
			})
			return out
		}
		has := func(set []ssa.Instruction, in ssa.Instruction) bool {
			for _, t := range set {
				if t == in {
					return true
				}
			}
			return false
		}
		doneFn := map[*ssa.Function]bool{}
		for _, w := range eng.FieldWrites(x.PkgFuncs(t.rel), rateF) {
			if doneFn[w.Fn] {
				continue
			}
			doneFn[w.Fn] = true
			rateStores, thrStores := storesDeep(w.Fn, rateF, 0), storesDeep(w.Fn, thrF, 0)
			if len(thrStores) == 0 {
				continue
			}
			c.Examined++
			split := false
			// a helper that takes the lock itself is a critical section of its own (the mutex is not reentrant)
			for _, set := range [][]ssa.Instruction{rateStores, thrStores} {
				for _, in := range set {
					if cl, ok := in.(*ssa.Call); ok {
						if cal := cl.Call.StaticCallee(); cal != nil && len(callsIn(cal, "(*sync.RWMutex).Lock", "(*sync.Mutex).Lock")) > 0 {
							split = true
						}
					}
				}
			}
			for _, dir := range [][2][]ssa.Instruction{{rateStores, thrStores}, {thrStores, rateStores}} {
				for _, from := range dir[0] {
					to := dir[1]
					r := eng.Explore(eng.Query{Fn: w.Fn, Start: from, Classify: func(in ssa.Instruction, _ eng.Facts) eng.Event {
						if cl, ok := in.(*ssa.Call); ok {
							if n := eng.CalleeName(cl); n == "(*sync.RWMutex).Unlock" || n == "(*sync.Mutex).Unlock" {
								return eng.EvSink
							}
						}
						if has(to, in) {
							return eng.EvSink
						}
						return eng.EvNone
					}})
					for _, h := range r.Hits {
						if has(to, h.Instr) && h.Before > 0 {
							split = true
						}
					}
				}
			}
			c.Decide(!split, "C10.rate-threshold-atomic", name+"/"+BaseName(w.Fn), x.PosOf(w.Fn.Pos()), "rate and threshold are stored in one critical section",
				"the lock is released between storing the sample rate and storing the threshold derived from it: a concurrent GetSampleRate can pair the new rate with the old threshold, so the reported rate and the kept set disagree and nodes reloading at different moments split traces")
		}
		// ---- rate <= 1 keeps everything -----------------------------------------------------
		one := int64(1)
		as := &eng.Assume{Bool: func(v ssa.Value) eng.Tri {
			return eng.EvalRel(v, []eng.RelFact{{A: func(w ssa.Value) bool { return loadsField(w, rateF) }, BConst: &one, Rel: eng.LT | eng.EQ}})
		}}
		r := eng.Explore(eng.Query{Fn: f, Assume: as, TrackPhi: func(*ssa.Phi) bool { return true }})
		okAll, m := true, 0
		for _, e := range r.Exits {
			ret, isRet := e.Instr.(*ssa.Return)
			if !isRet {
				continue
			}
			m++
			rate := e.Facts.Resolve(ret.Results[0])
			k, isK := eng.ConstInt(rate)
			if !isK || k != 1 || e.Facts.Bool(e.Facts.Resolve(ret.Results[1])) != eng.True {
				okAll = false
			}
		}
		c.Decide(okAll && m > 0, "C10.rate-one-keeps-all", name+"/early-return", x.PosOf(f.Pos()), "rate <= 1 ⇒ (1, true) without hashing", "with a sample rate of 1 or less the sampler does not return (1, keep) unconditionally")
	}
	c.Min("C10.pure", 2)
	c.Min("C10.threshold-shape", 2)
	c.Min("C10.threshold-monotone", 2)
	c.Min("C10.rate-one-keeps-all", 2)
	c.Min("C10.rate-threshold-atomic", 2)
}

func isParamNamed(v ssa.Value, name string) bool {
	p, ok := v.(*ssa.Parameter)
	return ok && p.Name() == name
}
