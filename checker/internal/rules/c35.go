package rules

import (
	"go/types"
	"sort"
	"strings"

	"golang.org/x/tools/go/ssa"

	"refcheck/internal/eng"
)

func init() { Register("C35", c35) }

// guardedBy is the explicit guarded-by table: confirmed by reading every access.
var guardedBy = []struct {
	rel, strct, mutex string
	fields            []string
}{
	{"config", "fileConfig", "mux", []string{"mainConfig", "mainHash", "rulesConfig", "rulesHash", "callbacks", "lastLoadTime"}},
	{"collect", "StressRelief", "lock", []string{"mode", "activateLevel", "deactivateLevel", "sampleRate", "upperBound", "overallStressLevel", "reason", "formula", "stressed", "stayOnUntil", "minDuration", "stressLevels"}},
	{"sample", "SamplerFactory", "mutex", []string{"peerCount", "sharedDynsamplers", "goalThroughputConfigs"}},
	{"sample", "dynsamplerMetricsRecorder", "mu", []string{"lastMetrics"}},
	{"sharder", "DeterministicSharder", "peerLock", []string{"peers", "hashes"}},
	{"transmit", "DirectTransmission", "batchMutex", []string{"eventBatches"}},
	{"transmit", "eventBatch", "mutex", []string{"events", "startTime"}},
	{"collect/cache", "CuckooTraceChecker", "mut", []string{"current", "future", "capacity"}},
	{"collect/cache", "KeptReasonsCache", "mu", []string{"data", "keys"}},
	{"internal/health", "Health", "mut", []string{"timeouts", "timeLeft", "readies", "alives"}},
	{"internal/configwatcher", "ConfigWatcher", "mut", []string{"msgTime"}},
	{"route", "environmentCache", "mutex", []string{"items"}},
	{"generics", "SetWithTTL", "mut", []string{"Items"}},
	{"generics", "MapWithTTL", "mut", []string{"Items"}},
	{"metrics", "PromMetrics", "lock", []string{"metrics"}},
	{"agent", "usageTracker", "mut", []string{"lastUsageData", "lastDataPoints", "currentDataPoints"}},
	{"pubsub", "LocalPubSub", "mut", []string{"topics"}},
	{"pubsub", "LocalSubscription", "mut", []string{"cb"}},
	{"pubsub", "GoRedisPubSub", "mut", []string{"subs"}},
	{"internal/peer", "RedisPubsubPeers", "mut", []string{"hash", "callbacks"}},
}

// lockExempt: (struct.field, function) pairs that may touch a guarded field without the lock, each with the reason.
var lockExempt = map[string]string{
	"CuckooTraceChecker.future/Maintain":                    "Maintain is the only writer of `future` and runs on the single monitor goroutine that Resize restarts sequentially",
	"StressRelief.formula/Recalc":                           "only Recalc writes formula; the unlocked read logs the previous value from the same goroutine",
	"DirectTransmission.eventBatches/Stop":                  "producers are stopped before the transmission (startstop reverse dependency order) and the dispatcher goroutine has been joined",
	"eventBatch.events/Stop":                                "as above: no enqueue can run concurrently with Stop",
	"dynsamplerMetricsRecorder.lastMetrics/RegisterMetrics": "documented as not concurrency safe; called on a recorder that is not yet shared (under the factory mutex, or in a sampler's Start)",
}

func c35(x *Ctx) {
	c := x.C
	c.Explanation = "C35 (no unsynchronised shared state) – a lock-discipline necessary condition, not race freedom: (1) guarded-by table – for 20 mutex-carrying structs every access to a guarded field holds the struct's mutex (write access: the write lock) on every path, by Lock/RLock dominance, defer-Unlock, or because every caller holds it; construction and start-up before any goroutine/callback is registered are exempt, plus five named exemptions; a field of a mutex-carrying struct that is written by live code and is neither in the table nor of a synchronisation type is reported; (2) self-concurrent roots – pubsub subscription handlers and peer/reload callbacks run concurrently with themselves: every store they (transitively, within their type) make to a field of their receiver must hold a lock of that struct."
	c.NotCovered = "races on objects handed between goroutines through channels (spans, traces; see C16 for the one ownership rule that is decided), library internals, and anything the lock discipline does not express."
	funcs := x.RepoFuncs()
	const r1 = "C35.guarded-by"
	hasField := func(nt *types.Named, name string) bool {
		st, ok := nt.Underlying().(*types.Struct)
		if !ok {
			return false
		}
		for i := 0; i < st.NumFields(); i++ {
			if st.Field(i).Name() == name {
				return true
			}
		}
		return false
	}
	// checkField decides the guarded-by obligation for every access of one field
	checkField := func(nt *types.Named, strct, fld, mutex, origin string) {
		acc := eng.FieldAccesses(funcs, structFieldPred(nt, fld))
		seen, heldCache, bad := map[string]bool{}, map[string]bool{}, map[string]bool{}
		for _, a := range acc {
			c.Examined++
			fn := eng.Root(a.Fn)
			key := strct + "." + fld + "/" + BaseName(fn)
			mode := "read"
			if a.Write {
				mode = "write"
			}
			if seen[key+mode] && heldCache[key+mode] {
				// further accesses with the same key are still decided; only a failing one adds a report
			}
			held := heldAt(a.Instr, nt, mutex, a.Write)
			why := ""
			switch {
			case held:
				why = "lock held"
			case isFreshBase(a.Base):
				held, why = true, "construction"
			case x.beforeConcurrency(a.Instr):
				held, why = true, "start-up before any goroutine or callback is registered"
			case a.Fn == fn && x.callerHolds(fn, nt, mutex, a.Write, 0):
				held, why = true, "every caller holds the lock"
			case lockExempt[strct+"."+fld+"/"+BaseName(fn)] != "":
				held, why = true, "exempt: "+lockExempt[strct+"."+fld+"/"+BaseName(fn)]
			}
			if !held && origin == "inferred" {
				// an inferred row is only as good as its evidence: start-up-only functions are not concurrent
				if so, _ := x.startupOnly(fn); so {
					held, why = true, "start-up function"
				}
			}
			if held {
				if !seen[key+mode] {
					seen[key+mode] = true
					heldCache[key+mode] = true
					c.Hold(r1, key+":"+mode, x.Pos(a.Instr), why+origin)
				}
				continue
			}
			if bad[key+mode] {
				continue // one report per function and mode
			}
			bad[key+mode] = true
			need := mutex
			if a.Write {
				need += " (write lock)"
			}
			c.Violate(r1, key+":"+mode, x.Pos(a.Instr), strct+"."+fld+" is guarded by "+mutex+" at its other accesses but "+mode+" here without "+need+": a concurrent writer makes this a data race")
		}
	}
	for _, row := range guardedBy {
		nt := x.P.Named(row.rel, row.strct)
		if nt == nil {
			c.Unresolved(r1, row.rel+"."+row.strct, "guarded struct not found")
			continue
		}
		mutex := row.mutex
		if !hasField(nt, mutex) {
			// the mutex was renamed: a struct with exactly one mutex field has an unambiguous guard
			var ms []string
			if st, ok := nt.Underlying().(*types.Struct); ok {
				for i := 0; i < st.NumFields(); i++ {
					if t := st.Field(i).Type().String(); t == "sync.Mutex" || t == "sync.RWMutex" {
						ms = append(ms, st.Field(i).Name())
					}
				}
			}
			if len(ms) != 1 {
				c.Unresolved(r1, row.strct+"."+row.mutex, "the struct's mutex field was not found (renamed or removed) and the struct does not have exactly one mutex")
				continue
			}
			mutex = ms[0]
		}
		for _, fld := range row.fields {
			if !hasField(nt, fld) {
				// renamed or removed: if it lives on under another name and is still written under the mutex, the
				// inference below puts it back under the same obligation
				c.Info["table_rows_without_field"] = append(asStrings(c.Info["table_rows_without_field"]), row.strct+"."+fld)
				continue
			}
			if len(eng.FieldAccesses(funcs, structFieldPred(nt, fld))) == 0 {
				c.Unresolved(r1, row.strct+"."+fld, "guarded field is never accessed")
				continue
			}
			checkField(nt, row.strct, fld, mutex, "")
		}
	}
	c.Min(r1, 120)

	// new fields with live writes in mutex-carrying structs
	const r1b = "C35.unlisted-shared-field"
	inTable := map[string]bool{}
	for _, row := range guardedBy {
		for _, f := range row.fields {
			inTable[row.rel+"."+row.strct+"."+f] = true
		}
	}
	notShared := map[string]string{
		"sharder.DeterministicSharder.myShard":         "written once in Start before the routers serve; the peers callback does not touch it",
		"internal/configwatcher.ConfigWatcher.done":    "reported under C36 (created inside the goroutine)",
		"transmit.DirectTransmission.dispatchPool":     "set in Start, cleared in Stop after all users were joined",
		"transmit.DirectTransmission.stop":             "closed and cleared in Stop only",
		"transmit.DirectTransmission.eventBatches":     "in the table",
		"sample.dynsamplerMetricsRecorder.dynPrefix":   "written in RegisterMetrics before the recorder is shared",
		"sample.dynsamplerMetricsRecorder.metricNames": "written in RegisterMetrics before the recorder is shared",
		"collect/cache.CuckooTraceChecker.addch":       "channel",
		"service/debug.DebugService.mux":               "http mux: set up in Start",
		"service/debug.DebugService.expVars":           "guarded in its accessors; start-up write",
	}
	for _, ms := range x.mutexStructs() {
		st := ms.Named.Underlying().(*types.Struct)
		for i := 0; i < st.NumFields(); i++ {
			f := st.Field(i)
			full := ms.Rel + "." + ms.Named.Obj().Name() + "." + f.Name()
			if inTable[full] || isSyncType(f.Type()) {
				continue
			}
			live, liveMutex := "", ""
			for _, a := range eng.FieldAccesses(funcs, structFieldPred(ms.Named, f.Name())) {
				if !a.Write || isFreshBase(a.Base) || x.beforeConcurrency(a.Instr) {
					continue
				}
				if so, _ := x.startupOnly(eng.Root(a.Fn)); so {
					continue
				}
				held := false
				for _, m := range ms.Mutexes {
					if heldAt(a.Instr, ms.Named, m, true) {
						held = true
						liveMutex = m
					}
				}
				if !held {
					live = x.Pos(a.Instr) + " in " + BaseName(a.Fn)
				} else if live == "" {
					live = "locked:" + x.Pos(a.Instr)
				}
			}
			if live == "" {
				continue
			}
			c.Examined++
			switch {
			case strings.HasPrefix(live, "locked:"):
				// written under the struct's mutex by live code but not in the explicit table (a new or renamed field):
				// the lock at that write is the evidence that the field is shared, so it gets the same obligation as a
				// table row – every other access must hold the mutex too (contradiction rule: locked here, unlocked there)
				c.Hold(r1b, full, strings.TrimPrefix(live, "locked:"), "not in the explicit table; inferred as guarded by "+liveMutex+" from a locked live write – all its accesses are checked under "+r1)
				checkField(ms.Named, ms.Named.Obj().Name(), f.Name(), liveMutex, " (inferred row)")
			case notShared[full] != "":
				c.Hold(r1b, full, live, "declared not shared: "+notShared[full])
			default:
				c.Violate(r1b, full, live, full+" belongs to a mutex-carrying struct and is written by live (non start-up) code without the mutex, and is neither in the guarded-by table nor declared confined")
			}
		}
	}

	// ---- clause 2: self-concurrent roots ----------------------------------------------------------------
	const r2 = "C35.self-concurrent-roots"
	type root struct {
		fn   *ssa.Function
		why  string
		site ssa.Instruction
	}
	var roots []root
	resolveFn := func(v ssa.Value) *ssa.Function {
		var out *ssa.Function
		eng.Derives(v, func(w ssa.Value) bool {
			switch y := w.(type) {
			case *ssa.MakeClosure:
				f := y.Fn.(*ssa.Function)
				if f.Synthetic != "" {
					// bound method wrapper: the method it calls
					eng.Instrs(f, func(in ssa.Instruction) {
						if cl, ok := in.(ssa.CallInstruction); ok && cl.Common().StaticCallee() != nil {
							out = cl.Common().StaticCallee()
						}
					})
				} else {
					out = f
				}
			case *ssa.Function:
				out = y
			}
			return false
		}, eng.FlowOpts{})
		return out
	}
	for _, f := range funcs {
		eng.Instrs(f, func(in ssa.Instruction) {
			cl, ok := in.(ssa.CallInstruction)
			if !ok {
				return
			}
			nm := eng.MethodBase(eng.CalleeName(cl))
			args := eng.CallArgs(cl)
			var cb ssa.Value
			why := ""
			switch {
			case nm == "Subscribe" && len(args) == 3:
				cb, why = args[2], "pubsub delivers each message on its own goroutine"
			case nm == "RegisterUpdatedPeersCallback" && len(args) == 1:
				cb, why = args[0], "peer callbacks are started with `go cb()` for every membership change"
			}
			if cb == nil {
				return
			}
			if g := resolveFn(cb); g != nil && x.P.Funcs()[eng.Root(g)] && !x.P.IsDoubleFunc(g) {
				roots = append(roots, root{g, why, in})
			}
		})
	}
	sort.Slice(roots, func(i, j int) bool { return FName(roots[i].fn) < FName(roots[j].fn) })
	seenRoot := map[*ssa.Function]bool{}
	for _, rt := range roots {
		if seenRoot[rt.fn] {
			continue
		}
		seenRoot[rt.fn] = true
		recvT := recvNamed(eng.Root(rt.fn))
		if recvT == nil {
			continue
		}
		c.Examined++
		// functions reachable from the root that are methods of the same type (or closures in them)
		var bad []string
		for g := range x.Reachable(rt.fn) {
			if !x.P.Funcs()[g] || recvNamed(eng.Root(g)) != recvT {
				continue
			}
			eng.Instrs(g, func(in ssa.Instruction) {
				st, ok := in.(*ssa.Store)
				if !ok {
					return
				}
				fr, base, ok := eng.FieldRefOf(st.Addr)
				if !ok || fr.Struct == nil || fr.Struct.Obj() != recvT.Obj() || isFreshBase(base) || isSyncType(fr.Var.Type()) {
					return
				}
				held := false
				stT := recvT.Underlying().(*types.Struct)
				for i := 0; i < stT.NumFields(); i++ {
					ts := stT.Field(i).Type().String()
					if (ts == "sync.Mutex" || ts == "sync.RWMutex") && (heldAt(in, recvT, stT.Field(i).Name(), true) || x.callerHolds(g, recvT, stT.Field(i).Name(), true, 0)) {
						held = true
					}
				}
				if !held {
					bad = append(bad, fr.Name+" in "+BaseName(g)+" ("+x.Pos(in)+")")
				}
			})
		}
		sort.Strings(bad)
		key := typeShort(recvT) + "." + BaseName(rt.fn)
		if len(bad) > 0 {
			c.Violate(r2, key, x.Pos(rt.site), FName(rt.fn)+" runs concurrently with itself ("+rt.why+") and stores to its receiver's fields without a lock: "+strings.Join(bad, "; "))
		} else {
			c.Hold(r2, key, x.Pos(rt.site), "no unlocked store to receiver fields from this concurrent root")
		}
	}
	// registration methods that append to a callback list read by concurrent roots
	for _, f := range funcs {
		if f.Name() != "RegisterUpdatedPeersCallback" || x.P.IsDoubleFunc(f) {
			continue
		}
		recvT := recvNamed(f)
		if recvT == nil {
			continue
		}
		eng.Instrs(f, func(in ssa.Instruction) {
			st, ok := in.(*ssa.Store)
			if !ok {
				return
			}
			fr, _, ok := eng.FieldRefOf(st.Addr)
			if !ok || fr.Struct == nil || fr.Struct.Obj() != recvT.Obj() {
				return
			}
			// is the list read by a self-concurrent root of the same type?
			readByRoot := false
			for _, rt := range roots {
				if recvNamed(eng.Root(rt.fn)) != recvT {
					continue
				}
				for g := range x.Reachable(rt.fn) {
					if x.P.Funcs()[g] && len(eng.FieldAccesses([]*ssa.Function{g}, func(q eng.FieldRef) bool { return q.Var == fr.Var })) > 0 {
						readByRoot = true
					}
				}
			}
			if !readByRoot {
				return
			}
			held := false
			stT := recvT.Underlying().(*types.Struct)
			for i := 0; i < stT.NumFields(); i++ {
				ts := stT.Field(i).Type().String()
				if (ts == "sync.Mutex" || ts == "sync.RWMutex") && heldAt(in, recvT, stT.Field(i).Name(), true) {
					held = true
				}
			}
			c.Decide(held, r2, typeShort(recvT)+"."+f.Name()+"/"+fr.Name, x.Pos(in), "callback list appended under a lock", "the callback list "+fr.Name+" is appended without a lock while message handlers running on other goroutines range over it")
		})
	}
	c.Min(r2, 4)

	// ---- per-worker confinement: the lock-free worker state is touched by its own goroutine only -------------
	x.workerConfined("C35.worker-confined", x.PkgFuncs("collect"))
	c.Min("C35.worker-confined", 4)
}

func asStrings(v any) []string {
	s, _ := v.([]string)
	return s
}

func isFreshBase(base ssa.Value) bool {
	switch y := base.(type) {
	case *ssa.Alloc:
		return true
	case *ssa.UnOp:
		// a variable cell (captured local): fresh only if everything stored into it is a fresh allocation
		a, ok := y.X.(*ssa.Alloc)
		if !ok {
			return false
		}
		sts := eng.StoresTo(a, nil)
		if len(sts) == 0 {
			return false
		}
		for _, st := range sts {
			if _, isAlloc := st.Val.(*ssa.Alloc); !isAlloc {
				return false
			}
		}
		return true
	case *ssa.Extract:
		// the result of a constructor: a function of this repository all of whose returned values are fresh allocations
		if cl, ok := y.Tuple.(*ssa.Call); ok {
			return returnsFresh(cl.Call.StaticCallee(), y.Index)
		}
	case *ssa.Call:
		return returnsFresh(y.Call.StaticCallee(), 0)
	case *ssa.Parameter:
		return false
	}
	return false
}

// returnsFresh: every value f returns as result idx is a new allocation made in f (or nil).
func returnsFresh(f *ssa.Function, idx int) bool {
	if f == nil || f.Blocks == nil {
		return false
	}
	vals := returnedValues(f, idx)
	if len(vals) == 0 {
		return false
	}
	for _, v := range vals {
		switch y := v.(type) {
		case *ssa.Alloc:
		case *ssa.Const:
			if !y.IsNil() {
				return false
			}
		default:
			return false
		}
	}
	return true
}

func isSyncType(t types.Type) bool {
	s := t.String()
	if strings.HasPrefix(s, "sync.") || strings.HasPrefix(s, "sync/atomic.") || strings.HasPrefix(s, "*sync.") || strings.HasPrefix(s, "*sync/atomic.") {
		return true
	}
	_, isChan := t.Underlying().(*types.Chan)
	return isChan
}

func recvNamed(f *ssa.Function) *types.Named {
	if f == nil || f.Signature.Recv() == nil {
		return nil
	}
	t := f.Signature.Recv().Type()
	if p, ok := t.(*types.Pointer); ok {
		t = p.Elem()
	}
	n, _ := t.(*types.Named)
	if n != nil {
		n = n.Origin()
	}
	return n
}

func typeShort(n *types.Named) string { return n.Obj().Name() }
