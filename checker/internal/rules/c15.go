package rules

import (
	"sort"
	"go/token"
	"strings"

	"golang.org/x/tools/go/ssa"

	"refcheck/internal/eng"
)

func init() { Register("C15", c15) }

func c15(x *Ctx) {
	c := x.C
	c.Explanation = "C15 (stress relief hysteresis): in StressRelief.Recalc decides, per mode, which values can be stored into `stressed` and under which guards: mode never ⇒ only false, always ⇒ only true; monitor ⇒ true only when overall >= ActivationLevel, false only when overall < DeactivationLevel and Now() is after stayOnUntil; stayOnUntil is stored only as Now()+MinimumActivationDuration and only while overall >= DeactivationLevel; overall is max(cluster, local); nobody else writes these fields; the mode strings map to the three modes and the mode is refreshed at start and on reload; the cluster level skips expired and zero reports."
	c.NotCovered = "the numeric bound [0,100] of the level and the RMS value (floating point)."
	rc := x.Fn("C15.mode-table", "collect", "StressRelief", "Recalc")
	if rc == nil {
		return
	}
	fld := func(n string) func(eng.FieldRef) bool { return eng.FieldIs("collect", "StressRelief", n) }
	stressedF, stayF, modeF := fld("stressed"), fld("stayOnUntil"), fld("mode")
	overallF, actF, deactF, minDurF := fld("overallStressLevel"), fld("activateLevel"), fld("deactivateLevel"), fld("minDuration")
	// mode constants
	modeVal := map[string]int64{}
	for _, n := range []string{"Never", "Monitor", "Always"} {
		if k, ok := x.P.ByRel["collect"].Types.Scope().Lookup(n).(interface {
			Val() interface{ String() string }
		}); ok {
			_ = k
		}
	}
	for i, n := range []string{"Never", "Monitor", "Always"} {
		modeVal[n] = int64(i)
		if obj := x.P.ByRel["collect"].Types.Scope().Lookup(n); obj == nil {
			c.Unresolved("C15.mode-table", "collect."+n, "mode constant not found")
		}
	}
	for _, n := range []string{"Never", "Monitor", "Always"} {
		if cst, ok := lookupIntConst(x, "collect", n); ok {
			modeVal[n] = cst
		}
	}
	modeIs := func(name string) func(ssa.Value) eng.Tri {
		return func(v ssa.Value) eng.Tri {
			b, ok := v.(*ssa.BinOp)
			if !ok || (b.Op != token.EQL && b.Op != token.NEQ) {
				return eng.Unknown
			}
			var other ssa.Value
			if loadsField(b.X, modeF) {
				other = b.Y
			} else if loadsField(b.Y, modeF) {
				other = b.X
			}
			if other == nil {
				return eng.Unknown
			}
			k, ok := eng.ConstInt(other)
			if !ok {
				return eng.Unknown
			}
			t := eng.False
			if k == modeVal[name] {
				t = eng.True
			}
			if b.Op == token.NEQ {
				return t.Not()
			}
			return t
		}
	}
	type stStore struct {
		st  *ssa.Store
		val eng.Tri
	}
	var stores []stStore
	for _, w := range eng.FieldWrites([]*ssa.Function{rc}, stressedF) {
		st := w.Instr.(*ssa.Store)
		t := eng.Unknown
		if cst, ok := st.Val.(*ssa.Const); ok && cst.Value != nil {
			if cst.Value.String() == "true" {
				t = eng.True
			} else {
				t = eng.False
			}
		}
		stores = append(stores, stStore{st, t})
	}
	reach := func(as *eng.Assume, target ssa.Instruction) bool {
		r := eng.ReachableSinks(rc, as, nil, func(in ssa.Instruction) bool { return in == target })
		return len(r.Hits) > 0
	}
	// ---- mode table ----------------------------------------------------------------------
	const r1 = "C15.mode-table"
	for _, m := range []struct {
		name string
		only eng.Tri
	}{{"Never", eng.False}, {"Always", eng.True}} {
		as := &eng.Assume{Bool: modeIs(m.name)}
		bad := ""
		n := 0
		for _, s := range stores {
			if reach(as, s.st) {
				n++
				if s.val != m.only {
					bad = x.Pos(s.st)
				}
			}
		}
		want := "false"
		if m.only == eng.True {
			want = "true"
		}
		c.Decide(bad == "" && n > 0, r1, "Recalc/"+m.name, x.PosOf(rc.Pos()), "mode "+m.name+" ⇒ stressed = "+want, "in mode "+strings.ToLower(m.name)+" a store to `stressed` other than the constant "+want+" is reachable ("+bad+"), or none is")
	}
	// ---- monitor guards --------------------------------------------------------------------
	const r2 = "C15.on-guard"
	const r3 = "C15.off-guard"
	isOverall := func(v ssa.Value) bool { return loadsField(v, overallF) }
	rel := func(b func(eng.FieldRef) bool, r eng.RelSet) eng.RelFact {
		return eng.RelFact{A: isOverall, B: func(v ssa.Value) bool { return loadsField(v, b) }, Rel: r}
	}
	mon := modeIs("Monitor")
	with := func(facts []eng.RelFact, extra func(ssa.Value) eng.Tri) *eng.Assume {
		return &eng.Assume{Bool: func(v ssa.Value) eng.Tri {
			if t := mon(v); t != eng.Unknown {
				return t
			}
			if extra != nil {
				if t := extra(v); t != eng.Unknown {
					return t
				}
			}
			return eng.EvalRel(v, facts)
		}}
	}
	for _, s := range stores {
		c.Examined++
		switch s.val {
		case eng.True:
			if !reach(with(nil, nil), s.st) {
				continue // not a monitor-mode store
			}
			c.Decide(!reach(with([]eng.RelFact{rel(actF, eng.LT)}, nil), s.st), r2, "Recalc/activate", x.Pos(s.st),
				"activation only when overall >= ActivationLevel", "in monitor mode stress relief can switch on while the stress level is below ActivationLevel")
		case eng.False:
			if !reach(with(nil, nil), s.st) {
				continue
			}
			okLevel := !reach(with([]eng.RelFact{rel(deactF, eng.GT|eng.EQ)}, nil), s.st)
			okTime := !reach(with(nil, func(v ssa.Value) eng.Tri {
				if tc, ok := eng.NormTimeCmp(v); ok {
					// now AFTER stayOnUntil must hold: assume the opposite
					xNow := isCallValue(tc.X, "(github.com/jonboulle/clockwork.Clock).Now")
					yStay := loadsField(tc.Y, stayF)
					yNow := isCallValue(tc.Y, "(github.com/jonboulle/clockwork.Clock).Now")
					xStay := loadsField(tc.X, stayF)
					switch {
					case xNow && yStay && tc.Rel == eng.GT:
						return eng.False
					case yNow && xStay && tc.Rel == eng.LT:
						return eng.False
					}
				}
				return eng.Unknown
			}), s.st)
			switch {
			case !okLevel:
				c.Violate(r3, "Recalc/deactivate", x.Pos(s.st), "stress relief can switch off while the stress level is still at or above DeactivationLevel")
			case !okTime:
				c.Violate(r3, "Recalc/deactivate", x.Pos(s.st), "stress relief can switch off before MinimumActivationDuration has passed since the level was last above DeactivationLevel (no Now().After(stayOnUntil) guard)")
			default:
				c.Hold(r3, "Recalc/deactivate", x.Pos(s.st), "deactivation only when overall < DeactivationLevel and Now() is after stayOnUntil")
			}
		default:
			c.Undecided(r1, "Recalc/stressed-store", x.Pos(s.st), "a non-constant value is stored into `stressed`")
		}
	}
	c.Min(r2, 1)
	c.Min(r3, 1)
	// ---- stayOnUntil ----------------------------------------------------------------------------
	const r4 = "C15.stay-on"
	for _, w := range eng.FieldWrites([]*ssa.Function{rc}, stayF) {
		st := w.Instr.(*ssa.Store)
		okVal := false
		if add, ok := st.Val.(*ssa.Call); ok && eng.CalleeName(add) == "(time.Time).Add" {
			okVal = isCallValue(add.Call.Args[0], "(github.com/jonboulle/clockwork.Clock).Now") && loadsField(add.Call.Args[1], minDurF)
		}
		okGuard := !reach(with([]eng.RelFact{rel(deactF, eng.LT)}, nil), st)
		c.Decide(okVal && okGuard, r4, "Recalc/stayOnUntil", x.Pos(st), "stayOnUntil = Now()+minDuration, pushed only while overall >= DeactivationLevel",
			"stayOnUntil is not stored as Now()+MinimumActivationDuration under `overall >= DeactivationLevel`: the minimum on-time is not measured from the last time the level was high")
	}
	c.Min(r4, 1)
	// ---- overall = max(cluster, local) ------------------------------------------------------------
	for _, w := range eng.FieldWrites([]*ssa.Function{rc}, overallF) {
		st := w.Instr.(*ssa.Store)
		_, viaMax := eng.Derives(st.Val, func(v ssa.Value) bool {
			cl, ok := v.(*ssa.Call)
			if !ok {
				return false
			}
			if n := eng.CalleeName(cl); n == "math.Max" || n == "builtin.max" {
				_, a := eng.Derives(cl.Call.Args[0], func(u ssa.Value) bool { return isCallValue(u, "(*collect.StressRelief).clusterStressLevel") }, eng.FlowOpts{})
				_, b := eng.Derives(cl.Call.Args[1], func(u ssa.Value) bool { return isCallValue(u, "(*collect.StressRelief).clusterStressLevel") }, eng.FlowOpts{})
				return a != b
			}
			return false
		}, eng.FlowOpts{})
		c.Decide(viaMax, "C15.overall-is-max", "Recalc/overallStressLevel", x.Pos(st), "overall = max(cluster level, local level)", "the overall stress level is not the maximum of the cluster level and the local level")
	}
	c.Min("C15.overall-is-max", 1)
	// ---- writers ---------------------------------------------------------------------------------
	for _, w := range eng.FieldWrites(x.PkgFuncs("collect"), func(fr eng.FieldRef) bool { return stressedF(fr) || stayF(fr) }) {
		fn := eng.Root(w.Fn).Name()
		c.Decide(fn == "Recalc", "C15.single-writer", fn+"/"+fieldNameOf(w.Instr), x.Pos(w.Instr), "written by Recalc only", "the stress-relief state is written in "+fn+" outside Recalc's guarded transitions")
	}
	c.Min("C15.single-writer", 3)
	// ---- mode strings -------------------------------------------------------------------------------
	const r5 = "C15.mode-strings"
	if uc := x.Fn(r5, "collect", "StressRelief", "UpdateFromConfig"); uc != nil {
		// for each configured string: assume every comparison of the mode string with a literal has the outcome
		// that string gives it, and look at what is stored into the mode field on the paths that remain (a switch
		// and an if/else chain are the same thing here; the value may travel through a local)
		modeF := eng.FieldIs("collect", "StressRelief", "mode")
		want := map[string]string{"never": "Never", "": "Never", "monitor": "Monitor", "always": "Always"}
		val := map[string]int64{}
		for _, m := range []string{"Never", "Monitor", "Always"} {
			if k, ok := lookupIntConst(x, "collect", m); ok {
				val[m] = k
			}
		}
		isModeString := func(v ssa.Value) bool {
			_, ok := eng.Derives(v, func(w ssa.Value) bool {
				fr, _, ok := eng.LoadedField(w)
				return ok && fr.Name == "Mode"
			}, eng.FlowOpts{})
			return ok
		}
		bad := ""
		compared := 0
		for _, lit := range []string{"never", "", "monitor", "always"} {
			lit := lit
			as := &eng.Assume{Bool: func(v ssa.Value) eng.Tri {
				b, ok := v.(*ssa.BinOp)
				if !ok || (b.Op != token.EQL && b.Op != token.NEQ) {
					return eng.Unknown
				}
				sv, other := b.X, b.Y
				k, isK := eng.ConstString(other)
				if !isK {
					sv, other = b.Y, b.X
					k, isK = eng.ConstString(other)
				}
				if !isK || !isModeString(sv) {
					return eng.Unknown
				}
				compared++
				return triOf((k == lit) == (b.Op == token.EQL))
			}}
			got := map[int64]bool{}
			unknown := false
			eng.Explore(eng.Query{Fn: uc, Assume: as, TrackPhi: func(*ssa.Phi) bool { return true }, Classify: func(in ssa.Instruction, F eng.Facts) eng.Event {
				if st, ok := in.(*ssa.Store); ok {
					if fr, _, ok := eng.FieldRefOf(st.Addr); ok && modeF(fr) {
						if k, ok := eng.ConstInt(F.Resolve(st.Val)); ok {
							got[k] = true
						} else {
							unknown = true
						}
					}
				}
				return eng.EvNone
			}})
			wantV, have := val[want[lit]]
			if !have || unknown || len(got) != 1 || !got[wantV] {
				bad += sprintf("%q→%v (want %s) ", lit, keysOfInt(got), want[lit])
			}
		}
		if compared == 0 {
			c.Undecided(r5, "UpdateFromConfig/table", x.PosOf(uc.Pos()), "the configured mode string is not compared with literals")
		} else {
			c.Decide(bad == "", r5, "UpdateFromConfig/table", x.PosOf(uc.Pos()), "never|\"\"→Never, monitor→Monitor, always→Always", "mode strings are mapped wrongly: "+bad)
		}
		n := 0
		for _, e := range x.Callers(uc) {
			fn := eng.Root(e.Caller.Func).Name()
			if fn == "Start" || fn == "reloadConfigs" {
				n++
			}
		}
		c.Decide(n >= 2, r5, "UpdateFromConfig/callers", x.PosOf(uc.Pos()), "refreshed at start and on reload", "the stress-relief settings are not refreshed both at start and on configuration reload")
	}
	c.Min(r5, 2)
	// ---- cluster level ---------------------------------------------------------------------------------
	const r6 = "C15.cluster-level"
	if cl := x.Fn(r6, "collect", "StressRelief", "clusterStressLevel"); cl != nil {
		var acc ssa.Instruction
		eng.Instrs(cl, func(in ssa.Instruction) {
			if b, ok := in.(*ssa.BinOp); ok && b.Op == token.ADD && loopHeader(in) != nil {
				if _, isF := b.Type().Underlying().(interface{ Kind() int }); true || isF {
					if strings.Contains(b.Type().String(), "float") {
						acc = in
					}
				}
			}
		})
		if acc == nil {
			c.Undecided(r6, "clusterStressLevel/accumulation", x.PosOf(cl.Pos()), "cannot find the accumulation of report levels")
		} else {
			h := loopHeader(acc)
			body := loopBody(h)
			run := func(as *eng.Assume) bool {
				r := eng.Explore(eng.Query{Fn: cl, Assume: as, Start: body.Instrs[0], Classify: func(in ssa.Instruction, _ eng.Facts) eng.Event {
					if in == h.Instrs[0] {
						return eng.EvKill
					}
					if in == acc {
						return eng.EvSink
					}
					return eng.EvNone
				}})
				return len(r.Hits) > 0
			}
			expired := &eng.Assume{Bool: func(v ssa.Value) eng.Tri {
				if b, ok := v.(*ssa.BinOp); ok && b.Op == token.GTR {
					if isCallValue(b.X, "(github.com/jonboulle/clockwork.Clock).Since") {
						return eng.True
					}
				}
				return eng.Unknown
			}}
			zero := int64(0)
			zeroLevel := &eng.Assume{Bool: func(v ssa.Value) eng.Tri {
				return eng.EvalRel(v, []eng.RelFact{{A: func(u ssa.Value) bool {
					fr, _, ok := eng.FieldRefOf(u)
					if ok && fr.Name == "level" {
						return true
					}
					return loadsField(u, func(fr eng.FieldRef) bool { return fr.Name == "level" })
				}, BConst: &zero, Rel: eng.EQ}})
			}}
			c.Decide(!run(expired), r6, "clusterStressLevel/expired-skipped", x.Pos(acc), "reports older than the peer timeout are not counted", "an expired peer report still contributes to the cluster stress level")
			c.Decide(!run(zeroLevel), r6, "clusterStressLevel/zero-skipped", x.Pos(acc), "zero-level reports (nodes starting up) are not counted", "zero-level reports are averaged in, diluting the cluster stress level")
		}
	}
	c.Min(r6, 2)

	// ---- every parsed peer report refreshes that peer's entry (level and timestamp) ------------------------
	const r7 = "C15.report-refreshes-entry"
	if up := x.Fn(r7, "collect", "StressRelief", "onStressLevelUpdate"); up != nil {
		levelsF := eng.FieldIs("collect", "StressRelief", "stressLevels")
		as := &eng.Assume{Nil: func(v ssa.Value) eng.Tri {
			if isExtractOf(v, 1, "collect.unmarshalStressReliefMessage") {
				return eng.True // the message parsed
			}
			return eng.Unknown
		}}
		r := eng.Explore(eng.Query{Fn: up, Assume: as, Classify: func(in ssa.Instruction, _ eng.Facts) eng.Event {
			if mu, ok := in.(*ssa.MapUpdate); ok && loadsField(mu.Map, levelsF) {
				// the stored report carries a fresh timestamp
				if _, fresh := eng.Derives(mu.Value, func(v ssa.Value) bool {
					cl, ok := v.(*ssa.Call)
					return ok && strings.HasSuffix(eng.CalleeName(cl), ".Now")
				}, eng.FlowOpts{}); fresh {
					return eng.EvSink
				}
			}
			return eng.EvNone
		}})
		c.Examined += r.States
		bad := false
		var path []*ssa.BasicBlock
		for _, e := range r.Exits {
			if _, isRet := e.Instr.(*ssa.Return); isRet && e.Sinks == 0 {
				bad, path = true, e.Path
			}
		}
		if bad {
			o := c.Violate(r7, "onStressLevelUpdate", x.PosOf(up.Pos()), "a peer report that parsed correctly can be discarded without refreshing the peer's entry and its timestamp: a peer that keeps reporting the same level expires from the cluster aggregate although its reports are recent, so the level acted on drops below the documented root-mean-square")
			o.Path = eng.DescribePath(x.P.Pos, path)
		} else {
			c.Hold(r7, "onStressLevelUpdate", x.PosOf(up.Pos()), "parsed report ⇒ entry stored with the current time")
		}
	}

	// ---- the local level lies in [0,100]: every algorithm takes its input from a clamped ratio ----------------
	const r8 = "C15.level-bounded"
	bounded := map[*ssa.Function]int{} // 0 unknown, 1 in progress, 2 yes, 3 no
	var isBounded01 func(f *ssa.Function) bool
	isClampCall := func(v ssa.Value) bool {
		cl, ok := v.(*ssa.Call)
		if !ok || eng.CalleeName(cl) != "collect.clamp" || len(cl.Call.Args) != 3 {
			return false
		}
		lo, ok1 := eng.ConstFloat(cl.Call.Args[1])
		hi, ok2 := eng.ConstFloat(cl.Call.Args[2])
		return ok1 && ok2 && lo >= 0 && hi <= 1
	}
	isBounded01 = func(f *ssa.Function) bool {
		if f == nil || f.Blocks == nil {
			return false
		}
		switch bounded[f] {
		case 1, 3:
			return false
		case 2:
			return true
		}
		bounded[f] = 1
		ok, n := true, 0
		eng.Instrs(f, func(in ssa.Instruction) {
			ret, isRet := in.(*ssa.Return)
			if !isRet || len(ret.Results) != 1 {
				return
			}
			n++
			for _, l := range leaves(ret.Results[0], nil) {
				switch y := l.(type) {
				case *ssa.Const:
					if k, isF := eng.ConstFloat(y); !isF || k < 0 || k > 1 {
						ok = false
					}
				case *ssa.Call:
					if !isClampCall(y) && !isBounded01(y.Call.StaticCallee()) {
						ok = false
					}
				default:
					ok = false
				}
			}
		})
		if ok && n > 0 {
			bounded[f] = 2
			return true
		}
		bounded[f] = 3
		return false
	}
	algF := eng.FieldIs("collect", "StressRelief", "algorithms")
	nAlg := 0
	algMaps := map[ssa.Value]bool{} // map values stored into the field (a map literal is built first, then stored)
	for _, w := range eng.FieldWrites(x.PkgFuncs("collect"), algF) {
		algMaps[w.Instr.(*ssa.Store).Val] = true
	}
	for _, f := range x.PkgFuncs("collect") {
		eng.Instrs(f, func(in ssa.Instruction) {
			mu, ok := in.(*ssa.MapUpdate)
			if !ok || !(loadsField(mu.Map, algF) || algMaps[mu.Map]) {
				return
			}
			name := ""
			eng.Derives(mu.Value, func(v ssa.Value) bool {
				if mc, ok := v.(*ssa.MakeClosure); ok {
					name = strings.TrimSuffix(mc.Fn.Name(), "$bound")
				}
				return false
			}, eng.FlowOpts{})
			alg := x.P.Func("collect", "StressRelief", name)
			if alg == nil || alg.Blocks == nil {
				c.Undecided(r8, "algorithm/"+name, x.Pos(in), "cannot resolve the algorithm function")
				return
			}
			nAlg++
			c.Examined++
			// every non-constant input of the returned value is a call of a function bounded to [0,1]
			bad := ""
			eng.Instrs(alg, func(i2 ssa.Instruction) {
				ret, isRet := i2.(*ssa.Return)
				if !isRet || len(ret.Results) != 1 {
					return
				}
				for _, l := range leaves(ret.Results[0], func(cl *ssa.Call) bool { return strings.HasPrefix(eng.CalleeName(cl), "math.") }) {
					switch y := l.(type) {
					case *ssa.Const:
					case *ssa.Call:
						if !isClampCall(y) && !isBounded01(y.Call.StaticCallee()) {
							bad = eng.CalleeName(y)
						}
					default:
						bad = l.String()
					}
				}
			})
			c.Decide(bad == "", r8, "algorithm/"+name, x.PosOf(alg.Pos()), "computed from a ratio clamped to [0,1]",
				"the "+name+" algorithm computes the stress level from "+bad+", which is not clamped to [0,1]: with a resource over its configured capacity the local level exceeds 100 and that value is acted on and published to peers")
		})
	}
	if nAlg == 0 {
		c.Undecided(r8, "algorithms", "collect/stressRelief.go", "no algorithm registrations found")
	}
	c.Min(r8, 4)
}

func fieldNameOf(in ssa.Instruction) string {
	if st, ok := in.(*ssa.Store); ok {
		if fr, _, ok := eng.FieldRefOf(st.Addr); ok {
			return fr.Name
		}
	}
	return "?"
}

func keysOfInt(m map[int64]bool) []int64 {
	var out []int64
	for k := range m {
		out = append(out, k)
	}
	sort.Slice(out, func(i, j int) bool { return out[i] < out[j] })
	return out
}
